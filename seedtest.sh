#!/bin/bash
# usage: seedtest.sh <PROP> <seed-dir> [tier]: apply a seeded change to a scratch worktree of /repo (never to /repo itself while other
# checks may be running; SEEDTAG=<x> selects a separate worktree and cache lane so that several can run side by side), run the check against it via VERIF_REPO, restore the worktree. Output in /tmp/seedtest_<name>.out
P=$1; D=$2; T=${3:-quick}; N=$(basename $(dirname $D))_$(basename $D)
W=/tmp/seedrun$SEEDTAG
if [ ! -d $W ]; then git -C /repo worktree add -q --detach $W HEAD || exit 9; fi
cd $W || exit 9
git checkout -q --detach $(git -C /repo rev-parse HEAD) 2>/dev/null; git checkout -q -- . ; git clean -fdq src tests
git apply "$D/patch.diff" || { echo "seed $N: patch does not apply"; exit 9; }
cd /verif && VERIF_ALT_TAG=$SEEDTAG VERIF_REPO=$W ./check $P --tier $T --no-evidence > /tmp/seedtest_$N.out 2>&1; rc=$?
cd $W && git checkout -q -- . && git clean -fdq src tests
echo "seed $N property $P tier $T -> exit $rc"; grep -E "^VIOLATION|^SUMMARY|^BROKEN|^INCONCLUSIVE|^BUILD" /tmp/seedtest_$N.out | head -8
