// Shared helpers for the Kani harnesses: stubs, scripted sinks/sources.
// Everything here is part of the trusted base and is listed in DESIGN.md §4.
#![allow(unused)]

use std::io;

/// S1: `alloc::fmt::format` replaced by this in harnesses whose property does not
/// concern message text (error paths build their messages with `format!`).
pub fn fmt_stub(_a: std::fmt::Arguments<'_>) -> String {
    String::new()
}

/// Fixed-capacity sink that records everything; never short-writes.
pub struct ArrSink<const N: usize> {
    pub buf: [u8; N],
    pub len: usize,
}

impl<const N: usize> ArrSink<N> {
    pub fn new() -> Self {
        ArrSink { buf: [0; N], len: 0 }
    }
}

impl<const N: usize> io::Write for ArrSink<N> {
    fn write(&mut self, b: &[u8]) -> io::Result<usize> {
        let mut i = 0;
        while i < b.len() {
            // capacity overflow is a harness bug, make it loud
            assert!(self.len < N, "harness: ArrSink capacity");
            self.buf[self.len] = b[i];
            self.len += 1;
            i += 1;
        }
        Ok(b.len())
    }
    fn flush(&mut self) -> io::Result<()> {
        Ok(())
    }
}

/// Scripted sink obeying the `Write` contract.
///   K        bytes accepted per `write` call (0 = the whole buffer)  -- const, one instantiation per K
///   fail_at  number of the `write` call that fails for good with ErrorKind::Other (0 = never) -- symbolic
///   intr_at  number of the `write` call answered with ErrorKind::Interrupted (0 = never)      -- symbolic
/// With K = 1 and a symbolic `fail_at` the sink fails at an arbitrary byte offset.
///
/// S9: `write_all` is overridden by a loop with the semantics of std's default `write_all` over this
/// sink's `write` (retry on Interrupted, stop at the first hard error, advance by the accepted count).
/// Going through std's default costs ~100x more (every iteration decodes and drops a bit-packed
/// io::Error and re-slices at a symbolic offset); the override is checked equivalent to the default by
/// the harness `c14_model_equiv` on buffers of up to 4 bytes.
pub struct KSink<const N: usize, const K: usize> {
    pub buf: [u8; N],
    pub len: usize,
    pub fail_at: u32,
    pub intr_at: u32,
    pub calls: u32,
    pub short_seen: bool,
    pub intr_seen: bool,
    pub fail_seen: bool,
    pub use_default_write_all: bool,
}

impl<const N: usize, const K: usize> KSink<N, K> {
    pub fn new(fail_at: u32, intr_at: u32) -> Self {
        KSink { buf: [0; N], len: 0, fail_at, intr_at, calls: 0, short_seen: false, intr_seen: false, fail_seen: false, use_default_write_all: false }
    }
    pub fn sym() -> Self {
        Self::new(kani::any(), kani::any())
    }
    fn hard_error() -> io::Error {
        io::Error::from(io::ErrorKind::Other)
    }
}

impl<const N: usize, const K: usize> io::Write for KSink<N, K> {
    fn write(&mut self, b: &[u8]) -> io::Result<usize> {
        if b.is_empty() {
            return Ok(0);
        }
        self.calls += 1;
        if self.fail_seen || self.calls == self.fail_at {
            self.fail_seen = true;
            return Err(Self::hard_error());
        }
        if self.calls == self.intr_at {
            self.intr_seen = true;
            return Err(io::Error::from(io::ErrorKind::Interrupted));
        }
        let n = if K == 0 || b.len() < K { b.len() } else { K };
        if n < b.len() {
            self.short_seen = true;
        }
        let mut i = 0;
        while i < n {
            assert!(self.len < N, "harness: KSink capacity");
            self.buf[self.len] = b[i];
            self.len += 1;
            i += 1;
        }
        Ok(n)
    }
    fn flush(&mut self) -> io::Result<()> {
        Ok(())
    }
    fn write_all(&mut self, b: &[u8]) -> io::Result<()> {
        if self.use_default_write_all {
            // std's default body, verbatim semantics
            let mut buf = b;
            while !buf.is_empty() {
                match self.write(buf) {
                    Ok(0) => return Err(io::Error::from(io::ErrorKind::WriteZero)),
                    Ok(n) => buf = &buf[n..],
                    Err(ref e) if e.kind() == io::ErrorKind::Interrupted => {}
                    Err(e) => return Err(e),
                }
            }
            return Ok(());
        }
        let mut off = 0;
        while off < b.len() {
            self.calls += 1;
            if self.fail_seen || self.calls == self.fail_at {
                self.fail_seen = true;
                return Err(Self::hard_error());
            }
            if self.calls == self.intr_at {
                // Interrupted: the call is retried with the same buffer
                self.intr_seen = true;
                self.calls += 1;
                if self.calls == self.fail_at {
                    self.fail_seen = true;
                    return Err(Self::hard_error());
                }
            }
            let rem = b.len() - off;
            let n = if K == 0 || rem < K { rem } else { K };
            if n < rem {
                self.short_seen = true;
            }
            let mut i = 0;
            while i < n {
                assert!(self.len < N, "harness: KSink capacity");
                self.buf[self.len] = b[off + i];
                self.len += 1;
                i += 1;
            }
            off += n;
        }
        Ok(())
    }
}

/// Scripted source over a fixed byte array: every `read` returns a solver-chosen
/// 1..=min(buf.len(), remaining) bytes, or `Interrupted` (bounded number of times).
/// Implements BufRead with a one-call window (fill_buf exposes a solver-chosen
/// non-empty prefix of what remains).
pub struct ScriptSource<'a> {
    pub data: &'a [u8],
    pub pos: usize,
    pub intr_left: u8,
    pub short_seen: bool,
}

impl<'a> ScriptSource<'a> {
    pub fn new(data: &'a [u8], intr: u8) -> Self {
        ScriptSource { data, pos: 0, intr_left: intr, short_seen: false }
    }
}

impl<'a> io::Read for ScriptSource<'a> {
    fn read(&mut self, out: &mut [u8]) -> io::Result<usize> {
        if out.is_empty() {
            return Ok(0);
        }
        let rem = self.data.len() - self.pos;
        if rem == 0 {
            return Ok(0);
        }
        if self.intr_left > 0 && kani::any::<bool>() {
            self.intr_left -= 1;
            return Err(io::Error::from(io::ErrorKind::Interrupted));
        }
        let max = if out.len() < rem { out.len() } else { rem };
        let k: usize = kani::any();
        kani::assume(k >= 1 && k <= max);
        if k < max {
            self.short_seen = true;
        }
        let mut i = 0;
        while i < k {
            out[i] = self.data[self.pos + i];
            i += 1;
        }
        self.pos += k;
        Ok(k)
    }
}

impl<'a> io::BufRead for ScriptSource<'a> {
    fn fill_buf(&mut self) -> io::Result<&[u8]> {
        let rem = self.data.len() - self.pos;
        if rem == 0 {
            return Ok(&[]);
        }
        let k: usize = kani::any();
        kani::assume(k >= 1 && k <= rem);
        Ok(&self.data[self.pos..self.pos + k])
    }
    fn consume(&mut self, amt: usize) {
        self.pos += amt;
    }
}

/// true iff a[..n] == b[..n], written as a plain loop so the unwind bound is explicit.
pub fn eq_prefix(a: &[u8], b: &[u8], n: usize) -> bool {
    let mut i = 0;
    while i < n {
        if a[i] != b[i] {
            return false;
        }
        i += 1;
    }
    true
}
