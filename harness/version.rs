// Kani harnesses mounted inside the private module (see /repo hooks, cfg(kani)).
#![allow(unused)]

#[cfg(test)]
include!("/verif/replays/_gen/version.rs");
