// C03 / C08: digest verification and the hashing writer. Mounted from root.rs as `mod digest`.
#![allow(unused, non_snake_case, clippy::all)]

use super::common::*;
use super::{lit_header, sym_index_data_empty};
use crate::*;
use digest::Digest;
use std::io::{self, Write};

// ---------------------------------------------------------------------------------------------
// S5: block-compression stubs. Each keeps the digest a function of *every* byte of *every* block,
// in order (so "wrong range hashed", "hashed twice", "block skipped" change the result), and is
// injective on single-block messages of up to 27 bytes (state words 0..6 absorb block words 0..6,
// word 7 absorbs the bit-length word).  They are NOT collision resistant - irrelevant here: the
// properties are about which bytes are hashed and what is compared with what.
// ---------------------------------------------------------------------------------------------

fn mix_words<const NS: usize>(state: &mut [u32; NS], block: &[u8; 64], big_endian: bool) {
    let mut w = [0u32; 16];
    let mut j = 0;
    while j < 16 {
        let b = [block[4 * j], block[4 * j + 1], block[4 * j + 2], block[4 * j + 3]];
        w[j] = if big_endian { u32::from_be_bytes(b) } else { u32::from_le_bytes(b) };
        j += 1;
    }
    // chain: rotate the previous state so that block order matters, then absorb
    let mut i = 0;
    while i < NS {
        state[i] = state[i].rotate_left(5) ^ 0x9e37_79b9;
        i += 1;
    }
    let mut j = 0;
    while j < 16 {
        // words 0..NS-2 -> own lane; remaining words folded into lanes with distinct rotations;
        // the last two words (message bit length in SHA-2/SHA-1/MD5 padding) go to the last lane
        let lane = if j >= 14 { NS - 1 } else if j < NS - 1 { j } else { j % (NS - 1) };
        state[lane] ^= w[j].rotate_left((j as u32 / (NS as u32 - 1)) * 7);
        j += 1;
    }
}

pub fn sha256_compress_stub(state: &mut [u32; 8], blocks: &[digest::generic_array::GenericArray<u8, digest::typenum::U64>]) {
    let mut k = 0;
    while k < blocks.len() {
        let b: &[u8; 64] = blocks[k].as_ref();
        mix_words::<8>(state, b, true);
        k += 1;
    }
}

pub fn sha1_compress_stub(state: &mut [u32; 5], blocks: &[digest::generic_array::GenericArray<u8, digest::typenum::U64>]) {
    let mut k = 0;
    while k < blocks.len() {
        let b: &[u8; 64] = blocks[k].as_ref();
        mix_words::<5>(state, b, true);
        k += 1;
    }
}

pub fn md5_compress_stub(state: &mut [u32; 4], blocks: &[[u8; 64]]) {
    let mut k = 0;
    while k < blocks.len() {
        mix_words::<4>(state, &blocks[k], false);
        k += 1;
    }
}

// ---------------------------------------------------------------------------------------------
// probes
// ---------------------------------------------------------------------------------------------

#[kani::proof]
#[kani::unwind(70)]
#[kani::stub(sha2::sha256::compress256, sha256_compress_stub)]
fn p_sha256_stub_concrete() {
    let d = sha2::Sha256::digest(b"abc");
    let e = sha2::Sha256::digest(b"abd");
    assert!(d.as_slice()[..] != e.as_slice()[..]);
}

#[kani::proof]
#[kani::unwind(70)]
#[kani::stub(sha2::sha256::compress256, sha256_compress_stub)]
fn p_sha256_stub_sym() {
    let a: [u8; 3] = kani::any();
    let b: [u8; 3] = kani::any();
    let d = sha2::Sha256::digest(&a);
    let e = sha2::Sha256::digest(&b);
    let same = d.as_slice()[..] == e.as_slice()[..];
    assert!(same == (a == b), "stub injective on 3-byte messages");
}
