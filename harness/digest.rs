// C03 / C08: digest verification and the hashing writer. Mounted from root.rs as `mod digest`.
#![allow(unused, non_snake_case, clippy::all)]

use super::common::*;
use super::{lit_header, sym_index_data_empty};
use crate::*;
use digest::Digest;
use std::io::{self, Write};

// ---------------------------------------------------------------------------------------------
// S5: block-compression stubs. Each keeps the digest a function of *every* byte of *every* block,
// in order (so "wrong range hashed", "hashed twice", "block skipped" change the result), and is
// injective on single-block messages of up to 27 bytes (state words 0..6 absorb block words 0..6,
// word 7 absorbs the bit-length word).  They are NOT collision resistant - irrelevant here: the
// properties are about which bytes are hashed and what is compared with what.
// ---------------------------------------------------------------------------------------------

fn mix_words<const NS: usize>(state: &mut [u32; NS], block: &[u8; 64], big_endian: bool) {
    let mut w = [0u32; 16];
    let mut j = 0;
    while j < 16 {
        let b = [block[4 * j], block[4 * j + 1], block[4 * j + 2], block[4 * j + 3]];
        w[j] = if big_endian { u32::from_be_bytes(b) } else { u32::from_le_bytes(b) };
        j += 1;
    }
    // chain: rotate the previous state so that block order matters, then absorb
    let mut i = 0;
    while i < NS {
        state[i] = state[i].rotate_left(5) ^ 0x9e37_79b9;
        i += 1;
    }
    let mut j = 0;
    while j < 16 {
        // words 0..NS-2 -> own lane; remaining words folded into lanes with distinct rotations;
        // the last two words (message bit length in SHA-2/SHA-1/MD5 padding) go to the last lane
        let lane = if j >= 14 { NS - 1 } else if j < NS - 1 { j } else { j % (NS - 1) };
        state[lane] ^= w[j].rotate_left((j as u32 / (NS as u32 - 1)) * 7);
        j += 1;
    }
}

pub fn sha256_compress_stub(state: &mut [u32; 8], blocks: &[digest::generic_array::GenericArray<u8, digest::typenum::U64>]) {
    let mut k = 0;
    while k < blocks.len() {
        let b: &[u8; 64] = blocks[k].as_ref();
        mix_words::<8>(state, b, true);
        k += 1;
    }
}

pub fn sha1_compress_stub(state: &mut [u32; 5], blocks: &[digest::generic_array::GenericArray<u8, digest::typenum::U64>]) {
    let mut k = 0;
    while k < blocks.len() {
        let b: &[u8; 64] = blocks[k].as_ref();
        mix_words::<5>(state, b, true);
        k += 1;
    }
}

pub fn md5_compress_stub(state: &mut [u32; 4], blocks: &[[u8; 64]]) {
    let mut k = 0;
    while k < blocks.len() {
        mix_words::<4>(state, &blocks[k], false);
        k += 1;
    }
}

// ---------------------------------------------------------------------------------------------
// C03 — digest verification succeeds exactly when all recorded digests match
// ---------------------------------------------------------------------------------------------

fn ascii_string<const N: usize>() -> (String, [u8; N]) {
    let b: [u8; N] = kani::any();
    let mut v = Vec::with_capacity(N);
    let mut i = 0;
    while i < N {
        kani::assume(b[i] >= 0x20 && b[i] < 0x7f);
        v.push(b[i]);
        i += 1;
    }
    (unsafe { String::from_utf8_unchecked(v) }, b)
}

fn hex_eq(digest: &[u8], text: &[u8]) -> bool {
    // text == lower-case hex of digest, without going through the hex crate (independent oracle)
    if text.len() != 2 * digest.len() {
        return false;
    }
    const HEX: &[u8; 16] = b"0123456789abcdef";
    let mut i = 0;
    while i < digest.len() {
        if text[2 * i] != HEX[(digest[i] >> 4) as usize] || text[2 * i + 1] != HEX[(digest[i] & 15) as usize] {
            return false;
        }
        i += 1;
    }
    true
}

/// MASK: 1 = MD5 (header+payload), 2 = SHA1 (header), 4 = SHA256 (header), 8 = payload digest + algorithm.
/// Recorded values are symbolic; header and payload bytes are what `write` produces for this package.
fn c03_digests<const MASK: u8>() {
    let md5_rec: [u8; 16] = kani::any();
    let (sha1_rec, sha1_b) = ascii_string::<40>();
    let (sha256_rec, sha256_b) = ascii_string::<64>();
    let (pd_rec, pd_b) = ascii_string::<64>();
    let algo: u32 = kani::any();

    // signature header (entries only; verify_digests reads the decoded data of the entries)
    let mut sig_entries = Vec::new();
    if MASK & 1 != 0 {
        sig_entries.push(IndexEntry::new(IndexSignatureTag::RPMSIGTAG_MD5, 0, IndexData::Bin(md5_rec.to_vec())));
    }
    if MASK & 2 != 0 {
        sig_entries.push(IndexEntry::new(IndexSignatureTag::RPMSIGTAG_SHA1, 0, IndexData::StringTag(sha1_rec)));
    }
    if MASK & 4 != 0 {
        sig_entries.push(IndexEntry::new(IndexSignatureTag::RPMSIGTAG_SHA256, 0, IndexData::StringTag(sha256_rec)));
    }
    let nsig = sig_entries.len() as u32;
    let sig = Header { index_header: IndexHeader::new(nsig, 0), index_entries: sig_entries, store: Vec::new() };

    // main header: payload digest (string array, 1 item) at offset 0, algorithm (int32) at offset 68; store consistent
    let mut entries = Vec::new();
    let mut store = Vec::new();
    if MASK & 8 != 0 {
        entries.push(IndexEntry::new(IndexTag::RPMTAG_PAYLOADDIGEST, 0, IndexData::StringArray(vec![pd_rec])));
        entries.push(IndexEntry::new(IndexTag::RPMTAG_PAYLOADDIGESTALGO, 68, IndexData::Int32(vec![algo])));
        let mut i = 0;
        while i < 64 {
            store.push(pd_b[i]);
            i += 1;
        }
        store.extend_from_slice(&[0, 0, 0, 0]);
        store.extend_from_slice(&algo.to_be_bytes());
    } else {
        entries.push(IndexEntry::new(IndexTag::RPMTAG_NAME, 0, IndexData::StringTag(String::from("x"))));
        store.extend_from_slice(&[b'x', 0]);
    }
    let n = entries.len() as u32;
    let sl = store.len() as u32;
    let hdr = Header { index_header: IndexHeader::new(n, sl), index_entries: entries, store };
    let content = vec![0xde_u8, 0xad, 0x42];
    let pkg = Package { metadata: PackageMetadata { lead: Lead::new("x"), signature: sig, header: hdr }, content };

    // oracle: recompute over the byte ranges the property names
    let mut hb = Vec::new();
    let w = pkg.metadata.header.write(&mut hb);
    assert!(w.is_ok());
    let md5_ok = MASK & 1 == 0 || {
        let mut h = md5::Md5::new();
        h.update(&hb);
        h.update(&pkg.content);
        let d = h.finalize();
        let mut same = true;
        let mut i = 0;
        while i < 16 {
            same &= d[i] == md5_rec[i];
            i += 1;
        }
        same
    };
    let sha1_ok = MASK & 2 == 0 || hex_eq(sha1::Sha1::digest(&hb).as_slice(), &sha1_b);
    let sha256_ok = MASK & 4 == 0 || hex_eq(sha2::Sha256::digest(&hb).as_slice(), &sha256_b);
    let pd_ok = MASK & 8 == 0 || hex_eq(sha2::Sha256::digest(&pkg.content).as_slice(), &pd_b);

    let r = pkg.verify_digests();

    let sig_ok = md5_ok && sha1_ok && sha256_ok;
    if !sig_ok {
        assert!(matches!(r, Err(Error::DigestMismatchError)), "a wrong header digest must give DigestMismatchError");
    } else if MASK & 8 == 0 {
        assert!(r.is_ok(), "all recorded digests match: success");
    } else if algo != 8 {
        assert!(r.is_err(), "unsupported payload digest algorithm must be an error");
    } else if pd_ok {
        assert!(r.is_ok(), "all recorded digests match: success");
    } else {
        assert!(matches!(r, Err(Error::DigestMismatchError)), "a wrong payload digest must give DigestMismatchError");
    }
    kani::cover!(r.is_ok(), "verification succeeds");
    kani::cover!(r.is_err(), "verification fails");
    std::mem::forget(r);
    std::mem::forget(w);
    std::mem::forget(pkg);
}

macro_rules! c03h {
    ($name:ident, $mask:expr) => {
        #[kani::proof]
        #[kani::unwind(130)]
        #[kani::stub(alloc::fmt::format, fmt_stub)]
        #[kani::stub(sha2::sha256::compress256, sha256_compress_stub)]
        #[kani::stub(sha1::compress::compress, sha1_compress_stub)]
        #[kani::stub(md5::compress::compress, md5_compress_stub)]
        fn $name() {
            c03_digests::<$mask>()
        }
    };
}
c03h!(c03_digests_m00, 0);
c03h!(c03_digests_m01, 1);
c03h!(c03_digests_m02, 2);
c03h!(c03_digests_m03, 3);
c03h!(c03_digests_m04, 4);
c03h!(c03_digests_m05, 5);
c03h!(c03_digests_m06, 6);
c03h!(c03_digests_m07, 7);
c03h!(c03_digests_m08, 8);
c03h!(c03_digests_m09, 9);
c03h!(c03_digests_m10, 10);
c03h!(c03_digests_m11, 11);
c03h!(c03_digests_m12, 12);
c03h!(c03_digests_m13, 13);
c03h!(c03_digests_m14, 14);
c03h!(c03_digests_m15, 15);

#[kani::proof]
#[kani::unwind(130)]
#[kani::stub(alloc::fmt::format, fmt_stub)]
#[kani::stub(sha2::sha256::compress256, sha256_compress_stub)]
fn c03_twin() {
    let (sha256_rec, _b) = ascii_string::<64>();
    let sig = Header {
        index_header: IndexHeader::new(1, 0),
        index_entries: vec![IndexEntry::new(IndexSignatureTag::RPMSIGTAG_SHA256, 0, IndexData::StringTag(sha256_rec))],
        store: Vec::new(),
    };
    let hdr: Header<IndexTag> = Header { index_header: IndexHeader::new(0, 0), index_entries: Vec::new(), store: Vec::new() };
    let pkg = Package { metadata: PackageMetadata { lead: Lead::new("x"), signature: sig, header: hdr }, content: Vec::new() };
    let r = pkg.verify_digests();
    let ok = r.is_ok();
    std::mem::forget(r);
    std::mem::forget(pkg);
    assert!(!ok, "twin: must be reported FAILED");
}

/// C04: payload digest present with ZERO items / unknown algorithm id: error, never a panic.
fn c04_payload_digest<const ITEMS: usize>() {
    let algo: u32 = kani::any();
    let mut entries = Vec::new();
    let items: Vec<String> = if ITEMS == 0 { Vec::new() } else { vec![String::from("00")] };
    entries.push(IndexEntry::new(IndexTag::RPMTAG_PAYLOADDIGEST, 0, IndexData::StringArray(items)));
    entries.push(IndexEntry::new(IndexTag::RPMTAG_PAYLOADDIGESTALGO, 4, IndexData::Int32(vec![algo])));
    let hdr = Header { index_header: IndexHeader::new(2, 0), index_entries: entries, store: Vec::new() };
    let sig: Header<IndexSignatureTag> = Header { index_header: IndexHeader::new(0, 0), index_entries: Vec::new(), store: Vec::new() };
    let pkg = Package { metadata: PackageMetadata { lead: Lead::new("x"), signature: sig, header: hdr }, content: vec![1u8, 2, 3] };
    let r = pkg.verify_digests();
    assert!(r.is_err(), "a payload digest that cannot match must not verify");
    kani::cover!(algo == 8, "sha256 algorithm id");
    kani::cover!(algo == 7, "unassigned algorithm id");
    std::mem::forget(r);
    std::mem::forget(pkg);
}
#[kani::proof]
#[kani::unwind(130)]
#[kani::stub(alloc::fmt::format, fmt_stub)]
#[kani::stub(sha2::sha256::compress256, sha256_compress_stub)]
fn c04_payload_digest_0() {
    c04_payload_digest::<0>()
}
#[kani::proof]
#[kani::unwind(130)]
#[kani::stub(alloc::fmt::format, fmt_stub)]
#[kani::stub(sha2::sha256::compress256, sha256_compress_stub)]
fn c04_payload_digest_1() {
    c04_payload_digest::<1>()
}

// ---------------------------------------------------------------------------------------------
// C08 — the hashing writer: digest == SHA-256 of the bytes the inner sink actually received
// ---------------------------------------------------------------------------------------------

fn c08_writer<const L: usize, const K: usize>() {
    let data: [u8; L] = kani::any();
    let mut sink = KSink::<L, K>::new(0, 0); // short writes only: no failure, no Interrupted
    sink.use_default_write_all = true;       // irrelevant here (Sha256Writer calls `write`), kept explicit
    let digest = {
        let mut w = Sha256Writer::new(&mut sink);
        let r = w.write_all(&data); // std's write_all over Sha256Writer::write
        assert!(r.is_ok());
        std::mem::forget(r);
        let d = w.into_digest();
        let mut out = [0u8; 32];
        out.copy_from_slice(d.as_ref());
        out
    };
    assert!(sink.len == L, "write_all delivered every byte to the inner sink");
    assert!(eq_prefix(&sink.buf, &data, L), "inner sink received the data unchanged");
    let expect = sha2::Sha256::digest(&sink.buf[..sink.len]);
    let got: &[u8] = digest.as_ref();
    assert!(got.len() == 32);
    let mut same = true;
    let mut i = 0;
    while i < 32 {
        same &= got[i] == expect[i];
        i += 1;
    }
    assert!(same, "recorded digest equals SHA-256 of the bytes written through");
    kani::cover!(sink.short_seen || K == 0 || L <= K, "short writes happened");
}

macro_rules! c08h {
    ($name:ident, $l:expr, $k:expr) => {
        #[kani::proof]
        #[kani::unwind(70)]
        #[kani::stub(sha2::sha256::compress256, sha256_compress_stub)]
        fn $name() {
            c08_writer::<$l, $k>()
        }
    };
}
c08h!(c08_writer_l1_k1, 1, 1);
c08h!(c08_writer_l2_k1, 2, 1);
c08h!(c08_writer_l3_k1, 3, 1);
c08h!(c08_writer_l3_k2, 3, 2);
c08h!(c08_writer_l4_k3, 4, 3);
c08h!(c08_writer_l4_k0, 4, 0);

#[kani::proof]
#[kani::unwind(70)]
#[kani::stub(sha2::sha256::compress256, sha256_compress_stub)]
fn c08_twin() {
    let data: [u8; 2] = kani::any();
    let mut sink = KSink::<2, 0>::new(0, 0);
    let digest = {
        let mut w = Sha256Writer::new(&mut sink);
        let r = w.write_all(&data);
        std::mem::forget(r);
        let d = w.into_digest();
        let mut out = [0u8; 32];
        out.copy_from_slice(d.as_ref());
        out
    };
    let got: &[u8] = digest.as_ref();
    assert!(got[0] != got[0], "twin: must be reported FAILED");
}

#[cfg(test)]
include!("/verif/replays/_gen/digest.rs");
