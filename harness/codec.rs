// C01 / C04 Level U: segment codecs over all input bytes (lead, intro, index entry, padding).
// Mounted from root.rs as `mod codec`.
#![allow(unused, non_snake_case, clippy::all)]

use super::common::*;
use crate::*;
use std::io::{self, Write};

// ---------------------------------------------------------------------------------------------
// C01 Level U
// ---------------------------------------------------------------------------------------------

/// All 96 lead bytes symbolic. Accepted <=> magic; written form == input; re-parse equal.
#[kani::proof]
#[kani::unwind(100)]
#[kani::stub(alloc::fmt::format, fmt_stub)]
fn c01_lead() {
    let b: [u8; 96] = kani::any();
    let r = Lead::parse(&b[..]);
    let magic_ok = b[0] == 0xed && b[1] == 0xab && b[2] == 0xee && b[3] == 0xdb;
    assert!(r.is_ok() == magic_ok, "lead accepted exactly when the magic matches");
    if let Ok(l) = &r {
        let mut out = ArrSink::<96>::new();
        let w = l.write(&mut out);
        assert!(w.is_ok());
        assert!(out.len == 96, "lead writes 96 bytes");
        assert!(eq_prefix(&out.buf, &b, 96), "lead write reproduces the input bytes");
        let l2 = Lead::parse(&out.buf[..]);
        assert!(l2.is_ok());
        assert!(l2.as_ref().unwrap() == l, "re-parse of written lead is equal");
        let mut out2 = ArrSink::<96>::new();
        let w2 = l2.as_ref().unwrap().write(&mut out2);
        assert!(out2.len == 96 && eq_prefix(&out2.buf, &out.buf, 96), "lead fixpoint");
        kani::cover!(true, "lead accepted");
        std::mem::forget(w);
        std::mem::forget(w2);
        std::mem::forget(l2);
    }
    std::mem::forget(r);
}

/// All 16 intro bytes symbolic. Accepted => written form == input except reserved bytes 4..8 == 0.
/// Acceptance itself: exactly the three magic bytes 8e ad e8 and version 01.
#[kani::proof]
#[kani::unwind(20)]
#[kani::stub(alloc::fmt::format, fmt_stub)]
fn c01_intro() {
    let b: [u8; 16] = kani::any();
    let r = IndexHeader::parse(&b[..]);
    if let Ok(h) = &r {
        let mut out = ArrSink::<16>::new();
        let w = h.write(&mut out);
        assert!(w.is_ok() && out.len == 16, "intro writes 16 bytes");
        let mut i = 0;
        while i < 16 {
            if i >= 4 && i < 8 {
                assert!(out.buf[i] == 0, "reserved bytes are written as zero");
            } else {
                assert!(out.buf[i] == b[i], "intro write reproduces the input outside the reserved bytes");
            }
            i += 1;
        }
        let h2 = IndexHeader::parse(&out.buf[..]);
        assert!(h2.is_ok() && h2.as_ref().unwrap() == h, "re-parse of written intro is equal");
        assert!(h.num_entries == u32::from_be_bytes([b[8], b[9], b[10], b[11]]));
        assert!(h.data_section_size == u32::from_be_bytes([b[12], b[13], b[14], b[15]]));
        kani::cover!(true, "intro accepted");
        std::mem::forget(w);
        std::mem::forget(h2);
    } else {
        // a well-formed intro is never rejected
        assert!(!(b[0] == 0x8e && b[1] == 0xad && b[2] == 0xe8 && b[3] == 0x01), "well-formed intro rejected");
        kani::cover!(true, "intro rejected");
    }
    std::mem::forget(r);
}

/// All 16 index-entry bytes symbolic (+ 3 trailing bytes that must be left untouched).
#[kani::proof]
#[kani::unwind(20)]
#[kani::stub(alloc::fmt::format, fmt_stub)]
fn c01_index_entry() {
    let b: [u8; 19] = kani::any();
    let r = IndexEntry::<IndexTag>::parse(&b[..]);
    let ty = u32::from_be_bytes([b[4], b[5], b[6], b[7]]);
    assert!(r.is_ok() == (ty <= 9), "entry accepted exactly for type ids 0..=9");
    if let Ok((rest, e)) = &r {
        assert!(rest.len() == 3 && rest[0] == b[16] && rest[2] == b[18], "exactly 16 bytes consumed");
        assert!(e.tag == u32::from_be_bytes([b[0], b[1], b[2], b[3]]));
        assert!(e.data.type_as_u32() == ty);
        assert!(e.offset == i32::from_be_bytes([b[8], b[9], b[10], b[11]]));
        assert!(e.num_items == u32::from_be_bytes([b[12], b[13], b[14], b[15]]));
        let mut out = ArrSink::<16>::new();
        let w = e.write_index(&mut out);
        assert!(w.is_ok() && out.len == 16, "entry writes 16 bytes");
        assert!(eq_prefix(&out.buf, &b, 16), "entry write reproduces the input bytes");
        kani::cover!(ty == 9, "i18n entry accepted");
        kani::cover!(e.offset < 0, "negative offset kept verbatim");
        std::mem::forget(w);
    } else {
        kani::cover!(ty == 10, "type 10 rejected");
    }
    std::mem::forget(r);
}

/// Same for the signature-tag instantiation (generic function, second concrete instance).
#[kani::proof]
#[kani::unwind(20)]
#[kani::stub(alloc::fmt::format, fmt_stub)]
fn c01_index_entry_sig() {
    let b: [u8; 16] = kani::any();
    let r = IndexEntry::<IndexSignatureTag>::parse(&b[..]);
    let ty = u32::from_be_bytes([b[4], b[5], b[6], b[7]]);
    assert!(r.is_ok() == (ty <= 9));
    if let Ok((rest, e)) = &r {
        assert!(rest.is_empty());
        let mut out = ArrSink::<16>::new();
        let w = e.write_index(&mut out);
        assert!(w.is_ok() && out.len == 16 && eq_prefix(&out.buf, &b, 16), "entry write reproduces the input bytes");
        kani::cover!(true, "entry accepted");
        std::mem::forget(w);
    }
    std::mem::forget(r);
}

/// type id <-> variant mapping is a bijection on 0..=9 and empty elsewhere
#[kani::proof]
#[kani::unwind(4)]
fn c01_type_ids() {
    let t: u32 = kani::any();
    match IndexData::from_type_as_u32(t) {
        Some(d) => {
            assert!(t <= 9);
            assert!(d.type_as_u32() == t, "type id round trip");
            assert!(d.num_items() == if t == 6 { 1 } else { 0 });
            kani::cover!(t == 7, "bin");
            std::mem::forget(d);
        }
        None => assert!(t > 9),
    }
}

/// Signature padding: symbolic store size.
#[kani::proof]
#[kani::unwind(4)]
fn c01_sigpad_arith() {
    let d: u32 = kani::any();
    let h: Header<IndexSignatureTag> =
        Header { index_header: IndexHeader::new(kani::any(), d), index_entries: Vec::new(), store: Vec::new() };
    let p = h.padding_required();
    assert!(p < 8, "padding below 8");
    assert!((d as u64 + p as u64) % 8 == 0, "store plus padding is a multiple of 8");
    kani::cover!(p == 7, "padding 7");
    kani::cover!(p == 0, "padding 0");
    std::mem::forget(h);
}

/// write_signature on a literal header with S store bytes: total length, zero padding, store verbatim.
fn c01_sigpad_write<const S: usize, const TOTAL: usize>() {
    let store: [u8; S] = kani::any();
    let mut st = Vec::with_capacity(S);
    let mut i = 0;
    while i < S {
        st.push(store[i]);
        i += 1;
    }
    let h: Header<IndexSignatureTag> =
        Header { index_header: IndexHeader::new(0, S as u32), index_entries: Vec::new(), store: st };
    let mut out = ArrSink::<TOTAL>::new();
    let w = h.write_signature(&mut out);
    assert!(w.is_ok());
    assert!(out.len == TOTAL, "intro + store + padding");
    assert!(out.len % 8 == 0, "signature header padded to 8");
    let mut i = 0;
    while i < S {
        assert!(out.buf[16 + i] == store[i], "store verbatim");
        i += 1;
    }
    let mut i = 16 + S;
    while i < TOTAL {
        assert!(out.buf[i] == 0, "padding is zero");
        i += 1;
    }
    std::mem::forget(w);
    std::mem::forget(h);
}

macro_rules! sigpad_w {
    ($name:ident, $s:expr) => {
        #[kani::proof]
        #[kani::unwind(40)]
        fn $name() {
            c01_sigpad_write::<$s, { 16 + $s + ((8 - ($s % 8)) % 8) }>()
        }
    };
}
sigpad_w!(c01_sigpad_write_0, 0);
sigpad_w!(c01_sigpad_write_1, 1);
sigpad_w!(c01_sigpad_write_2, 2);
sigpad_w!(c01_sigpad_write_3, 3);
sigpad_w!(c01_sigpad_write_4, 4);
sigpad_w!(c01_sigpad_write_5, 5);
sigpad_w!(c01_sigpad_write_6, 6);
sigpad_w!(c01_sigpad_write_7, 7);
sigpad_w!(c01_sigpad_write_8, 8);
sigpad_w!(c01_sigpad_write_9, 9);

#[kani::proof]
#[kani::unwind(20)]
#[kani::stub(alloc::fmt::format, fmt_stub)]
fn c01_twin() {
    let b: [u8; 16] = kani::any();
    let r = IndexHeader::parse(&b[..]);
    let ok = r.is_ok();
    std::mem::forget(r);
    assert!(!ok, "twin: must be reported FAILED");
}

// ---------------------------------------------------------------------------------------------
// C04 Level U: no panic / overflow / out-of-bounds for any bytes
// ---------------------------------------------------------------------------------------------

#[kani::proof]
#[kani::unwind(100)]
#[kani::stub(alloc::fmt::format, fmt_stub)]
fn c04_lead() {
    let b: [u8; 96] = kani::any();
    let r = Lead::parse(&b[..]);
    kani::cover!(r.is_ok(), "lead accepted");
    kani::cover!(r.is_err(), "lead rejected");
    std::mem::forget(r);
}

/// shorter and longer slices than 96 bytes must not panic either (parse is pub(crate) and is only
/// called with 96 bytes by PackageMetadata::parse; this covers the function's own robustness)
#[kani::proof]
#[kani::unwind(100)]
#[kani::stub(alloc::fmt::format, fmt_stub)]
fn c04_lead_len() {
    let b: [u8; 96] = kani::any();
    let n: usize = kani::any();
    kani::assume(n <= 96);
    let r = Lead::parse(&b[..n]);
    kani::cover!(r.is_err() && n == 95, "short lead rejected");
    std::mem::forget(r);
}

#[kani::proof]
#[kani::unwind(20)]
#[kani::stub(alloc::fmt::format, fmt_stub)]
fn c04_intro() {
    let b: [u8; 16] = kani::any();
    let n: usize = kani::any();
    kani::assume(n <= 16);
    let r = IndexHeader::parse(&b[..n]);
    kani::cover!(r.is_ok(), "intro accepted");
    kani::cover!(r.is_err() && n == 15, "short intro rejected");
    std::mem::forget(r);
}

#[kani::proof]
#[kani::unwind(20)]
#[kani::stub(alloc::fmt::format, fmt_stub)]
fn c04_index_entry() {
    let b: [u8; 16] = kani::any();
    let n: usize = kani::any();
    kani::assume(n <= 16);
    let r = IndexEntry::<IndexTag>::parse(&b[..n]);
    kani::cover!(r.is_ok(), "entry accepted");
    kani::cover!(r.is_err() && n == 16, "full-length entry rejected (bad type)");
    kani::cover!(r.is_err() && n < 16, "short entry rejected");
    std::mem::forget(r);
}

// echo_signature (logging helper) is decided by the MIR engine (c04_echo_*): Kani does not support the log crate's enabled path.

/// Every IndexData accessor on every variant with 0..2 items: Some/None, never a panic.
fn sym_index_data(items: usize) -> IndexData {
    let t: u32 = kani::any();
    kani::assume(t <= 9);
    let mut d = IndexData::from_type_as_u32(t).unwrap();
    let mut i = 0;
    while i < items {
        match &mut d {
            IndexData::Null => {}
            IndexData::Char(v) | IndexData::Int8(v) | IndexData::Bin(v) => v.push(kani::any()),
            IndexData::Int16(v) => v.push(kani::any()),
            IndexData::Int32(v) => v.push(kani::any()),
            IndexData::Int64(v) => v.push(kani::any()),
            IndexData::StringTag(s) => s.push('a'),
            IndexData::StringArray(v) | IndexData::I18NString(v) => v.push(String::new()),
        }
        i += 1;
    }
    d
}

fn c04_accessors<const ITEMS: usize>() {
    let d = sym_index_data(ITEMS);
    let t = d.type_as_u32();
    let a = d.as_str();
    assert!(a.is_some() == (t == 6));
    let b = d.as_u32();
    assert!(b.is_some() == (t == 4 && ITEMS > 0));
    let c = d.as_u64();
    assert!(c.is_some() == (t == 5 && ITEMS > 0));
    let e = d.as_binary();
    assert!(e.is_some() == (t == 7));
    let f = d.as_string_array();
    assert!(f.is_some() == (t == 8 || t == 9));
    let g = d.as_i18n_str();
    assert!(g.is_some() == (t == 9 && ITEMS > 0), "i18n accessor: first item or nothing");
    let h = d.as_u16_array();
    assert!(h.is_some() == (t == 3));
    let i = d.as_u32_array();
    assert!(i.is_some() == (t == 4));
    let j = d.as_u64_array();
    assert!(j.is_some() == (t == 5));
    assert!(d.num_items() as usize == if t == 6 { 1 } else if t == 0 { 0 } else { ITEMS });
    kani::cover!(t == 9, "i18n variant");
    std::mem::forget(h);
    std::mem::forget(i);
    std::mem::forget(j);
    std::mem::forget(d);
}
#[kani::proof]
#[kani::unwind(6)]
#[kani::stub(alloc::fmt::format, fmt_stub)]
fn c04_accessors_0() {
    c04_accessors::<0>()
}
#[kani::proof]
#[kani::unwind(6)]
#[kani::stub(alloc::fmt::format, fmt_stub)]
fn c04_accessors_1() {
    c04_accessors::<1>()
}
#[kani::proof]
#[kani::unwind(20)]
#[kani::stub(alloc::fmt::format, fmt_stub)]
fn c04_twin() {
    let b: [u8; 16] = kani::any();
    let r = IndexEntry::<IndexTag>::parse(&b[..]);
    let ok = r.is_ok();
    std::mem::forget(r);
    assert!(!ok, "twin: must be reported FAILED");
}

#[cfg(test)]
include!("/verif/replays/_gen/codec.rs");
