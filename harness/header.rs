// Kani harnesses mounted inside rpm::headers::header (child module: sees private parse_header,
// parse_entry_data_number, parse_binary_entry).  Level H of C01/C04/C05 and the decoder units.
#![allow(unused, non_snake_case, clippy::all)]

use super::*;
use crate::verif_kani::common::*;
use std::borrow::Cow;

/// S8: String::from_utf8_lossy on ASCII is the identity; the stub asserts ASCII so a non-ASCII byte
/// reaching it fails the harness instead of being mis-modelled.
pub fn from_utf8_lossy_ascii(v: &[u8]) -> Cow<'_, str> {
    let mut i = 0;
    while i < v.len() {
        assert!(v[i] < 0x80, "S8: non-ASCII byte reached the from_utf8_lossy stub");
        i += 1;
    }
    Cow::Borrowed(unsafe { std::str::from_utf8_unchecked(v) })
}

/// S3: allocation budget. `reserve_exact` is what the numeric decoders call with the untrusted
/// count; the stub keeps the behaviour and asserts proportionality to the input.
pub const ALLOC_BUDGET_ITEMS: usize = 4096;
pub fn reserve_exact_budget<T, A: std::alloc::Allocator>(v: &mut Vec<T, A>, additional: usize) {
    assert!(additional <= ALLOC_BUDGET_ITEMS, "S3: reservation out of proportion to the input");
    v.reserve(additional);
}

// ---------------------------------------------------------------------------------------------
// decoder units (Level U): private per-type decoders on S symbolic bytes and a symbolic count
// ---------------------------------------------------------------------------------------------

fn unit_number<const W: usize, const S: usize>() {
    let bytes: [u8; S] = kani::any();
    let count: u32 = kani::any();
    match W {
        2 => {
            let mut items: Vec<u16> = Vec::new();
            let r = parse_entry_data_number::<u16, (&[u8], nom::error::ErrorKind), _>(&bytes[..], count, &mut items, be_u16);
            let fits = (count as usize) * 2 <= S;
            assert!(r.is_ok() == fits, "16-bit array accepted exactly when count items fit");
            if r.is_ok() {
                assert!(items.len() == count as usize);
                let mut i = 0;
                while i < items.len() {
                    assert!(items[i] == u16::from_be_bytes([bytes[2 * i], bytes[2 * i + 1]]), "big-endian item");
                    i += 1;
                }
                kani::cover!(count as usize * 2 == S && S > 0, "store used completely");
            }
            std::mem::forget(r);
            std::mem::forget(items);
        }
        4 => {
            let mut items: Vec<u32> = Vec::new();
            let r = parse_entry_data_number::<u32, (&[u8], nom::error::ErrorKind), _>(&bytes[..], count, &mut items, be_u32);
            let fits = (count as usize) * 4 <= S;
            assert!(r.is_ok() == fits, "32-bit array accepted exactly when count items fit");
            if r.is_ok() {
                assert!(items.len() == count as usize);
                let mut i = 0;
                while i < items.len() {
                    assert!(items[i] == u32::from_be_bytes([bytes[4 * i], bytes[4 * i + 1], bytes[4 * i + 2], bytes[4 * i + 3]]), "big-endian item");
                    i += 1;
                }
                kani::cover!(count as usize * 4 == S && S > 0, "store used completely");
            }
            std::mem::forget(r);
            std::mem::forget(items);
        }
        _ => {
            let mut items: Vec<u64> = Vec::new();
            let r = parse_entry_data_number::<u64, (&[u8], nom::error::ErrorKind), _>(&bytes[..], count, &mut items, be_u64);
            let fits = (count as usize) * 8 <= S;
            assert!(r.is_ok() == fits, "64-bit array accepted exactly when count items fit");
            if r.is_ok() {
                assert!(items.len() == count as usize);
                let mut i = 0;
                while i < items.len() {
                    let mut b = [0u8; 8];
                    b.copy_from_slice(&bytes[8 * i..8 * i + 8]);
                    assert!(items[i] == u64::from_be_bytes(b), "big-endian item");
                    i += 1;
                }
                kani::cover!(count as usize * 8 == S && S > 0, "store used completely");
            }
            std::mem::forget(r);
            std::mem::forget(items);
        }
    }
}

macro_rules! unit_num {
    ($name:ident, $w:expr, $s:expr, $unw:expr) => {
        #[kani::proof]
        #[kani::unwind($unw)]
        #[kani::stub(alloc::fmt::format, fmt_stub)]
        fn $name() {
            unit_number::<$w, $s>()
        }
    };
}
// same shapes, with the allocation budget stub (C04: reservation proportional to the input)
macro_rules! unit_num_budget {
    ($name:ident, $w:expr, $s:expr, $unw:expr) => {
        #[kani::proof]
        #[kani::unwind($unw)]
        #[kani::stub(alloc::fmt::format, fmt_stub)]
        #[kani::stub(alloc::vec::Vec::reserve_exact, reserve_exact_budget)]
        fn $name() {
            unit_number::<$w, $s>()
        }
    };
}
unit_num!(c05_unit_u16_s0, 2, 0, 4);
unit_num!(c05_unit_u16_s5, 2, 5, 6);
unit_num!(c05_unit_u32_s4, 4, 4, 4);
unit_num!(c05_unit_u32_s9, 4, 9, 6);
unit_num!(c05_unit_u64_s8, 8, 8, 10);
unit_num!(c05_unit_u64_s17, 8, 17, 10);
unit_num_budget!(c04_unit_u16_budget, 2, 5, 6);
unit_num_budget!(c04_unit_u32_budget, 4, 9, 6);
unit_num_budget!(c04_unit_u64_budget, 8, 8, 10);

fn unit_binary<const S: usize>() {
    let bytes: [u8; S] = kani::any();
    let count: u32 = kani::any();
    let mut items: Vec<u8> = Vec::new();
    let r = parse_binary_entry(&bytes[..], count, &mut items, "Bin");
    assert!(r.is_ok() == (count as usize <= S), "binary entry accepted exactly when count bytes are there");
    if r.is_ok() {
        assert!(items.len() == count as usize);
        let mut i = 0;
        while i < items.len() {
            assert!(items[i] == bytes[i], "bytes verbatim");
            i += 1;
        }
        kani::cover!(count as usize == S && S > 0, "store used completely");
    }
    std::mem::forget(r);
    std::mem::forget(items);
}
#[kani::proof]
#[kani::unwind(10)]
#[kani::stub(alloc::fmt::format, fmt_stub)]
fn c05_unit_bin_s0() {
    unit_binary::<0>()
}
#[kani::proof]
#[kani::unwind(10)]
#[kani::stub(alloc::fmt::format, fmt_stub)]
fn c05_unit_bin_s6() {
    unit_binary::<6>()
}

// ---------------------------------------------------------------------------------------------
// Level H: whole one-entry headers through the real parse_header
// ---------------------------------------------------------------------------------------------

/// [entry(16) | store(S)] with concrete type TY; tag, offset, count, store symbolic.
/// ASCII: store bytes restricted to 0..0x7f (A2) for the string types.
fn one_entry_bytes<const TY: u32, const S: usize, const N: usize>(ascii: bool) -> ([u8; N], u32, i32, u32) {
    let mut b = [0u8; N];
    let tag: u32 = kani::any();
    let off: i32 = kani::any();
    let cnt: u32 = kani::any();
    b[0..4].copy_from_slice(&tag.to_be_bytes());
    b[4..8].copy_from_slice(&TY.to_be_bytes());
    b[8..12].copy_from_slice(&off.to_be_bytes());
    b[12..16].copy_from_slice(&cnt.to_be_bytes());
    let mut i = 0;
    while i < S {
        let x: u8 = kani::any();
        if ascii {
            kani::assume(x < 0x80);
        }
        b[16 + i] = x;
        i += 1;
    }
    (b, tag, off, cnt)
}

/// C04 Level H: no panic for ANY offset / count (no functional assertion).
fn c04_entry<const TY: u32, const S: usize, const N: usize>(ascii: bool) {
    let (b, _tag, off, cnt) = one_entry_bytes::<TY, S, N>(ascii);
    let r = Header::<IndexTag>::parse_header(IndexHeader::new(1, S as u32), &b[..]);
    kani::cover!(r.is_ok(), "header accepted");
    kani::cover!(r.is_err(), "header rejected");
    std::mem::forget(r);
}

/// C04 sibling: same, with the known-bad region (offset outside 0..=S) assumed away.
fn c04_entry_ok<const TY: u32, const S: usize, const N: usize>(ascii: bool) {
    let (b, _tag, off, cnt) = one_entry_bytes::<TY, S, N>(ascii);
    kani::assume(off >= 0 && off as usize <= S);
    let r = Header::<IndexTag>::parse_header(IndexHeader::new(1, S as u32), &b[..]);
    kani::cover!(r.is_ok(), "header accepted");
    kani::cover!(r.is_err(), "header rejected");
    std::mem::forget(r);
}

/// C01 Level H: parse -> write reproduces the bytes; written bytes are a fixpoint.
fn c01_entry<const TY: u32, const S: usize, const N: usize, const TOTAL: usize>(ascii: bool) {
    let (b, _tag, off, cnt) = one_entry_bytes::<TY, S, N>(ascii);
    kani::assume(off >= 0 && off as usize <= S); // outside: C04's business (known finding / fix)
    let r = Header::<IndexTag>::parse_header(IndexHeader::new(1, S as u32), &b[..]);
    if let Ok(h) = &r {
        let mut out = ArrSink::<TOTAL>::new();
        let w = h.write(&mut out);
        assert!(w.is_ok());
        assert!(out.len == TOTAL, "written header has intro + entry + store bytes");
        // intro
        assert!(out.buf[0] == 0x8e && out.buf[1] == 0xad && out.buf[2] == 0xe8 && out.buf[3] == 0x01);
        assert!(out.buf[8..12] == 1u32.to_be_bytes() && out.buf[12..16] == (S as u32).to_be_bytes());
        assert!(eq_prefix(&out.buf[16..], &b, N), "entry and store bytes reproduced verbatim");
        // fixpoint: parse(out) == h and writes the same
        let r2 = Header::<IndexTag>::parse_header(IndexHeader::new(1, S as u32), &out.buf[16..]);
        assert!(r2.is_ok(), "written bytes parse again");
        let h2 = r2.as_ref().unwrap();
        assert!(h2.index_entries[0].tag == h.index_entries[0].tag
            && h2.index_entries[0].offset == h.index_entries[0].offset
            && h2.index_entries[0].num_items == h.index_entries[0].num_items
            && h2.index_entries[0].data.type_as_u32() == TY, "re-parsed entry equal");
        assert!(h2.store.len() == S && eq_prefix(&h2.store, &h.store, S), "re-parsed store equal");
        kani::cover!(true, "header accepted");
        kani::cover!(cnt > 1, "accepted with count > 1");
        std::mem::forget(w);
        std::mem::forget(r2);
    }
    std::mem::forget(r);
}

macro_rules! lvl_h {
    ($name:ident, $f:ident, $ty:expr, $s:expr, $unw:expr, $ascii:expr) => {
        #[kani::proof]
        #[kani::unwind($unw)]
        #[kani::stub(alloc::fmt::format, fmt_stub)]
        #[kani::stub(alloc::string::String::from_utf8_lossy, from_utf8_lossy_ascii)]
        fn $name() {
            $f::<$ty, $s, { 16 + $s }>($ascii)
        }
    };
}
macro_rules! lvl_h01 {
    ($name:ident, $ty:expr, $s:expr, $unw:expr, $ascii:expr) => {
        #[kani::proof]
        #[kani::unwind($unw)]
        #[kani::stub(alloc::fmt::format, fmt_stub)]
        #[kani::stub(alloc::string::String::from_utf8_lossy, from_utf8_lossy_ascii)]
        fn $name() {
            c01_entry::<$ty, $s, { 16 + $s }, { 32 + $s }>($ascii)
        }
    };
}

// probes / Level H families: type ids 0 Null, 1 Char, 2 Int8, 3 Int16, 4 Int32, 5 Int64, 6 String, 7 Bin, 8 StringArray, 9 I18N
lvl_h!(c04_entry_null, c04_entry, 0, 2, 40, false);
lvl_h!(c04_entry_int32, c04_entry, 4, 8, 40, false);
lvl_h!(c04_entry_bin, c04_entry, 7, 4, 40, false);
lvl_h!(c04_entry_string, c04_entry, 6, 3, 40, true);
lvl_h!(c04_entry_strarr, c04_entry, 8, 3, 40, true);
lvl_h!(c04_entry_ok_null, c04_entry_ok, 0, 2, 40, false);
lvl_h!(c04_entry_ok_int32, c04_entry_ok, 4, 8, 40, false);
lvl_h!(c04_entry_ok_bin, c04_entry_ok, 7, 4, 40, false);
lvl_h!(c04_entry_ok_string, c04_entry_ok, 6, 3, 40, true);
lvl_h!(c04_entry_ok_strarr, c04_entry_ok, 8, 3, 40, true);
lvl_h01!(c01_entry_null, 0, 2, 40, false);
lvl_h01!(c01_entry_int32, 4, 8, 44, false);
lvl_h01!(c01_entry_bin, 7, 4, 40, false);
lvl_h01!(c01_entry_string, 6, 3, 40, true);

#[cfg(test)]
include!("/verif/replays/_gen/header.rs");
