// Kani harnesses mounted inside rpm::headers::header (child module: sees private parse_header,
// parse_entry_data_number, parse_binary_entry).  Level H of C01/C04/C05 and the decoder units.
#![allow(unused, non_snake_case, clippy::all)]

use super::*;
use crate::verif_kani::common::*;
use std::borrow::Cow;

/// S8: String::from_utf8_lossy on ASCII is the identity; the stub asserts ASCII so a non-ASCII byte
/// reaching it fails the harness instead of being mis-modelled.
pub fn from_utf8_lossy_ascii(v: &[u8]) -> Cow<'_, str> {
    let mut i = 0;
    while i < v.len() {
        assert!(v[i] < 0x80, "S8: non-ASCII byte reached the from_utf8_lossy stub");
        i += 1;
    }
    Cow::Borrowed(unsafe { std::str::from_utf8_unchecked(v) })
}

/// S3: allocation budget. `reserve_exact` is what the numeric decoders call with the untrusted
/// count; the stub keeps the behaviour and asserts proportionality to the input.
pub const ALLOC_BUDGET_ITEMS: usize = 4096;
pub fn reserve_exact_budget<T, A: std::alloc::Allocator>(v: &mut Vec<T, A>, additional: usize) {
    assert!(additional <= ALLOC_BUDGET_ITEMS, "S3: reservation out of proportion to the input");
    v.reserve(additional);
}

// ---------------------------------------------------------------------------------------------
// decoder units (Level U): private per-type decoders on S symbolic bytes and a symbolic count
// ---------------------------------------------------------------------------------------------

fn unit_number<const W: usize, const S: usize>() {
    let bytes: [u8; S] = kani::any();
    let count: u32 = kani::any();
    match W {
        2 => {
            let mut items: Vec<u16> = Vec::new();
            let r = parse_entry_data_number::<u16, (&[u8], nom::error::ErrorKind), _>(&bytes[..], count, &mut items, be_u16);
            let fits = (count as usize) * 2 <= S;
            assert!(r.is_ok() == fits, "16-bit array accepted exactly when count items fit");
            if r.is_ok() {
                assert!(items.len() == count as usize);
                let mut i = 0;
                while i < items.len() {
                    assert!(items[i] == u16::from_be_bytes([bytes[2 * i], bytes[2 * i + 1]]), "big-endian item");
                    i += 1;
                }
                kani::cover!(count as usize * 2 == S && S > 0, "store used completely");
            }
            std::mem::forget(r);
            std::mem::forget(items);
        }
        4 => {
            let mut items: Vec<u32> = Vec::new();
            let r = parse_entry_data_number::<u32, (&[u8], nom::error::ErrorKind), _>(&bytes[..], count, &mut items, be_u32);
            let fits = (count as usize) * 4 <= S;
            assert!(r.is_ok() == fits, "32-bit array accepted exactly when count items fit");
            if r.is_ok() {
                assert!(items.len() == count as usize);
                let mut i = 0;
                while i < items.len() {
                    assert!(items[i] == u32::from_be_bytes([bytes[4 * i], bytes[4 * i + 1], bytes[4 * i + 2], bytes[4 * i + 3]]), "big-endian item");
                    i += 1;
                }
                kani::cover!(count as usize * 4 == S && S > 0, "store used completely");
            }
            std::mem::forget(r);
            std::mem::forget(items);
        }
        _ => {
            let mut items: Vec<u64> = Vec::new();
            let r = parse_entry_data_number::<u64, (&[u8], nom::error::ErrorKind), _>(&bytes[..], count, &mut items, be_u64);
            let fits = (count as usize) * 8 <= S;
            assert!(r.is_ok() == fits, "64-bit array accepted exactly when count items fit");
            if r.is_ok() {
                assert!(items.len() == count as usize);
                let mut i = 0;
                while i < items.len() {
                    let mut b = [0u8; 8];
                    b.copy_from_slice(&bytes[8 * i..8 * i + 8]);
                    assert!(items[i] == u64::from_be_bytes(b), "big-endian item");
                    i += 1;
                }
                kani::cover!(count as usize * 8 == S && S > 0, "store used completely");
            }
            std::mem::forget(r);
            std::mem::forget(items);
        }
    }
}

macro_rules! unit_num {
    ($name:ident, $w:expr, $s:expr, $unw:expr) => {
        #[kani::proof]
        #[kani::unwind($unw)]
        #[kani::stub(alloc::fmt::format, fmt_stub)]
        fn $name() {
            unit_number::<$w, $s>()
        }
    };
}
// same shapes, with the allocation budget stub (C04: reservation proportional to the input)
macro_rules! unit_num_budget {
    ($name:ident, $w:expr, $s:expr, $unw:expr) => {
        #[kani::proof]
        #[kani::unwind($unw)]
        #[kani::stub(alloc::fmt::format, fmt_stub)]
        #[kani::stub(alloc::vec::Vec::reserve_exact, reserve_exact_budget)]
        fn $name() {
            unit_number::<$w, $s>()
        }
    };
}
unit_num!(c05_unit_u16_s0, 2, 0, 4);
unit_num!(c05_unit_u16_s5, 2, 5, 6);
unit_num!(c05_unit_u32_s4, 4, 4, 4);
unit_num!(c05_unit_u32_s9, 4, 9, 6);
unit_num!(c05_unit_u64_s8, 8, 8, 10);
unit_num!(c05_unit_u64_s17, 8, 17, 10);
unit_num_budget!(c04_unit_u16_budget, 2, 5, 6);
unit_num_budget!(c04_unit_u32_budget, 4, 9, 6);
unit_num_budget!(c04_unit_u64_budget, 8, 8, 10);

fn unit_binary<const S: usize>() {
    let bytes: [u8; S] = kani::any();
    let count: u32 = kani::any();
    let mut items: Vec<u8> = Vec::new();
    let r = parse_binary_entry(&bytes[..], count, &mut items, "Bin");
    assert!(r.is_ok() == (count as usize <= S), "binary entry accepted exactly when count bytes are there");
    if r.is_ok() {
        assert!(items.len() == count as usize);
        let mut i = 0;
        while i < items.len() {
            assert!(items[i] == bytes[i], "bytes verbatim");
            i += 1;
        }
        kani::cover!(count as usize == S && S > 0, "store used completely");
    }
    std::mem::forget(r);
    std::mem::forget(items);
}
#[kani::proof]
#[kani::unwind(10)]
#[kani::stub(alloc::fmt::format, fmt_stub)]
fn c05_unit_bin_s0() {
    unit_binary::<0>()
}
#[kani::proof]
#[kani::unwind(10)]
#[kani::stub(alloc::fmt::format, fmt_stub)]
fn c05_unit_bin_s6() {
    unit_binary::<6>()
}

// Level H (whole headers through Header::parse) is decided by the MIR engine: engines/harnesses_pkg.py hdr_parse.
// Under Kani the same harnesses did not finish in 30 minutes (see DESIGN.md).

#[cfg(test)]
include!("/verif/replays/_gen/header.rs");
