// Kani harnesses mounted inside rpm::headers::header (child module: sees private parse_header,
// parse_entry_data_number, parse_binary_entry).  Level H of C01/C04/C05 and the decoder units.
#![allow(unused, non_snake_case, clippy::all)]

use super::*;
use crate::verif_kani::common::*;
use std::borrow::Cow;

/// S8: String::from_utf8_lossy on ASCII is the identity; the stub asserts ASCII so a non-ASCII byte
/// reaching it fails the harness instead of being mis-modelled.
pub fn from_utf8_lossy_ascii(v: &[u8]) -> Cow<'_, str> {
    let mut i = 0;
    while i < v.len() {
        assert!(v[i] < 0x80, "S8: non-ASCII byte reached the from_utf8_lossy stub");
        i += 1;
    }
    Cow::Borrowed(unsafe { std::str::from_utf8_unchecked(v) })
}

/// S3: allocation budget. `reserve_exact` is what the numeric decoders call with the untrusted
/// count; the stub keeps the behaviour and asserts proportionality to the input.
pub const ALLOC_BUDGET_ITEMS: usize = 4096;
pub fn reserve_exact_budget<T, A: std::alloc::Allocator>(v: &mut Vec<T, A>, additional: usize) {
    assert!(additional <= ALLOC_BUDGET_ITEMS, "S3: reservation out of proportion to the input");
    v.reserve(additional);
}

// ---------------------------------------------------------------------------------------------
// decoder units (Level U): private per-type decoders on S symbolic bytes and a symbolic count
// ---------------------------------------------------------------------------------------------

fn unit_number<const W: usize, const S: usize>() {
    let bytes: [u8; S] = kani::any();
    let count: u32 = kani::any();
    match W {
        2 => {
            let mut items: Vec<u16> = Vec::new();
            let r = parse_entry_data_number::<u16, (&[u8], nom::error::ErrorKind), _>(&bytes[..], count, &mut items, be_u16);
            let fits = (count as usize) * 2 <= S;
            assert!(r.is_ok() == fits, "16-bit array accepted exactly when count items fit");
            if r.is_ok() {
                assert!(items.len() == count as usize);
                let mut i = 0;
                while i < items.len() {
                    assert!(items[i] == u16::from_be_bytes([bytes[2 * i], bytes[2 * i + 1]]), "big-endian item");
                    i += 1;
                }
                kani::cover!(count as usize * 2 == S && S > 0, "store used completely");
            }
            std::mem::forget(r);
            std::mem::forget(items);
        }
        4 => {
            let mut items: Vec<u32> = Vec::new();
            let r = parse_entry_data_number::<u32, (&[u8], nom::error::ErrorKind), _>(&bytes[..], count, &mut items, be_u32);
            let fits = (count as usize) * 4 <= S;
            assert!(r.is_ok() == fits, "32-bit array accepted exactly when count items fit");
            if r.is_ok() {
                assert!(items.len() == count as usize);
                let mut i = 0;
                while i < items.len() {
                    assert!(items[i] == u32::from_be_bytes([bytes[4 * i], bytes[4 * i + 1], bytes[4 * i + 2], bytes[4 * i + 3]]), "big-endian item");
                    i += 1;
                }
                kani::cover!(count as usize * 4 == S && S > 0, "store used completely");
            }
            std::mem::forget(r);
            std::mem::forget(items);
        }
        _ => {
            let mut items: Vec<u64> = Vec::new();
            let r = parse_entry_data_number::<u64, (&[u8], nom::error::ErrorKind), _>(&bytes[..], count, &mut items, be_u64);
            let fits = (count as usize) * 8 <= S;
            assert!(r.is_ok() == fits, "64-bit array accepted exactly when count items fit");
            if r.is_ok() {
                assert!(items.len() == count as usize);
                let mut i = 0;
                while i < items.len() {
                    let mut b = [0u8; 8];
                    b.copy_from_slice(&bytes[8 * i..8 * i + 8]);
                    assert!(items[i] == u64::from_be_bytes(b), "big-endian item");
                    i += 1;
                }
                kani::cover!(count as usize * 8 == S && S > 0, "store used completely");
            }
            std::mem::forget(r);
            std::mem::forget(items);
        }
    }
}

macro_rules! unit_num {
    ($name:ident, $w:expr, $s:expr, $unw:expr) => {
        #[kani::proof]
        #[kani::unwind($unw)]
        #[kani::stub(alloc::fmt::format, fmt_stub)]
        fn $name() {
            unit_number::<$w, $s>()
        }
    };
}
// same shapes, with the allocation budget stub (C04: reservation proportional to the input)
macro_rules! unit_num_budget {
    ($name:ident, $w:expr, $s:expr, $unw:expr) => {
        #[kani::proof]
        #[kani::unwind($unw)]
        #[kani::stub(alloc::fmt::format, fmt_stub)]
        #[kani::stub(alloc::vec::Vec::reserve_exact, reserve_exact_budget)]
        fn $name() {
            unit_number::<$w, $s>()
        }
    };
}
unit_num!(c05_unit_u16_s0, 2, 0, 6);
unit_num!(c05_unit_u16_s5, 2, 5, 6);
unit_num!(c05_unit_u32_s4, 4, 4, 6);
unit_num!(c05_unit_u32_s9, 4, 9, 6);
unit_num!(c05_unit_u64_s8, 8, 8, 10);
unit_num!(c05_unit_u64_s17, 8, 17, 10);
unit_num_budget!(c04_unit_u16_budget, 2, 5, 6);
unit_num_budget!(c04_unit_u32_budget, 4, 9, 6);
unit_num_budget!(c04_unit_u64_budget, 8, 8, 10);

fn unit_binary<const S: usize>() {
    let bytes: [u8; S] = kani::any();
    let count: u32 = kani::any();
    let mut items: Vec<u8> = Vec::new();
    let r = parse_binary_entry(&bytes[..], count, &mut items, "Bin");
    assert!(r.is_ok() == (count as usize <= S), "binary entry accepted exactly when count bytes are there");
    if r.is_ok() {
        assert!(items.len() == count as usize);
        let mut i = 0;
        while i < items.len() {
            assert!(items[i] == bytes[i], "bytes verbatim");
            i += 1;
        }
        kani::cover!(count as usize == S && S > 0, "store used completely");
    }
    std::mem::forget(r);
    std::mem::forget(items);
}
#[kani::proof]
#[kani::unwind(10)]
#[kani::stub(alloc::fmt::format, fmt_stub)]
fn c05_unit_bin_s0() {
    unit_binary::<0>()
}
#[kani::proof]
#[kani::unwind(10)]
#[kani::stub(alloc::fmt::format, fmt_stub)]
fn c05_unit_bin_s6() {
    unit_binary::<6>()
}

// Level H (whole headers through Header::parse) is decided by the MIR engine: engines/harnesses_pkg.py hdr_parse.
// Under Kani the same harnesses did not finish in 30 minutes (see DESIGN.md).

// ---------------------------------------------------------------------------------------------
// Native replay support for counterexamples of the MIR engine that concern crate-private code
// (Header::from_entries): the structural rules of the property, checked on the emitted bytes.
// Same rules as engines/harnesses_pkg.py validate_header (after rpm's hdrblobVerifyInfo/Region).
// ---------------------------------------------------------------------------------------------
#[cfg(test)]
pub fn verif_check_header_bytes(b: &[u8], region: u32) -> Result<(), String> {
    let be32 = |o: usize| u32::from_be_bytes([b[o], b[o + 1], b[o + 2], b[o + 3]]);
    if b.len() < 16 || b[..4] != [0x8e, 0xad, 0xe8, 0x01] || b[4..8] != [0, 0, 0, 0] {
        return Err("bad intro".into());
    }
    let n = be32(8) as usize;
    let sz = be32(12) as usize;
    if b.len() != 16 + 16 * n + sz {
        return Err(format!("intro counts ({n} entries, {sz} store bytes) do not match the {} bytes written", b.len()));
    }
    if n == 0 {
        return Err("no region entry".into());
    }
    let st = &b[16 + 16 * n..];
    let ent = |i: usize| (be32(16 + 16 * i), be32(20 + 16 * i), be32(24 + 16 * i) as i32, be32(28 + 16 * i));
    let (rtag, rty, roff, rcnt) = ent(0);
    if rtag != region || rty != 7 || rcnt != 16 {
        return Err("first entry is not the region tag (BIN, count 16)".into());
    }
    if roff < 0 || roff as usize + 16 != st.len() {
        return Err("region trailer is not at the end of the store".into());
    }
    let roff = roff as usize;
    let mut want = Vec::new();
    want.extend_from_slice(&region.to_be_bytes());
    want.extend_from_slice(&7u32.to_be_bytes());
    want.extend_from_slice(&((-16 * n as i32) as u32).to_be_bytes());
    want.extend_from_slice(&16u32.to_be_bytes());
    if st[roff..] != want[..] {
        return Err("region trailer does not point back over exactly all entries".into());
    }
    let mut prev_tag: Option<u32> = None;
    let mut prev_end = 0usize;
    for i in 1..n {
        let (tag, ty, off, cnt) = ent(i);
        if let Some(p) = prev_tag {
            if tag <= p {
                return Err(format!("tags are not in strictly ascending order ({p} then {tag})"));
            }
        }
        prev_tag = Some(tag);
        let al = match ty {
            3 => 2,
            4 => 4,
            5 => 8,
            0..=9 => 1,
            _ => return Err(format!("type {ty} out of range")),
        };
        if off < 0 || off as usize % al != 0 {
            return Err(format!("offset {off} of a type-{ty} entry is not aligned to {al}"));
        }
        let off = off as usize;
        if cnt == 0 {
            return Err("entry with zero count".into());
        }
        if off < prev_end {
            return Err("entry data overlaps the previous entry".into());
        }
        let ln = match ty {
            6 | 8 | 9 => {
                let mut j = off;
                for _ in 0..cnt {
                    while j < roff && st[j] != 0 {
                        j += 1;
                    }
                    if j >= roff {
                        return Err("unterminated string in the store".into());
                    }
                    j += 1;
                }
                j - off
            }
            _ => cnt as usize * al,
        };
        if off + ln > roff {
            return Err("entry data runs past the end of the data area".into());
        }
        prev_end = off + ln;
    }
    Ok(())
}

/// from_entries -> write -> structural rules -> parse back and compare every record's data
#[cfg(test)]
pub fn verif_replay_from_entries<T: Tag>(recs: Vec<(u32, IndexData)>, region: T) -> Result<(), String> {
    let entries: Vec<IndexEntry<T>> = recs
        .iter()
        .map(|(t, d)| IndexEntry { tag: *t, offset: 0, num_items: d.num_items(), data: d.clone(), entry_type: PhantomData })
        .collect();
    let h = Header::<T>::from_entries(entries, region);
    let mut out = Vec::new();
    h.write(&mut out).map_err(|e| format!("write failed: {e}"))?;
    verif_check_header_bytes(&out, region.to_u32())?;
    let back = Header::<T>::parse(&mut &out[..]).map_err(|e| format!("assembled header does not parse back: {e}"))?;
    for (t, d) in recs.iter() {
        match back.index_entries.iter().find(|e| e.tag == *t) {
            None => return Err(format!("record {t} is missing from the assembled header")),
            Some(e) if e.data != *d => return Err(format!("record {t} read back as {:?}, put in as {:?}", e.data, d)),
            _ => {}
        }
    }
    Ok(())
}

#[cfg(test)]
include!("/verif/replays/_gen/header.rs");
