// Kani harnesses mounted at the crate root of rpm (see /repo/src/lib.rs, cfg(kani)).
// Property ids refer to /verif/properties.jsonl; sections to /verif/DESIGN.md.
#![allow(unused, non_snake_case, clippy::all)]

#[path = "/verif/harness/common.rs"]
pub(crate) mod common;

use crate::*;
use common::*;
use std::io::{self, Write};

// ---------------------------------------------------------------------------------------------
// C18 — file modes convert without losing or inventing bits (complete over the domain)
// ---------------------------------------------------------------------------------------------

#[kani::proof]
#[kani::unwind(48)]
fn c18_u16() {
    let w: u16 = kani::any();
    let m = FileMode::from(w);
    assert!(m.raw_mode() == w, "raw_mode round trip");
    assert!(m.file_type() | m.permissions() == w, "type|perm recombine");
    assert!(m.file_type() & m.permissions() == 0, "type and perm disjoint");
    assert!(m.file_type() == w & 0o170000);
    assert!(m.permissions() == w & 0o7777);
    let ty = w & 0o170000;
    assert!(matches!(m, FileMode::Dir { .. }) == (ty == 0o040000));
    assert!(matches!(m, FileMode::Regular { .. }) == (ty == 0o100000));
    assert!(matches!(m, FileMode::SymbolicLink { .. }) == (ty == 0o120000));
    assert!(
        matches!(m, FileMode::Invalid { .. }) == (ty != 0o040000 && ty != 0o100000 && ty != 0o120000)
    );
    assert!(u16::from(m) == w);
    assert!(u32::from(m) == w as u32);
    // to_result: Ok exactly for the three classified kinds, and Ok carries the same mode
    match m.to_result() {
        Ok(m2) => {
            assert!(!matches!(m, FileMode::Invalid { .. }));
            assert!(m2 == m);
        }
        Err(e) => {
            assert!(matches!(m, FileMode::Invalid { .. }));
            std::mem::forget(e);
        }
    }
    kani::cover!(matches!(m, FileMode::Dir { .. }), "dir reachable");
    kani::cover!(matches!(m, FileMode::SymbolicLink { .. }), "symlink reachable");
    kani::cover!(matches!(m, FileMode::Invalid { .. }), "invalid reachable");
}

#[kani::proof]
#[kani::unwind(48)]
fn c18_i32() {
    let r: i32 = kani::any();
    let m = FileMode::from(r);
    let t = FileMode::try_from_raw(r);
    if r > 65535 || r < -32768 {
        assert!(matches!(m, FileMode::Invalid { raw_mode, .. } if raw_mode == r), "out of range is Invalid");
        assert!(t.is_err(), "try_from_raw rejects out-of-range");
        kani::cover!(r > 65535, "above range");
        kani::cover!(r < -32768, "below range");
    } else {
        let w = r as u16;
        assert!(m == FileMode::from(w), "in range agrees with u16 conversion");
        assert!(m.raw_mode() == w);
        let ty = w & 0o170000;
        let classified = ty == 0o040000 || ty == 0o100000 || ty == 0o120000;
        assert!(t.is_ok() == classified);
        if let Ok(tm) = &t {
            assert!(*tm == m);
        }
        kani::cover!(classified, "in range, classified");
        kani::cover!(!classified, "in range, unclassified");
    }
    std::mem::forget(t);
}

#[kani::proof]
#[kani::unwind(48)]
fn c18_ctor() {
    let p: u16 = kani::any();
    let r = FileMode::regular(p);
    let d = FileMode::dir(p);
    let l = FileMode::symbolic_link(p);
    assert!(r.permissions() == p & 0o7777 && r.file_type() == 0o100000);
    assert!(d.permissions() == p & 0o7777 && d.file_type() == 0o040000);
    assert!(l.permissions() == p & 0o7777 && l.file_type() == 0o120000);
    assert!(matches!(r, FileMode::Regular { .. }));
    assert!(matches!(d, FileMode::Dir { .. }));
    assert!(matches!(l, FileMode::SymbolicLink { .. }));
    assert!(r.raw_mode() == 0o100000 | (p & 0o7777));
    assert!(d.raw_mode() == 0o040000 | (p & 0o7777));
    assert!(l.raw_mode() == 0o120000 | (p & 0o7777));
    // constructor output is a fixpoint of the u16 conversion
    assert!(FileMode::from(r.raw_mode()) == r);
    assert!(FileMode::from(d.raw_mode()) == d);
    assert!(FileMode::from(l.raw_mode()) == l);
    kani::cover!(p > 0o7777, "permissions above 12 bits");
}

#[kani::proof]
#[kani::unwind(48)]
fn c18_twin() {
    let w: u16 = kani::any();
    let m = FileMode::from(w);
    let _ = m.raw_mode();
    assert!(false, "twin: must be reported FAILED");
}

// ---------------------------------------------------------------------------------------------
// C20 — timestamp conversion
// ---------------------------------------------------------------------------------------------

fn c20_oracle_u64(secs: u64) -> Result<Timestamp, TimestampError> {
    if secs <= u32::MAX as u64 {
        Ok(Timestamp(secs as u32))
    } else {
        Err(TimestampError::Overflow)
    }
}

/// instants at or after the epoch: EPOCH + (secs, nanos)
#[kani::proof]
#[kani::unwind(4)]
fn c20_systemtime_after() {
    let secs: u64 = kani::any();
    let nanos: u32 = kani::any();
    kani::assume(nanos < 1_000_000_000);
    kani::assume(secs < (1u64 << 40));
    let d = std::time::Duration::new(secs, nanos);
    let st = std::time::SystemTime::UNIX_EPOCH.checked_add(d);
    assert!(st.is_some());
    let st = st.unwrap();
    let r = Timestamp::try_from(st);
    assert!(r == c20_oracle_u64(secs), "whole seconds since the epoch, Overflow at 2^32");
    kani::cover!(secs == u32::MAX as u64 && nanos == 999_999_999, "last representable instant");
    kani::cover!(secs == (1u64 << 32) && nanos == 0, "first overflowing instant");
    kani::cover!(secs == 0 && nanos == 0, "epoch");
}

/// instants strictly before the epoch: EPOCH - (secs, nanos), (secs, nanos) != 0
#[kani::proof]
#[kani::unwind(4)]
fn c20_systemtime_before() {
    let secs: u64 = kani::any();
    let nanos: u32 = kani::any();
    kani::assume(nanos < 1_000_000_000);
    kani::assume(secs < (1u64 << 40));
    kani::assume(secs != 0 || nanos != 0);
    let d = std::time::Duration::new(secs, nanos);
    let st = std::time::SystemTime::UNIX_EPOCH.checked_sub(d);
    assert!(st.is_some());
    let r = Timestamp::try_from(st.unwrap());
    assert!(r == Err(TimestampError::Underflow), "before the epoch is Underflow");
    kani::cover!(secs == 0 && nanos == 1, "one nanosecond before the epoch");
}

/// order preservation: t1 <= t2 and both convert => ts1 <= ts2 ; t1 <= t2, t2 Ok => t1 not Overflow
#[kani::proof]
#[kani::unwind(4)]
fn c20_systemtime_monotone() {
    let s1: u64 = kani::any();
    let n1: u32 = kani::any();
    let s2: u64 = kani::any();
    let n2: u32 = kani::any();
    kani::assume(n1 < 1_000_000_000 && n2 < 1_000_000_000);
    kani::assume(s1 < (1u64 << 34) && s2 < (1u64 << 34));
    let t1 = std::time::SystemTime::UNIX_EPOCH + std::time::Duration::new(s1, n1);
    let t2 = std::time::SystemTime::UNIX_EPOCH + std::time::Duration::new(s2, n2);
    let r1 = Timestamp::try_from(t1);
    let r2 = Timestamp::try_from(t2);
    if t1 <= t2 {
        match (r1, r2) {
            (Ok(a), Ok(b)) => assert!(a <= b, "order preserved"),
            (Err(e), Ok(_)) => assert!(false, "earlier instant fails while later converts"),
            _ => {}
        }
        kani::cover!(r1.is_ok() && r2.is_err(), "straddles 2^32");
    }
}

#[kani::proof]
#[kani::unwind(4)]
fn c20_twin() {
    let secs: u64 = kani::any();
    kani::assume(secs < (1u64 << 40));
    let st = std::time::SystemTime::UNIX_EPOCH + std::time::Duration::new(secs, 0);
    let r = Timestamp::try_from(st);
    assert!(r.is_err() && r.is_ok(), "twin: must be reported FAILED");
}

#[cfg(feature = "chrono")]
mod c20_chrono {
    use crate::*;

    fn oracle(secs: i64) -> Result<Timestamp, TimestampError> {
        if secs < 0 {
            Err(TimestampError::Underflow)
        } else if secs > u32::MAX as i64 {
            Err(TimestampError::Overflow)
        } else {
            Ok(Timestamp(secs as u32))
        }
    }

    fn run<const OFF: i32>() {
        let secs: i64 = kani::any();
        kani::assume(secs > -(1i64 << 34) && secs < (1i64 << 34));
        let nanos: u32 = kani::any();
        kani::assume(nanos < 1_000_000_000);
        let dt = chrono::DateTime::from_timestamp(secs, nanos);
        assert!(dt.is_some());
        let dt = dt.unwrap();
        if OFF == 0 {
            let r = Timestamp::try_from(dt);
            assert!(r == oracle(secs), "UTC: whole seconds since the epoch");
        } else {
            let tz = chrono::FixedOffset::east_opt(OFF).unwrap();
            let r = Timestamp::try_from(dt.with_timezone(&tz));
            assert!(r == oracle(secs), "fixed offset: zone does not change the instant");
        }
        kani::cover!(secs == -1 && nanos == 999_999_999, "just before the epoch");
        kani::cover!(secs == u32::MAX as i64, "last representable second");
        kani::cover!(secs == (1i64 << 32), "first overflowing second");
    }

    #[kani::proof]
    #[kani::unwind(8)]
    fn c20_chrono_utc() {
        run::<0>()
    }
    #[kani::proof]
    #[kani::unwind(8)]
    fn c20_chrono_p0530() {
        run::<{ 5 * 3600 + 1800 }>()
    }
    #[kani::proof]
    #[kani::unwind(8)]
    fn c20_chrono_m1200() {
        run::<{ -12 * 3600 }>()
    }
    #[kani::proof]
    #[kani::unwind(8)]
    fn c20_chrono_p1400() {
        run::<{ 14 * 3600 }>()
    }
    #[kani::proof]
    #[kani::unwind(8)]
    fn c20_chrono_m0100() {
        run::<{ -3600 }>()
    }
    #[kani::proof]
    #[kani::unwind(8)]
    fn c20_chrono_p0100() {
        run::<{ 3600 }>()
    }

    /// windows around the two boundaries (the epoch, 2^32) for a zone west and a zone east of Greenwich: the instants at which a conversion that looks at
    /// local calendar fields instead of the instant goes wrong
    fn window<const OFF: i32>(centre: i64) {
        let d: i64 = kani::any();
        kani::assume(d > -(1i64 << 14) && d < (1i64 << 14));
        let secs = centre + d;
        let nanos: u32 = kani::any();
        kani::assume(nanos < 1_000_000_000);
        let dt = chrono::DateTime::from_timestamp(secs, nanos).unwrap();
        let tz = chrono::FixedOffset::east_opt(OFF).unwrap();
        let r = Timestamp::try_from(dt.with_timezone(&tz));
        assert!(r == oracle(secs), "fixed offset near a boundary: zone does not change the instant");
        kani::cover!(d == 0, "the boundary itself");
    }
    #[kani::proof]
    #[kani::unwind(8)]
    fn c20_chrono_win0_m0100() {
        window::<{ -3600 }>(0)
    }
    #[kani::proof]
    #[kani::unwind(8)]
    fn c20_chrono_win0_p0100() {
        window::<{ 3600 }>(0)
    }
    #[kani::proof]
    #[kani::unwind(8)]
    fn c20_chrono_win32_m0100() {
        window::<{ -3600 }>(1i64 << 32)
    }
    #[kani::proof]
    #[kani::unwind(8)]
    fn c20_chrono_win32_p0100() {
        window::<{ 3600 }>(1i64 << 32)
    }

    #[kani::proof]
    #[kani::unwind(8)]
    fn c20_chrono_monotone() {
        let s1: i64 = kani::any();
        let s2: i64 = kani::any();
        kani::assume(s1 > -(1i64 << 33) && s1 < (1i64 << 33));
        kani::assume(s2 > -(1i64 << 33) && s2 < (1i64 << 33));
        let n1: u32 = kani::any();
        let n2: u32 = kani::any();
        kani::assume(n1 < 1_000_000_000 && n2 < 1_000_000_000);
        let d1 = chrono::DateTime::from_timestamp(s1, n1).unwrap();
        let d2 = chrono::DateTime::from_timestamp(s2, n2).unwrap();
        // instant order decided on the raw (secs, nanos) pair, independent of chrono's Ord
        if (s1, n1) <= (s2, n2) {
            match (Timestamp::try_from(d1), Timestamp::try_from(d2)) {
                (Ok(a), Ok(b)) => assert!(a <= b, "order preserved"),
                (Err(TimestampError::Overflow), Ok(_)) => assert!(false, "earlier overflows, later converts"),
                (Ok(_), Err(TimestampError::Underflow)) => assert!(false, "later underflows, earlier converts"),
                _ => {}
            }
        }
    }

    #[cfg(test)]
    include!("/verif/replays/_gen/c20_chrono.rs");
}

// ---------------------------------------------------------------------------------------------
// C16 — segment offsets
// ---------------------------------------------------------------------------------------------

fn hdr_with_intro<T: Tag>(n: u32, d: u32) -> Header<T> {
    Header { index_header: IndexHeader::new(n, d), index_entries: Vec::new(), store: Vec::new() }
}

/// The offsets function reads only the intro fields; they are fully symbolic here
/// (each header below 2^31 bytes so the u32 sums cannot wrap — stated bound).
#[kani::proof]
#[kani::unwind(70)]
fn c16_arith() {
    let ns: u32 = kani::any();
    let ds: u32 = kani::any();
    let nh: u32 = kani::any();
    let dh: u32 = kani::any();
    kani::assume(ns < (1 << 24) && nh < (1 << 24));
    kani::assume(ds < (1 << 30) && dh < (1 << 30));
    let m = PackageMetadata {
        lead: Lead::new(""),
        signature: hdr_with_intro::<IndexSignatureTag>(ns, ds),
        header: hdr_with_intro::<IndexTag>(nh, dh),
    };
    let o = m.get_package_segment_offsets();
    // independent arithmetic in u64
    let sig_size: u64 = 16 + 16 * ns as u64 + ds as u64;
    let pad: u64 = (8 - (ds as u64 % 8)) % 8;
    let hdr_size: u64 = 16 + 16 * nh as u64 + dh as u64;
    assert!(o.lead == 0);
    assert!(o.signature_header == 96);
    assert!(o.header == 96 + sig_size + pad, "main header starts after padded signature header");
    assert!(o.header % 8 == 0, "main header is 8-byte aligned");
    assert!(o.payload == o.header + hdr_size, "payload starts after main header");
    assert!(o.lead < o.signature_header && o.signature_header < o.header && o.header < o.payload);
    assert!(m.signature.padding_required() as u64 == pad);
    assert!(m.signature.size() as u64 == sig_size);
    assert!(m.header.size() as u64 == hdr_size);
    kani::cover!(pad == 7, "padding 7");
    kani::cover!(pad == 0 && ds > 0, "no padding, non-empty store");
    std::mem::forget(m);
}

#[kani::proof]
#[kani::unwind(70)]
fn c16_twin() {
    let ds: u32 = kani::any();
    kani::assume(ds < (1 << 30));
    let m = PackageMetadata {
        lead: Lead::new(""),
        signature: hdr_with_intro::<IndexSignatureTag>(0, ds),
        header: hdr_with_intro::<IndexTag>(0, 0),
    };
    let o = m.get_package_segment_offsets();
    std::mem::forget(m);
    assert!(o.header == 0, "twin: must be reported FAILED");
}

/// Build a one-entry header as a struct literal (no parser, no from_entries involved).
fn lit_header<T: Tag, const S: usize>(tag_ctor: T, tag: u32, data: IndexData, offset: i32, count: u32, store: [u8; S], n_entries_field: u32) -> Header<T> {
    let mut e = IndexEntry::new(tag_ctor, offset, data);
    e.tag = tag;
    e.num_items = count;
    let mut st = Vec::with_capacity(S);
    let mut i = 0;
    while i < S {
        st.push(store[i]);
        i += 1;
    }
    Header { index_header: IndexHeader::new(n_entries_field, S as u32), index_entries: vec![e], store: st }
}

/// Real bytes: signature header with one entry and SS store bytes, main header with one entry and
/// SH store bytes, payload of P bytes; all contents symbolic. An intro must start at each header
/// offset of the written package and the payload offset must leave exactly the payload.
fn c16_bytes<const SS: usize, const SH: usize, const P: usize, const TOTAL: usize>() {
    let sig = lit_header::<IndexSignatureTag, SS>(
        IndexSignatureTag::RPMSIGTAG_SHA256, kani::any(), IndexData::Bin(Vec::new()), kani::any(), kani::any(), kani::any(), 1);
    let hdr = lit_header::<IndexTag, SH>(
        IndexTag::RPMTAG_NAME, kani::any(), IndexData::Null, kani::any(), kani::any(), kani::any(), 1);
    let content: [u8; P] = kani::any();
    let mut cv = Vec::with_capacity(P);
    let mut i = 0;
    while i < P {
        cv.push(content[i]);
        i += 1;
    }
    let pkg = Package { metadata: PackageMetadata { lead: Lead::new("x"), signature: sig, header: hdr }, content: cv };
    let o = pkg.metadata.get_package_segment_offsets();
    let mut out = ArrSink::<TOTAL>::new();
    let r = pkg.write(&mut out);
    assert!(r.is_ok());
    let b = &out.buf;
    assert!(o.lead == 0 && o.signature_header == 96);
    assert!(b[0] == 0xed && b[1] == 0xab && b[2] == 0xee && b[3] == 0xdb, "lead magic at lead offset");
    let s = o.signature_header as usize;
    assert!(b[s] == 0x8e && b[s + 1] == 0xad && b[s + 2] == 0xe8 && b[s + 3] == 0x01, "intro at signature offset");
    let h = o.header as usize;
    assert!(h + 16 <= out.len);
    assert!(b[h] == 0x8e && b[h + 1] == 0xad && b[h + 2] == 0xe8 && b[h + 3] == 0x01, "intro at header offset");
    // the main header intro found there is the main header's own (entry count 1, store SH)
    assert!(b[h + 11] == 1 && b[h + 15] == SH as u8);
    assert!(out.len as u64 - o.payload == P as u64, "payload offset leaves exactly the payload");
    let p = o.payload as usize;
    let mut i = 0;
    while i < P {
        assert!(b[p + i] == content[i], "payload bytes at payload offset");
        i += 1;
    }
    assert!(o.lead < o.signature_header && o.signature_header < o.header && o.header < o.payload);
    std::mem::forget(r);
    std::mem::forget(pkg);
}

macro_rules! c16_bytes_h {
    ($name:ident, $ss:expr, $sh:expr, $p:expr) => {
        #[kani::proof]
        #[kani::unwind(70)]
        fn $name() {
            // total = 96 + (16+16+SS+pad) + (16+16+SH) + P
            c16_bytes::<$ss, $sh, $p, { 96 + 32 + $ss + ((8 - ($ss % 8)) % 8) + 32 + $sh + $p }>()
        }
    };
}
c16_bytes_h!(c16_bytes_0_0_0, 0, 0, 0);
c16_bytes_h!(c16_bytes_1_3_2, 1, 3, 2);
c16_bytes_h!(c16_bytes_2_0_1, 2, 0, 1);
c16_bytes_h!(c16_bytes_3_1_0, 3, 1, 0);
c16_bytes_h!(c16_bytes_4_2_3, 4, 2, 3);
c16_bytes_h!(c16_bytes_5_5_1, 5, 5, 1);
c16_bytes_h!(c16_bytes_6_7_0, 6, 7, 0);
c16_bytes_h!(c16_bytes_7_8_2, 7, 8, 2);
c16_bytes_h!(c16_bytes_8_4_1, 8, 4, 1);
c16_bytes_h!(c16_bytes_9_6_0, 9, 6, 0);

// ---------------------------------------------------------------------------------------------
// C14 — serialisation does not depend on how the sink chunks I/O
// ---------------------------------------------------------------------------------------------

/// Common verdict: Ok => sink holds exactly `canon`; Err => sink holds a prefix of `canon`.
fn c14_verdict<const N: usize, const K: usize>(r: &Result<(), Error>, sink: &KSink<N, K>, canon: &[u8]) {
    match r {
        Ok(()) => {
            assert!(sink.len == canon.len(), "success but not all canonical bytes were emitted");
            assert!(eq_prefix(&sink.buf, canon, canon.len()), "success but emitted bytes differ from canonical");
            assert!(!sink.fail_seen, "success although the sink reported a hard failure");
        }
        Err(_) => {
            assert!(sink.len <= canon.len(), "error but more than the canonical bytes emitted");
            assert!(eq_prefix(&sink.buf, canon, sink.len), "error but emitted bytes are not a canonical prefix");
        }
    }
}

fn sym_index_data_empty() -> IndexData {
    // type id symbolic over all ten variants, payload empty (write_index only emits the type id)
    let t: u32 = kani::any();
    kani::assume(t <= 9);
    IndexData::from_type_as_u32(t).unwrap()
}

fn c14_entry<const K: usize>() {
    let mut e: IndexEntry<IndexTag> = IndexEntry::new(IndexTag::RPMTAG_NAME, kani::any(), sym_index_data_empty());
    e.tag = kani::any();
    e.num_items = kani::any();
    // independent canonical form: four big-endian words
    let mut canon = [0u8; 16];
    canon[0..4].copy_from_slice(&e.tag.to_be_bytes());
    canon[4..8].copy_from_slice(&e.data.type_as_u32().to_be_bytes());
    canon[8..12].copy_from_slice(&e.offset.to_be_bytes());
    canon[12..16].copy_from_slice(&e.num_items.to_be_bytes());
    let mut sink = KSink::<16, K>::sym();
    let r = e.write_index(&mut sink);
    c14_verdict(&r, &sink, &canon);
    kani::cover!(r.is_ok() && sink.len == 16, "entry written completely");
    kani::cover!(r.is_err() && sink.fail_seen, "hard failure reported");
    std::mem::forget(r);
    std::mem::forget(e);
}

fn c14_intro<const K: usize>() {
    let h = IndexHeader::new(kani::any(), kani::any());
    let mut canon = [0u8; 16];
    canon[0..4].copy_from_slice(&[0x8e, 0xad, 0xe8, 0x01]);
    canon[8..12].copy_from_slice(&h.num_entries.to_be_bytes());
    canon[12..16].copy_from_slice(&h.data_section_size.to_be_bytes());
    let mut sink = KSink::<16, K>::sym();
    let r = h.write(&mut sink);
    c14_verdict(&r, &sink, &canon);
    kani::cover!(r.is_ok() && sink.len == 16 && (K == 0 || sink.short_seen), "intro written completely");
    kani::cover!(r.is_ok() && sink.intr_seen, "success through Interrupted");
    kani::cover!(r.is_err() && sink.fail_seen && (K != 1 || sink.len == 7), "hard failure (K=1: after exactly 7 bytes)");
    std::mem::forget(r);
}

fn c14_lead<const K: usize>() {
    let mut b: [u8; 96] = kani::any();
    b[0] = 0xed;
    b[1] = 0xab;
    b[2] = 0xee;
    b[3] = 0xdb;
    let l = Lead::parse(&b[..]);
    assert!(l.is_ok());
    let l = l.unwrap();
    let mut sink = KSink::<96, K>::sym();
    let r = l.write(&mut sink);
    // canonical form of a parsed lead is its input (decided by c01_lead)
    c14_verdict(&r, &sink, &b);
    kani::cover!(r.is_ok() && sink.len == 96, "lead written completely");
    kani::cover!(r.is_err() && sink.fail_seen && (K != 1 || sink.len == 50), "hard failure (K=1: inside the name field)");
    std::mem::forget(r);
}

/// Whole header: intro + one entry + S store bytes.
fn c14_header<const S: usize, const TOTAL: usize, const K: usize>() {
    let h = lit_header::<IndexTag, S>(
        IndexTag::RPMTAG_NAME, kani::any(), sym_index_data_empty(), kani::any(), kani::any(), kani::any(), 1);
    let mut canon = ArrSink::<TOTAL>::new();
    let rc = h.write(&mut canon);
    assert!(rc.is_ok() && canon.len == TOTAL);
    let mut sink = KSink::<TOTAL, K>::sym();
    let r = h.write(&mut sink);
    c14_verdict(&r, &sink, &canon.buf);
    kani::cover!(r.is_ok() && sink.len == TOTAL, "header written completely");
    kani::cover!(r.is_err() && sink.fail_seen && sink.len > 16, "hard failure after the intro");
    std::mem::forget(r);
    std::mem::forget(rc);
    std::mem::forget(h);
}

/// Signature header incl. padding.
fn c14_sig<const S: usize, const TOTAL: usize, const K: usize>() {
    let h = lit_header::<IndexSignatureTag, S>(
        IndexSignatureTag::RPMSIGTAG_SHA256, kani::any(), sym_index_data_empty(), kani::any(), kani::any(), kani::any(), 1);
    let mut canon = ArrSink::<TOTAL>::new();
    let rc = h.write_signature(&mut canon);
    assert!(rc.is_ok() && canon.len == TOTAL);
    let mut sink = KSink::<TOTAL, K>::sym();
    let r = h.write_signature(&mut sink);
    c14_verdict(&r, &sink, &canon.buf);
    kani::cover!(r.is_ok() && sink.len == TOTAL, "signature header written completely");
    kani::cover!(r.is_err() && sink.fail_seen && sink.len >= 32 + S, "hard failure inside the padding");
    std::mem::forget(r);
    std::mem::forget(rc);
    std::mem::forget(h);
}

/// Whole package: lead, signature header (1 entry, 3 store bytes + 5 padding), main header
/// (1 entry, 2 store bytes), 3 payload bytes = 96 + 40 + 34 + 3 = 173 bytes.
fn c14_package<const K: usize>() {
    let sig = lit_header::<IndexSignatureTag, 3>(
        IndexSignatureTag::RPMSIGTAG_SHA256, kani::any(), IndexData::Bin(Vec::new()), kani::any(), kani::any(), kani::any(), 1);
    let hdr = lit_header::<IndexTag, 2>(
        IndexTag::RPMTAG_NAME, kani::any(), IndexData::Null, kani::any(), kani::any(), kani::any(), 1);
    let content: [u8; 3] = kani::any();
    let pkg = Package {
        metadata: PackageMetadata { lead: Lead::new("x"), signature: sig, header: hdr },
        content: vec![content[0], content[1], content[2]],
    };
    let mut canon = ArrSink::<173>::new();
    let rc = pkg.write(&mut canon);
    assert!(rc.is_ok() && canon.len == 173);
    let mut sink = KSink::<173, K>::sym();
    let r = pkg.write(&mut sink);
    c14_verdict(&r, &sink, &canon.buf);
    kani::cover!(r.is_ok() && sink.len == 173, "package written completely");
    kani::cover!(r.is_err() && sink.fail_seen && sink.len >= 170, "hard failure inside the payload");
    std::mem::forget(r);
    std::mem::forget(rc);
    std::mem::forget(pkg);
}

macro_rules! c14h {
    ($name:ident, $unw:expr, $body:expr) => {
        #[kani::proof]
        #[kani::unwind($unw)]
        fn $name() {
            $body
        }
    };
}
c14h!(c14_entry_k1, 20, c14_entry::<1>());
c14h!(c14_entry_k2, 20, c14_entry::<2>());
c14h!(c14_entry_k3, 20, c14_entry::<3>());
c14h!(c14_entry_k0, 20, c14_entry::<0>());
c14h!(c14_intro_k1, 20, c14_intro::<1>());
c14h!(c14_intro_k3, 20, c14_intro::<3>());
c14h!(c14_intro_k0, 20, c14_intro::<0>());
c14h!(c14_lead_k1, 100, c14_lead::<1>());
c14h!(c14_lead_k5, 100, c14_lead::<5>());
c14h!(c14_lead_k0, 100, c14_lead::<0>());
c14h!(c14_header_s3_k1, 40, c14_header::<3, 35, 1>());
c14h!(c14_header_s3_k2, 40, c14_header::<3, 35, 2>());
c14h!(c14_header_s3_k0, 40, c14_header::<3, 35, 0>());
c14h!(c14_header_s0_k1, 40, c14_header::<0, 32, 1>());
c14h!(c14_header_s8_k3, 44, c14_header::<8, 40, 3>());
c14h!(c14_sig_s5_k1, 44, c14_sig::<5, 40, 1>());
c14h!(c14_sig_s5_k0, 44, c14_sig::<5, 40, 0>());
c14h!(c14_sig_s1_k2, 44, c14_sig::<1, 40, 2>());
c14h!(c14_package_k1, 180, c14_package::<1>());
c14h!(c14_package_k4, 180, c14_package::<4>());
c14h!(c14_package_k0, 180, c14_package::<0>());

/// S9 justification: the sink's own write_all equals std's default write_all over the sink's write.
fn c14_model_equiv_k<const K: usize>() {
    let data: [u8; 4] = kani::any();
    let n: usize = kani::any();
    kani::assume(n <= 4);
    let fail_at: u32 = kani::any();
    let intr_at: u32 = kani::any();
    kani::assume(fail_at <= 8 && intr_at <= 8);
    let mut a = KSink::<8, K>::new(fail_at, intr_at);
    let mut b = KSink::<8, K>::new(fail_at, intr_at);
    b.use_default_write_all = true;
    // two consecutive write_all calls so that call numbering across calls is compared too
    let ra1 = a.write_all(&data[..n]);
    let rb1 = b.write_all(&data[..n]);
    assert!(ra1.is_ok() == rb1.is_ok());
    let ra2 = a.write_all(&data[..n]);
    let rb2 = b.write_all(&data[..n]);
    assert!(ra2.is_ok() == rb2.is_ok(), "override and default agree on the result");
    assert!(a.len == b.len && a.calls == b.calls && a.fail_seen == b.fail_seen, "override and default agree on the state");
    assert!(eq_prefix(&a.buf, &b.buf, 8), "override and default agree on the bytes");
    kani::cover!(ra1.is_ok() && ra2.is_err(), "second call fails");
    kani::cover!(a.intr_seen && ra2.is_ok(), "interrupted and completed");
    std::mem::forget((ra1, rb1, ra2, rb2));
}
c14h!(c14_model_equiv_k1, 12, c14_model_equiv_k::<1>());
c14h!(c14_model_equiv_k3, 12, c14_model_equiv_k::<3>());
c14h!(c14_model_equiv_k0, 12, c14_model_equiv_k::<0>());

#[kani::proof]
#[kani::unwind(24)]
fn c14_twin() {
    let h = IndexHeader::new(kani::any(), kani::any());
    let mut sink = KSink::<16, 1>::sym();
    let r = h.write(&mut sink);
    let ok = r.is_ok();
    std::mem::forget(r);
    assert!(!ok, "twin: must be reported FAILED");
}

#[path = "/verif/harness/codec.rs"]
mod codec;

#[path = "/verif/harness/digest.rs"]
mod digest;

#[cfg(test)]
include!("/verif/replays/_gen/root.rs");

