"""Plan of the checks: which harnesses decide which property, in which tier, under which bounds.
Imported by ./check. Harness sources live in /verif/harness/*.rs (Kani) and /verif/engines (MIR->SMT)."""

SOFT = '--cfg feature="force-soft"'

GROUPS = {
    "mir": {"features": [], "rustflags": "", "lazy": True},
    # S4: portable hash back ends everywhere (the cfg only affects sha1/sha2/md-5)
    "plain": {"features": [], "rustflags": SOFT},
    "chrono": {"features": ["chrono"], "rustflags": SOFT},
    "pgp": {"features": ["signature-pgp"], "rustflags": SOFT, "lazy": False},
}

MOUNTS = {
    "root": "verif_kani",
    "header": "rpm::headers::header::verif_kani",
    "payload": "rpm::payload::verif_kani",
    "version": "version::verif_kani",
    "filecaps": "rpm::filecaps::verif_kani",
}


def full_name(h):
    sub = h.get("sub")
    base = MOUNTS[h.get("mount", "root")]
    return base + "::" + (sub + "::" if sub else "") + h["name"]


def H(name, group="plain", mount="root", tier="quick", role="main", timeout=300, **kw):
    d = {"name": name, "group": group, "mount": mount, "tier": tier, "role": role, "timeout": timeout}
    d.update(kw)
    return d


A_MIR = [
    "engine: own symbolic executor over rustc's MIR dump of /repo (regenerated on every run), z3 for path feasibility; every data-dependent branch is forked, so each path has a concrete result",
    "trusted: the MIR interpreter (engines/symex.py), the models of the std functions it calls (listed per harness under extra.intrinsics), z3; the translator is validated on every run by pushing >150 concrete inputs (the repo's own test vectors and random ones) through both the interpreter and the real compiled crate",
    "strings are ASCII: every byte in 0x01..0x7f (multi-byte UTF-8 and NUL are outside the bound)",
]

HDR_SHAPES = [(0, 0), (4, 0), (16, 0), (17, 1), (18, 0), (20, 2), (24, 0)]


def MH(name, tier="quick", timeout=900, **kw):
    return H(name, engine="mirsmt", group="mir", mount="mir", tier=tier, timeout=timeout, **kw)



A_COMMON = [
    "A4: Kani models the dev profile (overflow checks and debug_assert! on), allocation never fails; release behaviour is exercised only by the replay step",
    "trusted: Kani 0.68 MIR->GOTO translation, CBMC 6.11 symbolic execution and bit-blasting, CaDiCaL",
]
A_S1 = "S1: alloc::fmt::format stubbed to return an empty String (error-message text is not part of the property)"
A_FORGET = "A1: results are mem::forget-ed at harness end (drop glue not executed)"
A_SHAPES = "A3: lengths/counts/types enumerated as listed harness instantiations; contents symbolic inside each shape"

PROPERTIES = {}

# ------------------------------------------------------------------------------------------ C18
PROPERTIES["C18"] = {
    "harnesses": [
        H("c18_u16", inputs="w: any u16 (2^16 values)", bounds="none: whole domain", timeout=120),
        H("c18_i32", inputs="r: any i32 (2^32 values)", bounds="none: whole domain", timeout=120),
        H("c18_ctor", inputs="p: any u16", bounds="none: whole domain", timeout=120),
        H("c18_twin", role="twin", timeout=60),
    ],
    "bounds": "none - the solver covers all 2^16 mode words and all 2^32 integers; unwind 48 only bounds the memcmp of the `reason` strings in derived PartialEq",
    "outside": "nothing within the property's domain",
    "exhaustive": True,
    "assumptions": A_COMMON + ["the property's '16-bit range' is taken as the interval the code documents: -32768..=65535"],
}

# ------------------------------------------------------------------------------------------ C20
PROPERTIES["C20"] = {
    "harnesses": [
        H("c20_systemtime_after", inputs="secs: u64 < 2^40, nanos < 10^9", bounds="instants up to 2^40 s after the epoch", timeout=300),
        H("c20_systemtime_before", inputs="secs: u64 < 2^40, nanos < 10^9, not both 0", bounds="instants down to 2^40 s before the epoch", timeout=300),
        H("c20_systemtime_monotone", inputs="two instants, secs < 2^34", bounds="pairs of instants below 2^34 s", timeout=300),
        H("c20_chrono_utc", group="chrono", sub="c20_chrono", inputs="secs: i64 in +-2^34, nanos < 10^9", bounds="|secs| < 2^34 (years 1426..2514)", timeout=900),
        H("c20_chrono_p0530", group="chrono", sub="c20_chrono", inputs="same, FixedOffset +05:30", bounds="|secs| < 2^34", timeout=1800, tier="thorough"),
        H("c20_chrono_m1200", group="chrono", sub="c20_chrono", inputs="same, FixedOffset -12:00", bounds="|secs| < 2^34", timeout=1800, tier="thorough"),
        H("c20_chrono_p1400", group="chrono", sub="c20_chrono", inputs="same, FixedOffset +14:00", bounds="|secs| < 2^34", timeout=1800, tier="thorough"),
        H("c20_chrono_m0100", group="chrono", sub="c20_chrono", inputs="same, FixedOffset -01:00", bounds="|secs| < 2^34", timeout=1800, tier="thorough"),
        H("c20_chrono_p0100", group="chrono", sub="c20_chrono", inputs="same, FixedOffset +01:00", bounds="|secs| < 2^34", timeout=1800, tier="thorough"),
        H("c20_chrono_win0_m0100", group="chrono", sub="c20_chrono", inputs="secs within 2^14 of the epoch, nanos < 10^9, FixedOffset -01:00", bounds="window around 0", timeout=900),
        H("c20_chrono_win0_p0100", group="chrono", sub="c20_chrono", inputs="secs within 2^14 of the epoch, FixedOffset +01:00", bounds="window around 0", timeout=900),
        H("c20_chrono_win32_m0100", group="chrono", sub="c20_chrono", inputs="secs within 2^14 of 2^32, FixedOffset -01:00", bounds="window around 2^32", timeout=900),
        H("c20_chrono_win32_p0100", group="chrono", sub="c20_chrono", inputs="secs within 2^14 of 2^32, FixedOffset +01:00", bounds="window around 2^32", timeout=900),
        H("c20_chrono_monotone", group="chrono", sub="c20_chrono", inputs="two instants |secs| < 2^33", bounds="|secs| < 2^33", timeout=1800, tier="thorough"),
        H("c20_twin", role="twin", timeout=120),
    ],
    "bounds": "SystemTime: |t - epoch| < 2^40 s, all nanoseconds; chrono: |secs| < 2^34, all nanoseconds, offsets {0, +-1h, +5:30, -12h, +14h}",
    "outside": "instants beyond those ranges (chrono's calendar arithmetic is division-heavy; the conversion itself only uses timestamp(), which is linear in the stored fields)",
    "assumptions": A_COMMON + [A_SHAPES],
}

# ------------------------------------------------------------------------------------------ C16
PROPERTIES["C16"] = {
    "harnesses": [
        H("c16_arith", inputs="num_entries (< 2^24) and data_section_size (< 2^30) of both headers symbolic", bounds="each header < 2^31 bytes", timeout=120),
    ] + [
        H(n, inputs="tags, offsets, counts, store bytes, payload bytes symbolic", bounds="1 entry per header; store/payload sizes as in the name (sig store, main store, payload)", timeout=300,
          tier=("quick" if i % 3 == 0 else "thorough"))
        for i, n in enumerate(["c16_bytes_0_0_0", "c16_bytes_1_3_2", "c16_bytes_2_0_1", "c16_bytes_3_1_0", "c16_bytes_4_2_3",
                               "c16_bytes_5_5_1", "c16_bytes_6_7_0", "c16_bytes_7_8_2", "c16_bytes_8_4_1", "c16_bytes_9_6_0"])
    ] + [MH("c16_meta_%d" % t, tier=("quick" if t <= 40 else "thorough"), timeout=(1800 if t <= 40 else 7200),
            inputs="lead + %d symbolic bytes parsed by the real parser" % t, bounds="offsets of PARSED metadata vs the positions where the parser found the segments",
            covers_unsat_ok=["signature header with padding", "metadata rejected"]) for t in (32, 40)]
    + [MH("c16_clear_%d_%d" % s, inputs="signature header with %d entries / %d symbolic store bytes" % s, bounds="Header::clear() then offsets vs written bytes", timeout=300)
       for s in ((1, 4), (2, 9), (0, 0), (1, 16))]
    + [MH("c16_woff_k%d" % k, inputs="package with 2-entry signature header (3 padding bytes), 1-entry main header, 3 payload bytes, contents symbolic", timeout=600,
          bounds="Package::write into a sink accepting %d byte(s) per call, then get_package_segment_offsets vs the positions in the bytes the sink received" % k, covers_unsat_ok=["write fails"]) for k in (1, 2, 3, 5)]
    + [MH("c16_resid_%d" % r, inputs="package whose signature header store has %d symbolic bytes (%d padding bytes)" % (r, (-r) % 8), timeout=300, covers_unsat_ok=["write fails"],
          bounds="offsets vs the bytes Package::write emits, every signature store size mod 8 (two periods)") for r in range(0, 17)]
    + [MH("c16_built_" + n, inputs="a package built by this library with files of %s symbolic bytes" % (n.replace("_", "/") if n != "empty" else "no"), timeout=900,
          bounds="offsets of a built package vs the bytes Package::write emits") for n in ("empty", "1", "2_3")]
    + [H("c16_twin", role="twin", timeout=60)],
    "bounds": "arithmetic: all intro field values with each header below 2^31 bytes; bytes: headers of one entry, store sizes 0..9 (every residue mod 8), payload 0..3 bytes",
    "outside": "headers >= 2^31 bytes (u32 overflow in the sum); the invariant num_entries == index_entries.len() and data_section_size == store.len() that links the arithmetic to real packages is established by parse/from_entries (C01/C09 harnesses) and assumed here",
    "assumptions": A_COMMON + [A_FORGET, A_SHAPES, "headers are built as struct literals (pub(crate) fields); index_header agrees with the vectors"],
}

# ------------------------------------------------------------------------------------------ C14
C14_SINK = "sink: K bytes accepted per call (K const per harness, 0 = all), hard failure at a symbolic call number, one Interrupted at a symbolic call number"
A_S9 = "S9: the scripted sink overrides write_all with a loop equivalent to std's default write_all over its write (equivalence decided by c14_model_equiv_* for buffers <= 4 bytes); std's write_all itself is trusted"


def _c14(name, what, bounds, timeout=300, tier="quick", **kw):
    return H(name, inputs=what + "; " + C14_SINK, bounds=bounds, timeout=timeout, tier=tier, **kw)


PROPERTIES["C14"] = {
    "harnesses": [
        _c14("c14_entry_k1", "tag, type id 0..9, offset, count", "one index entry; 1 byte per call", covers_unsat_ok=[]),
        _c14("c14_entry_k2", "same", "one index entry; 2 bytes per call", tier="thorough"),
        _c14("c14_entry_k3", "same", "one index entry; 3 bytes per call"),
        _c14("c14_entry_k0", "same", "one index entry; whole buffers"),
        _c14("c14_intro_k1", "num_entries, data_section_size", "one intro; 1 byte per call"),
        _c14("c14_intro_k3", "same", "one intro; 3 bytes per call", tier="thorough"),
        _c14("c14_intro_k0", "same", "one intro; whole buffers"),
        _c14("c14_lead_k1", "92 lead bytes after the magic", "one lead; 1 byte per call", timeout=900),
        _c14("c14_lead_k5", "same", "one lead; 5 bytes per call", timeout=900, tier="thorough"),
        _c14("c14_lead_k0", "same", "one lead; whole buffers", timeout=900, tier="thorough"),
        _c14("c14_header_s3_k1", "entry fields, 3 store bytes", "header, 1 entry, 3 store bytes; 1 byte per call", timeout=900),
        _c14("c14_header_s3_k2", "same", "2 bytes per call", timeout=900, tier="thorough"),
        _c14("c14_header_s3_k0", "same", "whole buffers", timeout=900),
        _c14("c14_header_s0_k1", "entry fields", "header, 1 entry, empty store; 1 byte per call", timeout=900, tier="thorough"),
        _c14("c14_header_s8_k3", "entry fields, 8 store bytes", "header, 1 entry, 8 store bytes; 3 bytes per call", timeout=900, tier="thorough"),
        _c14("c14_sig_s5_k1", "entry fields, 5 store bytes (+3 padding)", "signature header; 1 byte per call", timeout=900),
        _c14("c14_sig_s5_k0", "same", "whole buffers", timeout=900, tier="thorough"),
        _c14("c14_sig_s1_k2", "entry fields, 1 store byte (+7 padding)", "2 bytes per call", timeout=900, tier="thorough"),
        _c14("c14_package_k1", "whole 173-byte package", "lead + 1-entry signature header + 1-entry header + 3 payload bytes; 1 byte per call", timeout=1800, tier="thorough"),
        _c14("c14_package_k4", "same", "4 bytes per call", timeout=1800, tier="thorough"),
        _c14("c14_package_k0", "same", "whole buffers", timeout=1800),
        H("c14_model_equiv_k1", inputs="4 data bytes, length 0..4, fail_at/intr_at 0..8", bounds="two consecutive write_all calls", timeout=1800, tier="thorough", role="model"),
        H("c14_model_equiv_k3", inputs="same", bounds="same", timeout=1800, tier="thorough", role="model"),
        H("c14_model_equiv_k0", inputs="same", bounds="same", timeout=1800, tier="thorough", role="model"),
        H("c14_twin", role="twin", timeout=120),
    ] + [MH(n, inputs="package with 2-entry signature header, 1-entry main header, 3 payload bytes, contents symbolic; sink script symbolic", timeout=900,
            bounds="Package::write / PackageMetadata::write from MIR into a scripted sink (chunk size in the name; k0 = whole buffers), failure or Interrupted at any call",
            covers_unsat_ok=["write fails"]) for n in ("c14_wpkg_k0", "c14_wpkg_k1", "c14_wpkg_k2", "c14_wpkg_k5", "c14_wpkg_intr_k0", "c14_wpkg_intr_k1", "c14_wmeta_k1", "c14_wmeta_k0")]
    + [MH("c14_wzero_k%d" % k, inputs="package as in c14_wpkg_*; the sink is full (write() returns Ok(0)) from a symbolic call number on", timeout=900, covers_unsat_ok=["write fails", "write succeeds"],
          bounds="Package::write into a sink accepting %s per call that fills up: an error, and what was emitted is a prefix" % ("everything" if k == 0 else "%d byte(s)" % k)) for k in (0, 1, 5)]
    + [MH("c14_resid_%d" % r, inputs="package whose signature header store has %d symbolic bytes (%d padding bytes); sink script symbolic" % (r, (-r) % 8), timeout=600, covers_unsat_ok=["write fails"],
          tier=("quick" if r < 8 else "thorough"), bounds="Package::write into a sink accepting 1 byte per call, failure at any call: every signature store size mod 8") for r in range(0, 16)]
    + [MH("c14_meta_%d" % t, tier=("quick" if t <= 40 else "thorough"), timeout=(1800 if t <= 40 else 7200),
            inputs="lead + %d symbolic bytes; source hands out 1, 3 or 7 bytes per read/fill_buf; truncation at each of the last 24 offsets before the payload" % t,
            bounds="read side: PackageMetadata::parse from chunking / truncated sources, %d bytes after the lead" % t,
            covers_unsat_ok=["signature header with padding", "metadata rejected"]) for t in (32, 40)],
    "bounds": "headers of one entry, stores <= 8 bytes, payload 3 bytes; chunk sizes K in {1,2,3,4,5,whole}; failure at any call number (with K=1: at any byte offset); at most one Interrupted at any call number",
    "outside": "larger packages; chunkings that vary from call to call (the 'seeded random sizes' family); more than one Interrupted; sinks violating the Write contract; read side: metadata of up to 40 bytes after the lead (c14_meta_*, MIR engine), sources with a fixed chunk size 1/3/7, truncation at the last 24 offsets before the payload",
    "assumptions": A_COMMON + [A_FORGET, A_SHAPES, A_S9, "read side on the MIR engine: reader model = std::io::Read/BufRead contract (read_exact all-or-error, fill_buf returns at most the chunk, consume skips only buffered bytes)"] + A_MIR[:2],
}

# ------------------------------------------------------------------------------------------ C01
_HDRT = [("2bin_2", "two BIN entries (tags, offsets, counts symbolic) + 2 store bytes"), ("2i32str_6", "an INT32 and a STRING entry (count 1 each) + 6 store bytes"),
         ("i32x2", "one INT32 entry of 2 items + 8 store bytes"), ("i16x2", "one INT16 entry of 2 items + 4 store bytes"), ("i64x2", "one INT64 entry of 2 items + 16 store bytes"),
         ("strs2", "one STRING_ARRAY entry of 2 items + 4 store bytes")]


def _hdrt(prefix, bounds):
    return [MH("%s_hdrt_%s" % (prefix, n), inputs="typed header shape: " + d + "; intro counts and entry types fixed, everything else symbolic", bounds=bounds, timeout=900,
               covers_unsat_ok=["accepted with an entry", "header rejected", "header accepted"] + ["decoded a %s entry" % t for t in ("Null", "Char", "Int8", "Int16", "Int32", "Int64", "StringTag", "Bin", "StringArray", "I18NString")])
            for n, d in _HDRT]


PROPERTIES["C01"] = {
    "harnesses": [
        H("c01_lead", sub="codec", inputs="all 96 lead bytes", bounds="none (complete over the lead)", timeout=600),
        H("c01_intro", sub="codec", inputs="all 16 intro bytes", bounds="none (complete over the intro)", timeout=300),
        H("c01_index_entry", sub="codec", inputs="all 16 entry bytes + 3 trailing bytes", bounds="none (complete over one index entry, IndexTag instance)", timeout=300),
        H("c01_index_entry_sig", sub="codec", inputs="all 16 entry bytes", bounds="none (IndexSignatureTag instance)", timeout=300),
        H("c01_type_ids", sub="codec", inputs="type id: any u32", bounds="none", timeout=120),
        H("c01_sigpad_arith", sub="codec", inputs="store size: any u32", bounds="none", timeout=120),
    ] + [H("c01_sigpad_write_%d" % i, sub="codec", inputs="%d store bytes" % i, bounds="signature header without entries, store of %d bytes" % i,
           timeout=300, tier=("quick" if i in (0, 3, 8) else "thorough")) for i in range(10)]
    + [MH("c01_hdr_%d_%d" % s, tier=("quick" if s[0] <= 20 else "thorough"), timeout=(900 if s[0] <= 20 else 3600),
          inputs="16 intro bytes (magic/version valid, counts symbolic) + %d index/store bytes + %d trailing bytes, all symbolic" % s,
          bounds="Level H: Header::parse then Header::write, at most %d entries of ANY type/tag/offset/count, store up to %d bytes" % (s[0] // 16, s[0]),
          covers_unsat_ok=["accepted with an entry", "header rejected"]) for s in HDR_SHAPES]
    + _hdrt("c01", "Level H on typed shapes: two entries per header, numeric and string entries with two items")
    + [MH("c01_hdr_anyintro_%d_0" % r, inputs="all 16 intro bytes + %d further bytes symbolic" % r, bounds="Level H with arbitrary intro", timeout=900,
          covers_unsat_ok=["accepted with an entry", "header rejected"]) for r in (0, 16, 17)]
    + [MH("c01_meta_%d" % t, tier=("quick" if t <= 40 else "thorough"), timeout=(1800 if t <= 40 else 7200),
          inputs="lead + %d symbolic bytes: signature header, padding, main header (all counts symbolic)" % t,
          bounds="PackageMetadata::parse then write over %d bytes after the lead" % t, covers_unsat_ok=["signature header with padding", "metadata rejected"]) for t in (32, 40)]
    + [MH("c01_meta_lead_32", inputs="92 symbolic lead bytes + 32 symbolic bytes", bounds="arbitrary lead fields", timeout=1800, covers_unsat_ok=["signature header with padding", "metadata rejected"])]
    + [MH("c01_hdr_bin_18_0", inputs="as c01_hdr_18_0, store bytes 0..255", bounds="non-UTF-8 store data for the non-string types", timeout=900,
          covers_unsat_ok=["accepted with an entry", "header rejected"])]
    + [H("c01_twin", sub="codec", role="twin", timeout=120)],
    "bounds": "Level U: every byte of lead, header intro and index entry symbolic (complete over those segments); padding for every store size; Level H (whole headers through Header::parse) see harness list",
    "outside": "Level H beyond the listed shapes: headers with more than the listed number of entries / store bytes; compressed payload contents (opaque bytes to parse/write)",
    "assumptions": A_COMMON + [A_S1, A_FORGET, A_SHAPES, "Level H (c01_hdr_*) runs on the MIR engine: see the C13 assumptions (interpreter, std/nom models validated against the real crate), string data ASCII (A2)"],
}

# ------------------------------------------------------------------------------------------ C04
PROPERTIES["C04"] = {
    "harnesses": [
        H("c04_lead", sub="codec", inputs="all 96 lead bytes", bounds="none", timeout=600),
        H("c04_lead_len", sub="codec", inputs="96 bytes, slice length 0..96 symbolic", bounds="none", timeout=900, tier="thorough"),
        H("c04_intro", sub="codec", inputs="16 bytes, slice length 0..16 symbolic", bounds="none", timeout=300),
        H("c04_index_entry", sub="codec", inputs="16 bytes, slice length 0..16 symbolic", bounds="none", timeout=300),
    ] + [H("c04_accessors_%d" % i, sub="codec", inputs="variant 0..9 symbolic, %d items" % i, bounds="%d items" % i, timeout=300) for i in (0, 1)]
    + [H(n, mount="header", inputs="S store bytes and the item count (u32) symbolic", bounds="numeric decoder unit with the allocation-budget stub", timeout=300, covers_unsat_ok=["store used completely"])
       for n in ("c04_unit_u16_budget", "c04_unit_u32_budget", "c04_unit_u64_budget")]
    + [MH("c04_echo_%d" % i, inputs="%d signature bytes, log level of the environment symbolic" % i, bounds="signature blob of %d bytes" % i, timeout=300) for i in range(0, 7)]
    + [MH("c04_payload_digest_%d" % i, inputs="payload digest algorithm id: any u32; %d digest items" % i, bounds="payload digest tag with %d items" % i, timeout=300,
          covers_unsat_ok=["sha256 algorithm id"]) for i in (0, 1)]
    + [MH("c04_hdr_%d_%d" % s, tier=("quick" if s[0] <= 20 else "thorough"), timeout=(900 if s[0] <= 20 else 3600),
          inputs="16 intro bytes (magic/version valid, counts symbolic) + %d index/store bytes + %d trailing bytes, all symbolic" % s,
          bounds="Header::parse, at most %d entries, store up to %d bytes" % (s[0] // 16, s[0]), covers_unsat_ok=["accepted with an entry", "header rejected"]) for s in HDR_SHAPES]
    + _hdrt("c04", "Header::parse on typed shapes: no panic, no out-of-proportion allocation")
    + [MH("c04_hdr_anyintro_%d_0" % r, inputs="all 16 intro bytes + %d further bytes symbolic" % r, bounds="Header::parse with arbitrary intro", timeout=900,
          covers_unsat_ok=["accepted with an entry", "header rejected"]) for r in (0, 16, 17)]
    + [MH("c04_meta_%d" % t, tier=("quick" if t <= 40 else "thorough"), timeout=(1800 if t <= 40 else 7200),
          inputs="lead + %d symbolic bytes (signature header, padding, main header, trailing bytes)" % t, bounds="PackageMetadata::parse over %d bytes after the lead" % t,
          covers_unsat_ok=["signature header with padding", "metadata rejected"]) for t in (32, 40)]
    + [MH("c04_cpio_%s_%d_%d" % (m, t, n), inputs="cpio entry header: %s magic, 13 symbolic hex fields, %d symbolic name/padding bytes, %d files in the header" % (m, t, n),
          bounds="payload::Reader::new on one hostile entry header", timeout=900, tier=("quick" if (t, n) in ((2, 0), (12, 1)) or m == "stripped" else "thorough"),
          covers_unsat_ok=["entry accepted", "entry rejected"]) for m in ("newc", "crc", "stripped", "anymagic") for (t, n) in ((0, 0), (2, 0), (4, 1), (12, 1))]
    + [MH("c04_fileiter_%d" % n, inputs="header file size: any 64-bit value; %d symbolic content bytes in a well-formed newc archive" % n, bounds="FileIterator::next (Package::files) on one entry", timeout=600)
       for n in (0, 1, 3, 4)]
    + [MH("c04_fileiter_stripped_%d" % n, inputs="header file size: any 64-bit value; a stripped (07070X) archive entry followed by %d content bytes" % n, timeout=600,
          bounds="FileIterator::next on one stripped entry whose size comes from the header (incl. sizes next to u64::MAX: skip and padding arithmetic)") for n in (0, 5)]
    + [MH("c04_fentries_short_" + t, inputs="two files; RPMTAG_%s holds one item, every other per-file array two; values symbolic" % t, timeout=600,
          bounds="get_file_entries on per-file arrays of unequal length: an error or a shorter list, never a panic") for t in
       ("FILEMODES", "FILEUSERNAME", "FILEGROUPNAME", "FILEDIGESTS", "FILEMTIMES", "FILEFLAGS", "FILELINKTOS", "FILESIZES", "DIRINDEXES", "FILECAPS")]
    + [MH("c04_paths_%d_%d" % s, inputs="%d base names / directory indexes (any u32), %d directory names" % s, bounds="get_file_paths", timeout=600,
          covers_unsat_ok=["paths returned", "error returned"]) for s in ((1, 1), (2, 1), (2, 2), (1, 0), (0, 0), (3, 2))]
    + [MH("c04_hdr_bin_18_0", inputs="as c04_hdr_18_0 but store bytes unrestricted (0..255)", bounds="string decoding of non-ASCII bytes is outside the bound", timeout=900,
          covers_unsat_ok=["accepted with an entry", "header rejected"])]
    + [H("c04_twin", sub="codec", role="twin", timeout=120)],
    "bounds": "Level U: every byte of lead / intro / index entry symbolic incl. truncated slices; accessors on every variant with 0..2 items; echo helper on blobs of 0..6 bytes",
    "outside": "see DESIGN.md C04: compressed payload decoders (C libraries), OpenPGP packet parsing / key-id extraction, headers beyond the listed Level-H shapes, the cpio reader beyond one entry header (data/padding skipping), the ten-way zip of get_file_entries",
    "assumptions": A_COMMON + [A_S1, A_FORGET, A_SHAPES],
}


# ------------------------------------------------------------------------------------------ C03
A_S5 = "S5: block compression functions of sha2/sha1/md-5 replaced by a cheap word-mixing stub that keeps the digest a function of every byte of every block in order (injective on short single-block messages); padding, buffering, hex encoding and all comparisons are the real code. The thorough tier repeats single-tag shapes with the real SHA-256/SHA-1/MD5 compression"
A_S4 = "S4: portable (force-soft) hash back ends instead of SHA-NI/asm"
_C03_QUICK = {0, 1, 2, 4, 8, 15}
C03_KANI = {
    "harnesses": [H("c03_digests_m%02d" % m, sub="digest", timeout=2400, mem_gb=16, tier=("quick" if m in _C03_QUICK else "thorough"),
                    inputs="recorded MD5 (16 bytes), SHA1 (40 chars), SHA256 (64 chars), payload digest (64 chars), algorithm id (u32): all symbolic",
                    bounds="tag subset mask %d (1=MD5 2=SHA1 4=SHA256 8=payload digest); main header 120/50 bytes, payload 3 concrete bytes" % m)
                  for m in range(16)]
    + [H("c03_twin", sub="digest", role="twin", timeout=900)],
    "bounds": "every subset of the four digest tags; the recorded side fully symbolic; one fixed small package shape per subset (header contents symbolic where they contain the payload digest)",
    "outside": "other package contents and sizes (the hashed side is the write() output of a fixed-shape package); collision resistance is not a claim",
    "assumptions": A_COMMON + [A_S1, A_S4, A_S5, A_FORGET, A_SHAPES],
}

# ------------------------------------------------------------------------------------------ C08
PROPERTIES["C08"] = {
    "harnesses": [H(n, sub="digest", timeout=1800, tier=t, inputs="%s data bytes symbolic; inner sink accepts K bytes per call" % n.split("_")[2][1:],
                    bounds="Sha256Writer over a short-writing sink, data length and chunk size as in the name (l=length, k=chunk, 0=whole)")
                  for n, t in [("c08_writer_l1_k1", "thorough"), ("c08_writer_l2_k1", "quick"), ("c08_writer_l3_k1", "quick"), ("c08_writer_l3_k2", "quick"),
                               ("c08_writer_l4_k3", "thorough"), ("c08_writer_l4_k0", "quick")]]
    + [MH("c08_clear_%d_%s" % (h, s), inputs="main header with %d symbolic store bytes; previous signature header %s" % (h, s), timeout=300,
          bounds="Package::clear_signatures (MIR): the recorded SHA256 equals hex(SHA-256(serialised header)) with SHA-256 as an uninterpreted function; no signature survives") for h in (0, 3) for s in ("empty", "stale")]
    + [MH("c08_filedigest_" + n, inputs="two add_data calls, contents symbolic", timeout=300,
          bounds="per-file digest and size recorded when a file is added (PackageBuilder::add_data), %s destination" % n) for n in ("same", "diff")]
    + [MH("c08_build_" + n, inputs="files of %s symbolic content bytes" % (n.replace("_", "/") if n != "empty" else "no"), timeout=900,
          bounds="PackageBuilder .. build() (MIR): header digest in the signature header, payload digest, alternate payload digest, per-file digests vs SHA-256 (uninterpreted) of the bytes they name")
       for n in ("empty", "1", "0_3", "2_1_4")]
    + [MH("c08_build_dup_2_3", inputs="two add_data calls of 2 and 3 symbolic bytes under the same destination", timeout=900, bounds="as c08_build_*; each recorded file digest names the bytes the archive carries for that file"),
       MH("c08_build_symlink_2_1", inputs="a regular file of 2 and a symbolic-link entry with a 1-byte source, contents symbolic", timeout=900, bounds="as c08_build_dup_2_3")]
    + [MH("c08_build_%s_2_1" % c, inputs="two files of 2 and 1 symbolic bytes, %s compression with a symbolic level" % c, timeout=900,
          bounds="as c08_build_*, the compressor an uninterpreted function of level and input: payload digest over the compressed bytes, alternate digest over the archive", covers_unsat_ok=["package built"])
       for c in ("gzip", "xz", "bzip2", "zstd")]
    + [H("c08_twin", sub="digest", role="twin", timeout=900)],
    "bounds": "the hashing writer (Sha256Writer) with data of 1..4 symbolic bytes through inner sinks accepting 1, 2, 3 or all bytes per call; built packages with up to three files of 0..4 symbolic bytes, uncompressed",
    "outside": "what the compressors really emit (FFI; modelled as uninterpreted functions of level and input); digests after sign (needs real OpenPGP packets); longer data",
    "assumptions": A_COMMON + [A_S4, A_S5, A_SHAPES, "inner sink: KSink short writes only (no failure/Interrupted); std's write_all drives Sha256Writer::write"],
}

# ------------------------------------------------------------------------------------------ C03 (MIR engine, digests as uninterpreted functions)
A_UF = ("digests are uninterpreted functions of the exact byte sequence hashed (one z3 function per algorithm, length and output byte): equal inputs give equal digests, "
        "nothing else is assumed - collision resistance is not used; the digest crates themselves (md-5, sha1, sha2, hex) are modelled, not executed")
PROPERTIES["C03"] = {
    "harnesses": [MH("c03_digests_m%02d" % m, timeout=1800, inputs="recorded MD5/SHA1/SHA256/payload digest, algorithm id, 2 header store bytes, 3 payload bytes: all symbolic",
                     bounds="tag subset mask %d (1=MD5 2=SHA1 4=SHA256 8=payload digest); one-entry main header" % m,
                     covers_unsat_ok=["verification succeeds", "verification fails"]) for m in range(16)]
    + [MH("c03_md5len_%d" % l, timeout=900, inputs="recorded MD5 entry of %d symbolic bytes (not 16)" % l, bounds="MD5 tag with a value of the wrong length must never verify",
          covers_unsat_ok=["verification succeeds", "verification fails"]) for l in (0, 1, 8, 15, 17, 32)]
    + [MH("c03_%slen_%d" % (k, l), timeout=900, inputs="recorded %s of %d symbolic characters (not %d)" % (nm, l, full), bounds="a recorded digest of the wrong length must never verify",
          covers_unsat_ok=["verification succeeds", "verification fails"])
       for (k, nm, full, ls) in (("sha1", "SHA1 header digest", 40, (0, 1, 39, 41)), ("sha256", "SHA256 header digest", 64, (0, 1, 63, 65)), ("pd", "payload digest", 64, (0, 1, 63, 65))) for l in ls]
    + [MH("c03_built_" + n, inputs="a package built by this library with files of %s symbolic bytes" % (n.replace("_", "/") if n != "empty" else "no"), timeout=900,
          bounds="liveness: verify_digests of a freshly built package (builder and verifier both from MIR) succeeds", covers_unsat_ok=["verification succeeds", "verification fails"]) for n in ("empty", "1", "2_3")]
    # lemma the MIR harnesses rest on: verify_digests hashes the re-serialised header, so "the file's bytes" are covered only if parse -> write reproduces them
    + [H("c01_index_entry", sub="codec", role="lemma", inputs="all 16 entry bytes + 3 trailing bytes", bounds="lemma: an accepted index entry is written back byte for byte (Kani)", timeout=300),
       H("c01_index_entry_sig", sub="codec", role="lemma", inputs="all 16 entry bytes", bounds="lemma, IndexSignatureTag instance (Kani)", timeout=300),
       H("c01_intro", sub="codec", role="lemma", inputs="all 16 intro bytes", bounds="lemma: an accepted intro is written back byte for byte except the reserved bytes (Kani)", timeout=300)],
    "bounds": "every subset of the four digest tags; recorded values, algorithm id, header store bytes and payload bytes symbolic; package shape fixed (main header of one or two entries, 3 payload bytes)",
    "outside": "other package shapes/sizes; the digest implementations themselves (modelled as uninterpreted functions)",
    "assumptions": A_MIR + [A_UF],
    "technique": None,
}

# ------------------------------------------------------------------------------------------ C05 (MIR engine)
PROPERTIES["C05"] = {
    "harnesses": [H(n, mount="header", inputs="S store bytes and the item count symbolic", bounds="per-type decoder unit (Kani), S as in the name", timeout=300, covers_unsat_ok=["store used completely"])
                  for n in ("c05_unit_u16_s0", "c05_unit_u16_s5", "c05_unit_u32_s4", "c05_unit_u32_s9", "c05_unit_u64_s8", "c05_unit_u64_s17", "c05_unit_bin_s0", "c05_unit_bin_s6")]
    + [MH("c05_hdr_%d_%d" % s, tier=("quick" if s[0] <= 20 else "thorough"), timeout=(900 if s[0] <= 20 else 3600),
          inputs="header with one entry of symbolic type/offset/count (tag fixed to RPMTAG_NAME) and symbolic store", bounds="store up to %d bytes" % (s[0] - 16 if s[0] >= 16 else 0),
          covers_unsat_ok=["accepted with an entry", "header rejected"] + ["decoded a %s entry" % t for t in ("Null", "Char", "Int8", "Int16", "Int32", "Int64", "StringTag", "Bin", "StringArray", "I18NString")])
       for s in HDR_SHAPES if s[0] >= 16]
    + [MH("c05_paths_%d_%d" % s, inputs="%d base names, %d directory indexes (any u32), %d directory names, all symbolic" % (s[0], s[0], s[1]),
          bounds="get_file_paths = directory[dirindex] + basename; out-of-range index -> InvalidTagIndex", timeout=600, covers_unsat_ok=["paths returned", "error returned"])
       for s in ((1, 1), (2, 1), (2, 2), (1, 0), (0, 0), (3, 2))]
    + [MH("c05_deps_%s_2" % k, inputs="all eight dependency triples present, 2 items each, contents symbolic", bounds="get_%s returns its own triple zipped in order" % k, timeout=300)
       for k in ("provides", "requires", "conflicts", "obsoletes", "recommends", "suggests", "enhances", "supplements")]
    + [MH("c05_deps_requires_0", inputs="triples with zero items", bounds="empty lists", timeout=300, covers_unsat_ok=["list returned"])]
    + [MH("c05_deps_provides_missing_" + d, inputs="the %s tag of the triple absent" % d, bounds="missing member -> error", timeout=300, covers_unsat_ok=["list returned"]) for d in ("NAME", "FLAGS", "VERSION")]
    + [MH("c05_scriptlets_all", inputs="all eight scriptlets present: text 2 symbolic characters, flags any u32, two-word interpreter each", timeout=600,
          bounds="every scriptlet getter returns the values recorded under the tags that carry its scriptlet's name")]
    + [MH("c05_scriptlet_" + x, inputs="only the %s scriptlet present (text, flags, interpreter symbolic)" % x, timeout=600, bounds="its getter returns exactly those values")
       for x in ("prein", "postin", "preun", "postun", "pretrans", "posttrans", "preuntrans", "postuntrans")]
    + [MH("c05_fentries_%d_%s" % (n, l), inputs="%d files; every per-file tag present with symbolic contents; sizes %s; decoy package-total tags" % (n, l), timeout=600,
          bounds="get_file_entries: each entry carries its own mtime/size/flags/owner/link/path") for n in (1, 2) for l in ("u32", "long")]
    + [MH("c05_paths_missing_" + m, inputs="one member of the BASENAMES/DIRINDEXES/DIRNAMES triple absent", bounds="missing member -> error", timeout=300,
          covers_unsat_ok=["paths returned", "error returned"]) for m in ("BASENAMES", "DIRINDEXES", "DIRNAMES")]
    + _hdrt("c05", "decoded data and every typed getter vs the independent decoder on typed shapes (two items per entry: first-item getters return the FIRST item)")
    + [MH("c05_hdr_bin_18_0", inputs="as c05_hdr_18_0, store bytes 0..255", bounds="non-UTF-8 data for the non-string types", timeout=900,
          covers_unsat_ok=["accepted with an entry", "header rejected"] + ["decoded a %s entry" % t for t in ("Null", "Char", "Int8", "Int16", "Int32", "Int64", "StringTag", "Bin", "StringArray", "I18NString")])],
    "bounds": "headers with one entry of any type, any offset/count, store up to 8 bytes: decoded data vs an independent decoder, every typed getter of Header (right type -> that value, wrong type -> error, absent tag -> TagNotFound)",
    "outside": "changelog and scriptlet accessors; file digests/capabilities/IMA members of get_file_entries; more than one entry per PARSED header (the zipped accessors run on headers built as values); multi-locale i18n selection",
    "assumptions": A_MIR + A_COMMON[:1] + ["string data ASCII (A2)"],
    "technique": None,
}

# ------------------------------------------------------------------------------------------ C02 (MIR engine)
PROPERTIES["C02"] = {
    "harnesses": [
        MH("c02_verify_legacy", timeout=1800, inputs="54 shapes without an OpenPGP array: OPENPGP absent/wrong type x RSA, DSA, PGP absent/binary/wrong type; signature bytes, payload, accept pattern symbolic",
           bounds="legacy signature tags", covers_unsat_ok=["verifier consulted twice"]),
        MH("c02_verify_openpgp", timeout=3600, inputs="81 shapes with an OpenPGP string array of 0,1,2 items x legacy tags; decode result and accept pattern symbolic",
           bounds="OpenPGP array present", covers_unsat_ok=["verifier consulted twice"]),
        MH("c02_verify_digest", timeout=1800, inputs="5 shapes with a symbolic SHA256 header digest next to the signatures", bounds="digest check inside verify_signature",
           covers_unsat_ok=["verifier consulted twice"]),
        MH("c02_verify_digest_short", timeout=900, inputs="2 shapes with a recorded SHA256 header digest of 63 symbolic characters", bounds="a digest of the wrong length never lets verify_signature succeed",
           covers_unsat_ok=["verifier consulted twice", "verification succeeds", "verification fails"]),
        MH("c02_verify_digest_both", timeout=900, inputs="2 shapes with both a SHA1 and a SHA256 header digest recorded, each symbolic", bounds="both recorded header digests must match for verify_signature to succeed",
           covers_unsat_ok=["verifier consulted twice"]),
        MH("c02_verify_digest_empty", timeout=900, inputs="1 shape with an empty recorded SHA256 header digest", bounds="a digest of the wrong length never lets verify_signature succeed",
           covers_unsat_ok=["verifier consulted twice", "verification succeeds", "verification fails"]),
    ],
    "bounds": "all 135 combinations of {OPENPGP: absent, wrong type, array of 0/1/2 entries} x {RSA, DSA, PGP: absent, binary, wrong type}; signature and payload bytes symbolic; every accept/reject pattern of the verifier; base64 decoding = error or arbitrary bytes of length 0/3/6; one-entry main header",
    "outside": "the second sentence of the property (tamper detection for packages signed by this library) rests on collision resistance and signature unforgeability - not a solver question; real OpenPGP parsing/crypto (the Verifying trait is the seam); more than two OpenPGP entries",
    "assumptions": A_MIR + [A_UF, "S6: the verifier is an arbitrary implementation of the public Verifying trait (accept/reject per call chosen by the solver, records the bytes shown)",
                            "S7: signatures::decode_sig (pgp crate's base64 reader) replaced by error-or-arbitrary-bytes"],
    "technique": None,
}

# ------------------------------------------------------------------------------------------ C09 (MIR engine)
_C09V = ["Char", "Int8", "Int16", "Int32", "Int64", "StringTag", "Bin", "StringArray", "I18NString"]
_C09_QUICK_PAIRS = {("StringTag", "Int64"), ("Int8", "Int32"), ("Int8", "Int16"), ("StringArray", "Int16"), ("Bin", "Int64"), ("Int32", "Int64"), ("I18NString", "Int32"), ("Char", "StringTag")}
PROPERTIES["C09"] = {
    "harnesses": [MH("c09_build_" + n, inputs="builder scenario %s: file contents and modification times symbolic" % n, timeout=900,
                     bounds="PackageBuilder .. build() from MIR; both emitted headers against the structural validator; rpmlib(FileCaps) declared when capabilities are present")
                  for n in ("empty", "files2", "files2_gzip", "files2_xz", "files2_bzip2", "files2_zstd", "utf8name", "modes", "scriptlets", "scriptlets_plain", "deps", "caps_first", "caps_last") + tuple("dep_" + k for k in ("requires", "provides", "obsoletes", "conflicts", "recommends", "suggests", "enhances", "supplements"))]
    + [MH("c09_one_" + a, inputs="one record of type %s, tag and contents symbolic" % a, bounds="Header::from_entries with one record", timeout=600) for a in _C09V]
    + [MH("c09_pair_%s_%s" % (a, b), tier=("quick" if (a, b) in _C09_QUICK_PAIRS else "thorough"), timeout=900,
          inputs="two records of types %s and %s, tags symbolic (distinct), contents symbolic" % (a, b), bounds="Header::from_entries with two records") for a in _C09V for b in _C09V]
    + [MH(n, inputs="three records", bounds="Header::from_entries with three records", timeout=900) for n in ("c09_triple_str_i16_i64", "c09_triple_i8_i32_strs")]
    + [MH("c09_sig_pair", inputs="signature-header instance", bounds="Header::<IndexSignatureTag>::from_entries", timeout=900), MH("c09_empty", inputs="no records", bounds="empty header", timeout=300)]
    + [MH("c09_lead_%d" % n, inputs="package name of %d symbolic bytes" % n, bounds="Lead::new + Lead::write", timeout=300) for n in (0, 1, 3, 65, 66, 70)]
    + [MH("c09_sigpad", inputs="data section size: any u32", bounds="padding_required: 0..7 and aligns to 8", timeout=300)]
    + [MH("c09_clear_%d_%s" % (h, s), inputs="package with %d header store bytes, previous signature header %s" % (h, s), timeout=300,
          bounds="signature header emitted by Package::clear_signatures vs the strict validator") for h in (0, 3) for s in ("empty", "stale")],
    "bounds": "Header::from_entries for every ordered pair of the nine data types (1-2 items each), two triples, both tag instantiations; Lead::new for names of 0..70 bytes; signature padding is decided under C01 (c01_sigpad_*)",
    "outside": "whole packages from the builder (record selection, rpmlib() requirements) and the cpio payload writer: PackageBuilder::prepare_data is outside reach (DESIGN.md C06/C07); records with zero items",
    "assumptions": A_MIR + ["oracle: strict validator after rpm's hdrblobVerifyInfo/hdrblobVerifyRegion (region tag first, BIN count 16, trailer at the end of the store pointing back over all entries, tags strictly ascending, type alignment, in-range non-overlapping data, count != 0, terminated strings) + parse-back of the written bytes"],
    "technique": None,
}

# ------------------------------------------------------------------------------------------ C17 (MIR engine; partial)
PROPERTIES["C17"] = {
    "harnesses": [MH("c17_dest_%d" % n, inputs="destination of %d characters over {'/', '.', 'a'} (every string), 2 symbolic content bytes" % n,
                     bounds="PackageBuilder::add_data (the part of with_file after reading the source)", timeout=900, tier=("quick" if n <= 5 else "thorough"),
                     covers_unsat_ok=["destination accepted", "destination rejected"]) for n in range(0, 7)]
    + [MH("c17_caps_" + n, inputs="capability text of shape " + n, bounds="FileOptionsBuilder::caps", timeout=600, covers_unsat_ok=["capabilities accepted", "capabilities rejected"])
       for n in ("sym2", "sym3", "chown_sym2", "two", "nonascii_a", "nonascii_b", "nonascii_c", "nonascii_d", "nonascii_e")]
    + [MH("c17_name_%d" % n, inputs="package name of %d symbolic lower-case letters" % n, bounds="PackageBuilder::new(name, ..).build(): the lead keeps 65 name bytes", timeout=600) for n in (64, 65, 66, 67, 300)]
    + [MH("c17_version_300", inputs="version of 300 symbolic lower-case letters", bounds="PackageBuilder::new(.., version, ..).build()", timeout=600)]
    + [MH("c17_level_" + w, inputs="compression level: every %s value" % ("i32" if w == "zstd" else "u32"), bounds="Compressor::try_from(CompressionWithLevel::%s(level))" % w.capitalize(), timeout=300,
          covers_unsat_ok=["level accepted", "level rejected"]) for w in ("gzip", "xz", "bzip2", "zstd", "none")],
    "bounds": "every destination string of up to 6 characters over {'/', '.', 'a'}; capability text shapes as in C19 (subset) plus five literal texts with multi-byte characters; package names of 64..67 and 300 bytes; every 32-bit compression level for each compressor",
    "outside": "what the encoders do after construction (C libraries behind FFI): only the level check of their Rust constructors is modelled (contract stubs read from the pinned crate sources, validated against the real constructors on every run); "
               "the metadata setters take any String and store it (no failure path); reading the source file (file system)",
    "assumptions": A_MIR + ["std::path is modelled (Unix component rules: root, '.', '..', repeated separators); the model is validated on every run against the real builder on 78 concrete destinations",
                            "BTreeMap/BTreeSet membership is modelled, ordering is not (irrelevant for panic-freedom)"],
    "technique": None,
}

# ------------------------------------------------------------------------------------------ C12 (MIR engine; partial: containment and no panic)
_C12_LINK = [(k, a, b) for k in ("regular", "dir", "symlink") for (a, b) in ((1, 1), (1, 3), (2, 2), (2, 4), (2, 5), (3, 5))]
PROPERTIES["C12"] = {
    "harnesses": [MH("c12_positive_" + k, inputs="one %s entry at /<x><y> (two symbolic letters), permission bits any 12 bits, 2 symbolic content bytes / 2-letter link target" % k, timeout=600,
                     bounds="where extraction returns Ok: the file-system calls made at target+path are create+write(content)+chmod(bits) / mkdir+chmod / symlink(target)") for k in ("regular", "dir", "symlink", "dir_pre")]
    + [MH("c12_dirs_%d" % n, inputs="one directory name of %d characters over {'/', '.', 'a'} (every string), no files" % n, bounds="Package::extract, DIRNAMES pre-creation", timeout=600,
                     covers_unsat_ok=["extraction succeeds", "extraction returns an error"]) for n in (1, 2, 3, 4, 5)]
    + [MH("c12_file_%s_%d" % (k, n), inputs="one %s entry with a path of %d characters over {'/', '.', 'a'} (every string)" % (k, n), bounds="Package::extract, one file entry", timeout=900, tier=("quick" if n <= 5 else "thorough"),
          covers_unsat_ok=["extraction succeeds", "extraction returns an error"]) for k in ("regular", "dir", "symlink", "special") for n in (2, 4, 5, 6)]
    + [MH("c12_link_then_%s_%d_%d" % (k, a, b), inputs="a symbolic-link entry with a path of %d characters followed by a %s entry with a path of %d characters, both over {'/', '.', 'a', 'b'} (every pair)" % (a, k, b),
          bounds="Package::extract, two file entries", timeout=1800, tier=("quick" if a + b <= 6 else "thorough"), covers_unsat_ok=["extraction succeeds", "extraction returns an error"]) for (k, a, b) in _C12_LINK],
    "bounds": "one directory name up to 5 characters; one file entry with a path up to 6 characters (5 in the quick tier); a symbolic link followed by one more entry (paths up to 3 and 5 characters; 2 and 4 in the quick tier); characters over {'/', '.', 'a'(, 'b')}",
    "outside": "what the kernel does with the calls (the positive half is decided at the level of which calls are made with which arguments); more than two entries; hard links, "
               "time-of-check/time-of-use races with other processes; reading the payload (Package::files is replaced by a list of entries: covered under C04 cpio harnesses)",
    "assumptions": A_MIR + ["file system = recording stub: every call may succeed or fail, exists() answers arbitrarily; the target directory is fresh (create_dir succeeded), so everything below it was made by this run and "
                            "symlink_metadata answers from the model's set of links created so far",
                            "containment oracle: every mutating call gets a path that is lexically below the target (no '..'), does not lead through a link created earlier, and, for calls that follow a final link "
                            "(File::create, set_permissions, create_dir_all), is not itself such a link",
                            "std::path is modelled (Unix component rules), validated on every run against the real crate on concrete inputs (C17 validation set)"],
    "technique": None,
}

# ------------------------------------------------------------------------------------------ C11 (MIR engine; partial: in-process reproducibility and clamping)
PROPERTIES["C11"] = {
    "harnesses": [MH("c11_sign_%d" % k, inputs="%d file(s); source date, mtimes, contents symbolic; stub signer recording the time stamp it is given" % k, timeout=900,
                     bounds="build_and_sign: the signature time stamp handed to the signer is at most the source date", covers_unsat_ok=["package built and signed", "signer consulted"]) for k in (1, 2)]
    + [MH("c11_repro_" + n, inputs=inp, bounds="PackageBuilder::new .. add_data .. build() .. Package::write, all from MIR; two runs = same inputs under two independent environments", timeout=to, tier=tier,
                     covers_unsat_ok=["package built", "more than one environment explored"])
                  for (n, inp, to, tier) in (("root1", "one root-owned file: content byte, mtime, source date symbolic", 600, "quick"),
                                             ("user1", "one file owned by a:g: content byte, mtime, source date symbolic", 600, "quick"),
                                             ("user2", "two files owned by a:g and b:h: content bytes, mtimes, source date symbolic", 900, "quick"),
                                             ("user3", "three files owned by a:g, b:h, c:g", 1800, "quick"),
                                             ("dirs2", "two root-owned files in two directories (/d/f0, /e/f1)", 900, "quick"),
                                             ("late_sd", "two files, the source date set after the files were added", 900, "quick"),
                                             ("host", "one root-owned file, build_host set (no cookie given)", 600, "quick"),
                                             ("duprec", "two files owned by a:g and b:h plus an explicit recommends(Dependency::user(\"a\")): the same dependency twice", 1800, "quick"),
                                             ("hostcookie", "one root-owned file, build_host and cookie set", 600, "thorough"),
                                             ("dirs3", "three files in three directories at different depths, one owned by a:g", 3600, "thorough"),
                                             ("sym2", "two files whose owner and group names are symbolic lower-case letters (every combination)", 7200, "thorough"))],
    "bounds": "up to three files with one content byte each; no compression; user/group names literal (quick) or one symbolic letter (thorough); source date, modification times symbolic; "
              "build_and_sign with a stub signer for the signature time stamp",
    "outside": "the bytes of signed packages (the signature is real OpenPGP: after the signer was handed its time stamp the harness cuts at SignatureHeaderBuilder::add_openpgp_signature); "
               "across processes (the model makes every HashSet iteration order and every clock reading arbitrary, which covers what a fresh process changes for this code, but TZ, working directory and the "
               "file system are not modelled); signing (real OpenPGP); compressed payloads (FFI); larger configurations",
    "assumptions": A_MIR + ["environment stub: Timestamp::now returns an arbitrary instant, fresh per call, not earlier than the source date (a source date lies in the past; with a future source date the build time is the clock by design)",
                            "environment stub: iterating a HashSet/HashMap yields its elements in an arbitrary permutation chosen by the solver, independently per iteration (RandomState)",
                            "two builds are compared by renaming the environment variables of the second; equality of output bytes is proved by congruence plus solver queries on the sub-terms that contain environment variables; "
                            "a difference that could only be excluded by reasoning inside a digest function counts as a difference", A_UF],
    "technique": None,
}

# ------------------------------------------------------------------------------------------ C06 / C07 (MIR engine; partial: the builder itself runs from MIR)
_A_BUILD = ["the builder runs from MIR: PackageBuilder::new, the setters, add_data (what with_file does after reading the source), prepare_data, build, Header::from_entries, the cpio writer; "
            "environment stubs: clock (arbitrary instant per call), HashSet iteration order (arbitrary permutation), no compression (CompressionType::None; the compressors are FFI)",
            "accessors and Package::files run from MIR on the built Package value; that writing and re-parsing preserves the headers is what C01/C05 decide", A_UF]
_C06_STR = ("release", "url", "vcs", "description", "vendor", "packager", "group", "build_host", "cookie")
PROPERTIES["C06"] = {
    "harnesses": [MH("c06_required", inputs="name, version, licence, architecture, summary: 1 symbolic character each; epoch any u32", bounds="constructor arguments read back by their accessors", timeout=600)]
    + [MH("c06_str_" + f, inputs="the five required strings and %s: 1 symbolic character each; epoch any u32" % f, bounds="builder.%s(x) read back by get_%s()" % (f, f), timeout=600) for f in _C06_STR]
    + [MH("c06_all_strings", inputs="all fourteen string fields, 1 symbolic character each", bounds="all string setters together", timeout=900),
       MH("c06_scriptlets_prog1", inputs="eight scriptlets with a one-word interpreter", bounds="scriptlet setters vs scriptlet accessors", timeout=900),
       MH("c06_scriptlets_prog3", inputs="two scriptlets with a three-word interpreter", bounds="scriptlet setters vs scriptlet accessors", timeout=900),
       MH("c06_scriptlets_prog", inputs="eight scriptlets: text 2 symbolic characters, flags any u32, interpreter of two 1-character words", bounds="scriptlet setters vs scriptlet accessors", timeout=900),
       MH("c06_scriptlets_plain", inputs="eight scriptlets: text 2 symbolic characters, flags any u32, no interpreter", bounds="scriptlet setters vs scriptlet accessors", timeout=900),
       MH("c06_fileopts_flags", inputs="every ordered pair of the FileOptions flag methods", bounds="flags = union of both methods' flags", timeout=300),
    ] + [MH("c06_deps_" + k, inputs="one %s dependency and none of the other kinds: name, version 1 symbolic character, flags any u32" % k, bounds="a dependency kind used alone", timeout=600)
         for k in ("requires", "provides", "obsoletes", "conflicts", "recommends", "suggests", "enhances", "supplements")] + [
       MH("c06_deps_all", inputs="two dependencies per kind (eight kinds): name, version 1 symbolic character, flags any u32", bounds="dependency setters vs accessors (in order, among the builder's own entries)", timeout=900),
       MH("c06_with_file_inherit", inputs="stubbed source file: content byte, st_mode (any regular-file mode), mtime symbolic", bounds="with_file with the mode inherited from the source file", timeout=600),
       MH("c06_with_file_explicit", inputs="stubbed source file plus an explicit mode (any permission bits)", bounds="with_file with an explicit mode", timeout=600),
       MH("c06_files_misc", inputs="a symbolic link (target 2 symbolic letters), a file with capabilities, a './'-style destination, a file directly under the root", bounds="add_data vs get_file_entries: paths, link target, capabilities", timeout=600),
       MH("c06_verify_script", inputs="verify_script(Scriptlet): text 2 symbolic characters, flags any u32, one-word interpreter", bounds="the %verifyscript tags of the built header (no accessor exists)", timeout=600),
       MH("c06_files_1", inputs="one file: permission bits, flags, mtime, content byte, source date symbolic", bounds="add_data vs get_file_entries", timeout=900),
       MH("c06_files_2", inputs="two files: permission bits, flags, mtimes, content bytes, source date symbolic", bounds="add_data vs get_file_entries", timeout=1800)]
    + [MH("c06_changelog_%d" % n, inputs="%d changelog entries: author, text 1 symbolic character, time any u32" % n, bounds="add_changelog_entry vs get_changelog_entries (order kept)", timeout=600) for n in (0, 1, 2, 3)],
    "bounds": "strings of 1 symbolic printable ASCII character (scriptlet text 2); every u32 for epoch and flag words; up to two files with one content byte; no compression; unsigned",
    "outside": "longer, empty, multi-line and multi-byte strings; every compression type; signing; "
               "the write -> parse leg (C01/C05 decide that parsing returns what was written)",
    "assumptions": A_MIR + _A_BUILD,
    "technique": None,
}
PROPERTIES["C07"] = {
    "harnesses": [MH("c07_rt_" + "_".join(map(str, sz)), inputs="files of %s symbolic content bytes" % "/".join(map(str, sz)), timeout=900,
                     bounds="PackageBuilder .. build() then Package::files() / FileIterator::next: cpio writer and reader, padding at every size mod 4, order by path") for sz in ((0,), (1,), (3,), (4,), (5,), (2, 3), (4, 0), (1, 2, 3))]
    + [MH("c07_rt_utf8_3_2", inputs="files of 3/2 symbolic content bytes whose base names contain a two-byte UTF-8 character", timeout=900, bounds="as c07_rt_*: name length in bytes differs from the character count"),
       MH("c07_rt_ghost_3_2", inputs="files of 3/2 symbolic content bytes, the first flagged %ghost", timeout=900, bounds="as c07_rt_*: the builder archives %ghost files like any other, iteration must return their bytes"),
       MH("c07_rt_ghost_0_1", inputs="files of 0/1 content bytes, the first flagged %ghost", timeout=900, bounds="as c07_rt_*")]
    + [MH("c07_rt_%s_3_2" % c, inputs="files of 3/2 symbolic content bytes, %s compression with a symbolic level" % c, timeout=900, covers_unsat_ok=["package built"],
          bounds="as c07_rt_*, compressor = uninterpreted function, decompressor = its inverse on exactly the compressor's outputs") for c in ("gzip", "xz", "bzip2", "zstd")]
    + [MH("c04_fileiter_%d" % n, role="foreign", inputs="header file size: any 64-bit value; %d symbolic content bytes in a well-formed newc archive" % n, bounds="foreign package: FileIterator::next returns the archive's bytes whatever size the header records", timeout=600)
       for n in (0, 1, 3, 4)],
    "bounds": "up to three files of 0..5 content bytes each (every size mod 4), contents symbolic, uncompressed payload, standard (newc) cpio",
    "outside": "what the compression libraries really do (FFI; compressor/decompressor modelled as an uninterpreted function and its inverse); the stripped (large-file) cpio format on the building side, which needs more than 4 GiB of content; files of more than 5 bytes; names other than /d/f<i> and /d/\u00e9<i>; foreign packages beyond the one-entry harnesses",
    "assumptions": A_MIR + _A_BUILD,
    "technique": None,
}

# ------------------------------------------------------------------------------------------ C13 (MIR -> SMT engine)


def _c13_tier(la, lb):
    return "quick" if la + lb <= 5 and max(la, lb) <= 3 else "thorough"


PROPERTIES["C13"] = {
    "harnesses": [MH("c13_vercmp_%d_%d" % (la, lb), tier=_c13_tier(la, lb), timeout=(600 if la + lb <= 5 else 7200),
                     inputs="two strings of %d and %d symbolic ASCII bytes" % (la, lb),
                     bounds="lengths exactly (%d,%d); result vs rpmvercmp reference, antisymmetry, reflexivity" % (la, lb),
                     covers_unsat_ok=["result Equal on different strings", "result Less", "result Greater"])
                  for la in range(0, 5) for lb in range(la, 5)]
    + [MH("c13_trans_%d_%d_%d" % s, tier=("quick" if sum(s) <= 4 else "thorough"), timeout=(900 if sum(s) <= 4 else 7200),
          inputs="three strings of %d,%d,%d symbolic ASCII bytes" % s, bounds="transitivity on exactly these lengths",
          covers_unsat_ok=["strict chain", "premise a<=b<=c reached"])
       for s in [(1, 1, 1), (1, 1, 2), (1, 2, 1), (2, 1, 1), (1, 2, 2), (2, 1, 2), (2, 2, 1), (2, 2, 2), (0, 1, 2), (2, 1, 0), (1, 0, 2)]]
    + [MH("c13_prefixed_" + k, inputs="literal prefix + symbolic tail on both sides", bounds="shape " + k, timeout=1800, tier=("quick" if k in ("big64", "big_vs_bigger", "zeros", "tilde", "caret", "nonascii_sep", "nonascii_mid", "nonascii_both") else "thorough"))
       for k in ("big64", "big64_2", "big_vs_bigger", "zeros", "dot_big", "alpha_long", "tilde", "caret", "sep_runs", "nonascii_sep", "nonascii_lead", "nonascii_mid", "nonascii_both")]
    + [MH("c13_evr_%d_%d_%d_%d" % s, inputs="two EVRs with symbolic epoch digits, version and release bytes", bounds="epoch lengths %d/%d, version %d, release %d" % s, timeout=1800,
          covers_unsat_ok=["equal pair", "unequal pair"]) for s in [(0, 0, 1, 1), (0, 1, 1, 1), (1, 0, 1, 1), (1, 1, 1, 1), (0, 1, 1, 0), (2, 1, 1, 0)]],
    "bounds": "version strings of up to 4 ASCII bytes each (pairs), up to 2 bytes each (triples), all 127 byte values per position; plus literal long prefixes (19/20-digit runs, long alpha runs, separator runs, tilde/caret) with 1-2 symbolic bytes appended; EVR pairs with epochs of 0..2 digits",
    "outside": "longer strings, non-ASCII characters other than the literal one in the c13_prefixed_nonascii_* shapes, NUL bytes; EVR/NEVRA ordering beyond what the c13_evr_* harnesses list",
    "assumptions": A_MIR,
    "technique": None,
}

# ------------------------------------------------------------------------------------------ C19 (MIR engine)
_C19 = ["sym0", "sym1", "sym2", "sym3", "sym4", "eq_sym3", "chown_sym1", "chown_sym2", "chown_sym3", "SYSLOG_sym2", "all_sym2", "nope_sym2", "list_sym2",
        "list_trailing_comma_sym2", "sym1_chown_sym2", "two_eq", "two_eq_name", "two_name_eq", "two_name_sym", "two_sym_sym", "three", "ws_around"]
_C19_QUICK = {"sym0", "sym1", "sym2", "sym3", "chown_sym1", "chown_sym2", "all_sym2", "nope_sym2", "list_sym2", "two_eq", "two_name_eq", "two_sym_sym",
              "ws_around", "list_trailing_comma_sym2"}
PROPERTIES["C19"] = {
    "harnesses": [MH("c19_" + n, tier=("quick" if n in _C19_QUICK else "thorough"), timeout=(900 if n in _C19_QUICK else 7200),
                     inputs="capability text of shape " + n, bounds="shape " + n + ": literal capability names plus the stated number of symbolic ASCII bytes (all 127 values each)",
                     covers_unsat_ok=["accepted", "rejected"]) for n in _C19],
    "bounds": "texts built from up to two literal name lists and up to 4 symbolic ASCII bytes (every byte value 0x01..0x7f, so all operators, flags, commas, whitespace kinds and junk), 1..3 clauses",
    "outside": "longer free-form text, non-ASCII whitespace, capability names other than the literals of the shapes (the 41-name table itself is compared by the real code on every path)",
    "assumptions": A_MIR + ["oracle: the grammar of the property statement written as an independent recogniser (engines/harnesses_text.py caps_spec); release semantics (debug_assert! compiled out)"],
    "technique": None,
}

# ------------------------------------------------------------------------------------------ C15 (MIR engine)
_C15_EVR = [(0, 1, 0), (0, 1, 1), (1, 1, 1), (0, 2, 1), (1, 2, 1), (0, 1, 2), (1, 1, 2), (2, 1, 1), (0, 2, 2), (1, 2, 2), (0, 3, 2), (2, 2, 2)]
_C15_NEVRA = [(1, 0, 1, 1, 1), (2, 0, 1, 1, 1), (1, 1, 1, 1, 1), (2, 1, 2, 1, 1), (1, 0, 2, 2, 1), (3, 0, 1, 1, 2), (2, 0, 1, 2, 2)]
_C15_DASH = [(2, 0, 1, 1, 1), (3, 0, 1, 1, 1), (3, 1, 1, 1, 1)]
PROPERTIES["C15"] = {
    "harnesses": [MH("c15_evr_%d_%d_%d" % s, tier=("quick" if sum(s) <= 4 else "thorough"), inputs="epoch/version/release of %d/%d/%d symbolic bytes" % s,
                     bounds="EVR component lengths %d/%d/%d; epoch digits, version/release from [A-Za-z0-9._+~^]" % s, covers_unsat_ok=["round trip with an epoch"]) for s in _C15_EVR]
    + [MH("c15_nevra_%d_%d_%d_%d_%d" % s, tier=("quick" if sum(s) <= 6 else "thorough"), inputs="name/epoch/version/release/arch of %d/%d/%d/%d/%d symbolic bytes" % s,
          bounds="NEVRA component lengths as named; name from [A-Za-z0-9._+] (no '-')") for s in _C15_NEVRA]
    + [MH("c15_nevra_dash_%d_%d_%d_%d_%d" % s, role="nevra_dash", tier=("quick" if sum(s) <= 5 else "thorough"), inputs="name containing at least one '-'",
          bounds="NEVRA component lengths as named; name from [A-Za-z0-9._+-] with at least one '-'") for s in _C15_DASH]
    + [MH("c15_comp_%d" % n, inputs=("each of the 5 variants" if n == 0 else "text of %d symbolic ASCII bytes" % n),
          bounds=("variant names" if n == 0 else "text length %d" % n), covers_unsat_ok=["rejected"]) for n in range(0, 6)]
    + [MH("c15_nopanic_%s_%d" % (w, n), inputs="text of %d symbolic ASCII bytes" % n, bounds="text length %d" % n, tier=("quick" if n <= 3 else "thorough"))
       for w in ("evr", "nevra") for n in range(0, 5)],
    "bounds": "EVR/NEVRA components of up to 3 bytes each over the character sets rpm allows in those fields; compression type names: all 5 variants and all texts up to 5 bytes; parse no-panic on all texts up to 4 bytes",
    "outside": "longer components; non-ASCII; characters rpm itself rejects in version/release (':' '-' ...); Nevra normalised/nvra forms",
    "assumptions": A_MIR + ["fmt: `write!`/`format!` are modelled by decoding this toolchain's compact format template (literal pieces and plain `{}` arguments only); Display of &str/String/Cow/char is the identity"],
    "technique": None,
}

# ------------------------------------------------------------------------------------------ texts for MANIFEST.json
_NOTE = ("Holds for all inputs within the stated bounds only (see evidence.coverage.bounds / outside_bounds). Trusted base: Kani's MIR->GOTO "
         "translation, CBMC, CaDiCaL, the stubs and assumptions listed in evidence.assumptions (DESIGN.md §4), and the harness oracles. "
         "Kani models the dev profile; release behaviour is exercised by the replay step only.")

PROPERTIES["C18"].update(claim="Complete over the property's domain: the solver covers every 16-bit mode word and every 32-bit integer; "
                         "no loop or size bound restricts the inputs, so this is exhaustive symbolic checking of the conversion functions.", note=_NOTE)
PROPERTIES["C20"].update(claim="All instants within 2^40 s of the epoch (SystemTime) / 2^34 s (chrono, six fixed offsets) at nanosecond resolution are covered "
                         "symbolically, including both sides of 0 and 2^32; instants further away are outside the bound.", note=_NOTE)
PROPERTIES["C16"].update(claim="The offset arithmetic is decided for all intro-field values below 2^31 bytes per header; real written bytes are checked "
                         "for one-entry headers with every store size mod 8. The link between intro fields and vector lengths is an assumption here.", note=_NOTE)
PROPERTIES["C14"].update(claim="Every write function of the serializer is run against a scripted sink with fixed chunk size K in {1..5, whole}, a hard failure at a "
                         "symbolic call (K=1: any byte offset) and an Interrupted at a symbolic call; contents symbolic; bounded to one-entry headers.", note=_NOTE)
PROPERTIES["C01"].update(claim="Level U: lead, header intro and index entry codecs are decided over all of their input bytes (2^768 / 2^128 inputs), padding for every "
                         "store size; Level H harnesses cover whole headers for the listed shapes only.", note=_NOTE)
PROPERTIES["C04"].update(claim="Absence of panics, arithmetic overflow and out-of-bounds access is decided (implicit checks of the model checker) for all bytes of "
                         "the fixed-size segments incl. truncated slices, for every accessor on every variant, and for the listed whole-header shapes.", note=_NOTE)

NOT_APPLICABLE = {
    "C10": "every step goes through real OpenPGP packet parsing and public-key cryptography (RSA/EdDSA/ECDSA big-number arithmetic), outside SAT reach; an abstract signer cannot produce packets the real parser accepts",
}

PROPERTIES["C13"].update(claim="compare_version_string is symbolically executed from its MIR for every pair of ASCII strings up to the stated lengths (all 127 values per byte): "
                         "result equals an independent transliteration of rpm's rpmvercmp, is antisymmetric and reflexive; transitivity on triples up to 2 bytes each.",
                         note="Bounded by string length and to ASCII. Trusted base: the MIR interpreter and its std models (validated against the real crate on concrete inputs every run), z3, the rpmvercmp transliteration.")

C03_KANI.update(claim="verify_digests is model-checked on a package of fixed small shape for each of the 16 subsets of digest tags with every recorded digest value and "
                         "algorithm id symbolic: Ok exactly when all recorded values equal the recomputed ones, DigestMismatchError on a mismatch, error for other algorithm ids.",
                         note=_NOTE)

PROPERTIES["C08"].update(claim="The hashing writer used for the alternate payload digest is model-checked: for data of 1..4 symbolic bytes pushed with write_all through an inner sink "
                         "that accepts 1/2/3/all bytes per call, the recorded digest equals SHA-256 (portable back end, compression stubbed in the quick tier) of the bytes the sink received. "
                         "On the MIR engine (SHA-256 as an uninterpreted function of the exact bytes hashed): every digest a build records - header digest, payload digest, alternate payload digest, "
                         "per-file digests - and the header digest after clear_signatures name the bytes the property says, for uncompressed packages with up to three small files.", note=_NOTE)

_NOTE_MIR = ("Bounded by the listed shapes (component lengths) and to ASCII. Trusted base: the MIR interpreter and its models of std functions (validated on every run against the "
             "real compiled crate on concrete inputs), z3, the oracle written from the property statement. Release semantics (debug assertions off, overflow checks on).")
PROPERTIES["C19"].update(claim="validate_caps_text / FileCaps::from_str are symbolically executed from their MIR on texts made of literal capability-name lists plus up to 4 fully symbolic "
                         "ASCII bytes in 1..3 clauses; acceptance is compared on every path with an independent recogniser of the grammar in the property statement; accepted text kept verbatim; no panic.",
                         note=_NOTE_MIR)
PROPERTIES["C15"].update(claim="EVR and NEVRA Display + parse are symbolically executed from MIR for all component values up to 3 bytes over rpm's legal character sets: components come back identical, "
                         "normalised EVR carries an epoch; every CompressionType variant parses from its own name and every accepted name is a variant's own name; parse never panics on texts up to 4 bytes.",
                         note=_NOTE_MIR)

PROPERTIES["C03"].update(claim="Package::verify_digests is symbolically executed from its MIR for each of the 16 subsets of digest tags with every recorded value, the algorithm id, header store and payload bytes symbolic; "
                         "digests are uninterpreted functions of the hashed bytes, so 'which bytes are hashed and what is compared' is decided exactly: Ok iff every present recorded value equals the recomputed one and the "
                         "algorithm is SHA-256; a wrong digest gives DigestMismatchError; no panic.", note=_NOTE_MIR)
PROPERTIES["C05"].update(claim="Per-type decoders are model-checked with Kani; whole one-entry headers of any type/offset/count are symbolically executed from MIR and the decoded data and every typed getter are compared "
                         "with an independent decoding of the same bytes (big-endian integers at full length, strings up to the terminator, string arrays item by item, type mismatch and absent tag -> error).", note=_NOTE_MIR)

PROPERTIES["C02"].update(claim="Package::verify_signature is symbolically executed from MIR against a recording implementation of the public Verifying trait for all 135 signature-header shapes and all accept/reject patterns: "
                         "success implies at least one call, every call accepted, each call shown exactly the serialised header (header+payload for the PGP tag) and the stored signature bytes, and matching digests; "
                         "conversely a well-typed, accepted signature verifies. The cryptographic corollary is outside reach.", note=_NOTE_MIR)
PROPERTIES["C09"].update(claim="Header::from_entries (sorting, offset assignment, alignment, region tag and trailer) is symbolically executed from MIR for every ordered pair of data types and checked by a strict validator "
                         "modelled on rpm's own header verification, plus parse-back of the emitted bytes; Lead::new for names of 0..70 bytes. Whole builder output and the cpio writer are outside reach.", note=_NOTE_MIR)

PROPERTIES["C06"].update(claim="Partial: the builder runs from MIR; for every value within the bounds each string field, the epoch, the eight scriptlets (text, flags, interpreter), the dependencies of all eight kinds (in order) and "
                         "each file's path, mode, owner, group, flags, size, content digest and clamped modification time are returned unchanged by the matching accessor of the built package. "
                         "Changelog, capabilities, link targets, compression types, signing and the write/parse leg are outside the claim.", note=_NOTE_MIR)
PROPERTIES["C07"].update(claim="Partial: for packages built by this library (uncompressed, standard cpio, up to three files of 0..5 symbolic bytes covering every size mod 4) Package::files() yields every file's exact content "
                         "under its own path, size and digest, in path order; for a foreign one-entry archive the iterator returns the archive's bytes whatever size the header records. Compression and the large-file format are outside reach.", note=_NOTE_MIR)
PROPERTIES["C11"].update(claim="Partial (in-process reproducibility and clamping): the builder itself (new, add_data, build, write) is symbolically executed from MIR with the clock and every hash-set iteration "
                         "order as arbitrary environment choices: for the listed configurations any two builds of the same inputs produce the same bytes, and BUILDTIME and every file mtime are at most the source date. "
                         "Signing, compression and cross-process effects other than hash seeds and the clock are outside reach.", note=_NOTE_MIR)
PROPERTIES["C12"].update(claim="Partial (containment, panic-freedom, and the positive half at call level): Package::extract is symbolically executed from MIR against a recording file-system stub with the extraction's own symbolic links as state: "
                         "for every directory name / entry path within the bounds, every path handed to a mutating file-system call is below the target, never through or onto a link an earlier entry created, and the call "
                         "returns Ok or Err; for a benign entry whose extraction succeeds the calls made are the ones that create it at target+path with the archived content, permission bits or link target. "
                         "What the kernel does with those calls is outside reach.", note=_NOTE_MIR)
PROPERTIES["C17"].update(claim="Partial: the builder's destination handling (PackageBuilder::add_data) is symbolically executed from MIR for every destination string up to 6 characters over {'/', '.', 'a'}: "
                         "it returns Ok or InvalidDestinationPath, never panics; FileOptionsBuilder::caps reports invalid capability text as InvalidCapabilities; Compressor::try_from hands the gzip/xz/bzip2 encoder constructors only levels they accept, for every 32-bit level "
                         "(constructor contracts as stubs; the encoders themselves are FFI and outside reach).", note=_NOTE_MIR)
