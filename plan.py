"""Plan of the checks: which harnesses decide which property, in which tier, under which bounds.
Imported by ./check. Harness sources live in /verif/harness/*.rs (Kani) and /verif/engines (MIR->SMT)."""

SOFT = '--cfg feature="force-soft"'

GROUPS = {
    "mir": {"features": [], "rustflags": "", "lazy": True},
    # S4: portable hash back ends everywhere (the cfg only affects sha1/sha2/md-5)
    "plain": {"features": [], "rustflags": SOFT},
    "chrono": {"features": ["chrono"], "rustflags": SOFT},
    "pgp": {"features": ["signature-pgp"], "rustflags": SOFT, "lazy": False},
}

MOUNTS = {
    "root": "verif_kani",
    "header": "headers::header::verif_kani",
    "payload": "payload::verif_kani",
    "version": "version::verif_kani",
    "filecaps": "filecaps::verif_kani",
}


def full_name(h):
    sub = h.get("sub")
    base = MOUNTS[h.get("mount", "root")]
    return base + "::" + (sub + "::" if sub else "") + h["name"]


def H(name, group="plain", mount="root", tier="quick", role="main", timeout=300, **kw):
    d = {"name": name, "group": group, "mount": mount, "tier": tier, "role": role, "timeout": timeout}
    d.update(kw)
    return d


A_COMMON = [
    "A4: Kani models the dev profile (overflow checks and debug_assert! on), allocation never fails; release behaviour is exercised only by the replay step",
    "trusted: Kani 0.68 MIR->GOTO translation, CBMC 6.11 symbolic execution and bit-blasting, CaDiCaL",
]
A_S1 = "S1: alloc::fmt::format stubbed to return an empty String (error-message text is not part of the property)"
A_FORGET = "A1: results are mem::forget-ed at harness end (drop glue not executed)"
A_SHAPES = "A3: lengths/counts/types enumerated as listed harness instantiations; contents symbolic inside each shape"

PROPERTIES = {}

# ------------------------------------------------------------------------------------------ C18
PROPERTIES["C18"] = {
    "harnesses": [
        H("c18_u16", inputs="w: any u16 (2^16 values)", bounds="none: whole domain", timeout=120),
        H("c18_i32", inputs="r: any i32 (2^32 values)", bounds="none: whole domain", timeout=120),
        H("c18_ctor", inputs="p: any u16", bounds="none: whole domain", timeout=120),
        H("c18_twin", role="twin", timeout=60),
    ],
    "bounds": "none - the solver covers all 2^16 mode words and all 2^32 integers; unwind 48 only bounds the memcmp of the `reason` strings in derived PartialEq",
    "outside": "nothing within the property's domain",
    "exhaustive": True,
    "assumptions": A_COMMON + ["the property's '16-bit range' is taken as the interval the code documents: -32768..=65535"],
}

# ------------------------------------------------------------------------------------------ C20
PROPERTIES["C20"] = {
    "harnesses": [
        H("c20_systemtime_after", inputs="secs: u64 < 2^40, nanos < 10^9", bounds="instants up to 2^40 s after the epoch", timeout=300),
        H("c20_systemtime_before", inputs="secs: u64 < 2^40, nanos < 10^9, not both 0", bounds="instants down to 2^40 s before the epoch", timeout=300),
        H("c20_systemtime_monotone", inputs="two instants, secs < 2^34", bounds="pairs of instants below 2^34 s", timeout=300),
        H("c20_chrono_utc", group="chrono", sub="c20_chrono", inputs="secs: i64 in +-2^34, nanos < 10^9", bounds="|secs| < 2^34 (years 1426..2514)", timeout=900),
        H("c20_chrono_p0530", group="chrono", sub="c20_chrono", inputs="same, FixedOffset +05:30", bounds="|secs| < 2^34", timeout=1800, tier="thorough"),
        H("c20_chrono_m1200", group="chrono", sub="c20_chrono", inputs="same, FixedOffset -12:00", bounds="|secs| < 2^34", timeout=1800, tier="thorough"),
        H("c20_chrono_p1400", group="chrono", sub="c20_chrono", inputs="same, FixedOffset +14:00", bounds="|secs| < 2^34", timeout=1800, tier="thorough"),
        H("c20_chrono_m0100", group="chrono", sub="c20_chrono", inputs="same, FixedOffset -01:00", bounds="|secs| < 2^34", timeout=1800, tier="thorough"),
        H("c20_chrono_p0100", group="chrono", sub="c20_chrono", inputs="same, FixedOffset +01:00", bounds="|secs| < 2^34", timeout=1800, tier="thorough"),
        H("c20_chrono_monotone", group="chrono", sub="c20_chrono", inputs="two instants |secs| < 2^33", bounds="|secs| < 2^33", timeout=1800, tier="thorough"),
        H("c20_twin", role="twin", timeout=120),
    ],
    "bounds": "SystemTime: |t - epoch| < 2^40 s, all nanoseconds; chrono: |secs| < 2^34, all nanoseconds, offsets {0, +-1h, +5:30, -12h, +14h}",
    "outside": "instants beyond those ranges (chrono's calendar arithmetic is division-heavy; the conversion itself only uses timestamp(), which is linear in the stored fields)",
    "assumptions": A_COMMON + [A_SHAPES],
}

# ------------------------------------------------------------------------------------------ C16
PROPERTIES["C16"] = {
    "harnesses": [
        H("c16_arith", inputs="num_entries (< 2^24) and data_section_size (< 2^30) of both headers symbolic", bounds="each header < 2^31 bytes", timeout=120),
    ] + [
        H(n, inputs="tags, offsets, counts, store bytes, payload bytes symbolic", bounds="1 entry per header; store/payload sizes as in the name (sig store, main store, payload)", timeout=300,
          tier=("quick" if i % 3 == 0 else "thorough"))
        for i, n in enumerate(["c16_bytes_0_0_0", "c16_bytes_1_3_2", "c16_bytes_2_0_1", "c16_bytes_3_1_0", "c16_bytes_4_2_3",
                               "c16_bytes_5_5_1", "c16_bytes_6_7_0", "c16_bytes_7_8_2", "c16_bytes_8_4_1", "c16_bytes_9_6_0"])
    ] + [H("c16_twin", role="twin", timeout=60)],
    "bounds": "arithmetic: all intro field values with each header below 2^31 bytes; bytes: headers of one entry, store sizes 0..9 (every residue mod 8), payload 0..3 bytes",
    "outside": "headers >= 2^31 bytes (u32 overflow in the sum); the invariant num_entries == index_entries.len() and data_section_size == store.len() that links the arithmetic to real packages is established by parse/from_entries (C01/C09 harnesses) and assumed here",
    "assumptions": A_COMMON + [A_FORGET, A_SHAPES, "headers are built as struct literals (pub(crate) fields); index_header agrees with the vectors"],
}

# ------------------------------------------------------------------------------------------ C14
C14_SINK = "sink: K bytes accepted per call (K const per harness, 0 = all), hard failure at a symbolic call number, one Interrupted at a symbolic call number"
A_S9 = "S9: the scripted sink overrides write_all with a loop equivalent to std's default write_all over its write (equivalence decided by c14_model_equiv_* for buffers <= 4 bytes); std's write_all itself is trusted"


def _c14(name, what, bounds, timeout=300, tier="quick", **kw):
    return H(name, inputs=what + "; " + C14_SINK, bounds=bounds, timeout=timeout, tier=tier, **kw)


PROPERTIES["C14"] = {
    "harnesses": [
        _c14("c14_entry_k1", "tag, type id 0..9, offset, count", "one index entry; 1 byte per call", covers_unsat_ok=[]),
        _c14("c14_entry_k2", "same", "one index entry; 2 bytes per call", tier="thorough"),
        _c14("c14_entry_k3", "same", "one index entry; 3 bytes per call"),
        _c14("c14_entry_k0", "same", "one index entry; whole buffers"),
        _c14("c14_intro_k1", "num_entries, data_section_size", "one intro; 1 byte per call"),
        _c14("c14_intro_k3", "same", "one intro; 3 bytes per call", tier="thorough"),
        _c14("c14_intro_k0", "same", "one intro; whole buffers"),
        _c14("c14_lead_k1", "92 lead bytes after the magic", "one lead; 1 byte per call", timeout=900),
        _c14("c14_lead_k5", "same", "one lead; 5 bytes per call", timeout=900, tier="thorough"),
        _c14("c14_lead_k0", "same", "one lead; whole buffers", timeout=900, tier="thorough"),
        _c14("c14_header_s3_k1", "entry fields, 3 store bytes", "header, 1 entry, 3 store bytes; 1 byte per call", timeout=900),
        _c14("c14_header_s3_k2", "same", "2 bytes per call", timeout=900, tier="thorough"),
        _c14("c14_header_s3_k0", "same", "whole buffers", timeout=900),
        _c14("c14_header_s0_k1", "entry fields", "header, 1 entry, empty store; 1 byte per call", timeout=900, tier="thorough"),
        _c14("c14_header_s8_k3", "entry fields, 8 store bytes", "header, 1 entry, 8 store bytes; 3 bytes per call", timeout=900, tier="thorough"),
        _c14("c14_sig_s5_k1", "entry fields, 5 store bytes (+3 padding)", "signature header; 1 byte per call", timeout=900),
        _c14("c14_sig_s5_k0", "same", "whole buffers", timeout=900, tier="thorough"),
        _c14("c14_sig_s1_k2", "entry fields, 1 store byte (+7 padding)", "2 bytes per call", timeout=900, tier="thorough"),
        _c14("c14_package_k1", "whole 173-byte package", "lead + 1-entry signature header + 1-entry header + 3 payload bytes; 1 byte per call", timeout=1800),
        _c14("c14_package_k4", "same", "4 bytes per call", timeout=1800, tier="thorough"),
        _c14("c14_package_k0", "same", "whole buffers", timeout=1800, tier="thorough"),
        H("c14_model_equiv_k1", inputs="4 data bytes, length 0..4, fail_at/intr_at 0..8", bounds="two consecutive write_all calls", timeout=1800, tier="thorough", role="model"),
        H("c14_model_equiv_k3", inputs="same", bounds="same", timeout=1800, tier="thorough", role="model"),
        H("c14_model_equiv_k0", inputs="same", bounds="same", timeout=1800, tier="thorough", role="model"),
        H("c14_twin", role="twin", timeout=120),
    ],
    "bounds": "headers of one entry, stores <= 8 bytes, payload 3 bytes; chunk sizes K in {1,2,3,4,5,whole}; failure at any call number (with K=1: at any byte offset); at most one Interrupted at any call number",
    "outside": "larger packages; chunkings that vary from call to call (the 'seeded random sizes' family); more than one Interrupted; sinks violating the Write contract; the read side (parsing from a chunking source) is decided by the c14_source_* harnesses when they are in the plan, otherwise outside",
    "assumptions": A_COMMON + [A_FORGET, A_SHAPES, A_S9],
}

# ------------------------------------------------------------------------------------------ C01
PROPERTIES["C01"] = {
    "harnesses": [
        H("c01_lead", sub="codec", inputs="all 96 lead bytes", bounds="none (complete over the lead)", timeout=600),
        H("c01_intro", sub="codec", inputs="all 16 intro bytes", bounds="none (complete over the intro)", timeout=300),
        H("c01_index_entry", sub="codec", inputs="all 16 entry bytes + 3 trailing bytes", bounds="none (complete over one index entry, IndexTag instance)", timeout=300),
        H("c01_index_entry_sig", sub="codec", inputs="all 16 entry bytes", bounds="none (IndexSignatureTag instance)", timeout=300),
        H("c01_type_ids", sub="codec", inputs="type id: any u32", bounds="none", timeout=120),
        H("c01_sigpad_arith", sub="codec", inputs="store size: any u32", bounds="none", timeout=120),
    ] + [H("c01_sigpad_write_%d" % i, sub="codec", inputs="%d store bytes" % i, bounds="signature header without entries, store of %d bytes" % i,
           timeout=300, tier=("quick" if i in (0, 3, 8) else "thorough")) for i in range(10)]
    + [H("c01_twin", sub="codec", role="twin", timeout=120)],
    "bounds": "Level U: every byte of lead, header intro and index entry symbolic (complete over those segments); padding for every store size; Level H (whole headers through Header::parse) see harness list",
    "outside": "Level H beyond the listed shapes: headers with more than the listed number of entries / store bytes; compressed payload contents (opaque bytes to parse/write)",
    "assumptions": A_COMMON + [A_S1, A_FORGET, A_SHAPES],
}

# ------------------------------------------------------------------------------------------ C04
PROPERTIES["C04"] = {
    "harnesses": [
        H("c04_lead", sub="codec", inputs="all 96 lead bytes", bounds="none", timeout=600),
        H("c04_lead_len", sub="codec", inputs="96 bytes, slice length 0..96 symbolic", bounds="none", timeout=900, tier="thorough"),
        H("c04_intro", sub="codec", inputs="16 bytes, slice length 0..16 symbolic", bounds="none", timeout=300),
        H("c04_index_entry", sub="codec", inputs="16 bytes, slice length 0..16 symbolic", bounds="none", timeout=300),
    ] + [H("c04_echo_%d" % i, sub="codec", inputs="%d signature bytes" % i, bounds="signature blob of %d bytes" % i, timeout=120) for i in (0, 1, 4, 5, 6)]
    + [H("c04_accessors_%d" % i, sub="codec", inputs="variant 0..9 symbolic, %d items" % i, bounds="%d items" % i, timeout=300) for i in (0, 1, 2)]
    + [H("c04_twin", sub="codec", role="twin", timeout=120)],
    "bounds": "Level U: every byte of lead / intro / index entry symbolic incl. truncated slices; accessors on every variant with 0..2 items; echo helper on blobs of 0..6 bytes",
    "outside": "see DESIGN.md C04: compressed payload decoders (C libraries), OpenPGP packet parsing, headers beyond the listed Level-H shapes",
    "assumptions": A_COMMON + [A_S1, A_FORGET, A_SHAPES],
}


# ------------------------------------------------------------------------------------------ C13 (MIR -> SMT engine)
A_MIR = [
    "engine: own symbolic executor over rustc's MIR dump of /repo (regenerated on every run), z3 for path feasibility; every data-dependent branch is forked, so each path has a concrete result",
    "trusted: the MIR interpreter (engines/symex.py), the models of the std functions it calls (listed per harness under extra.intrinsics), z3; the translator is validated on every run by pushing >150 concrete inputs (the repo's own test vectors and random ones) through both the interpreter and the real compiled crate",
    "strings are ASCII: every byte in 0x01..0x7f (multi-byte UTF-8 and NUL are outside the bound)",
]


def MH(name, tier="quick", timeout=900, **kw):
    return H(name, engine="mirsmt", group="mir", mount="mir", tier=tier, timeout=timeout, **kw)


def _c13_tier(la, lb):
    return "quick" if la + lb <= 5 and max(la, lb) <= 3 else "thorough"


PROPERTIES["C13"] = {
    "harnesses": [MH("c13_vercmp_%d_%d" % (la, lb), tier=_c13_tier(la, lb), timeout=(600 if la + lb <= 5 else 7200),
                     inputs="two strings of %d and %d symbolic ASCII bytes" % (la, lb),
                     bounds="lengths exactly (%d,%d); result vs rpmvercmp reference, antisymmetry, reflexivity" % (la, lb),
                     covers_unsat_ok=["result Equal on different strings", "result Less", "result Greater"])
                  for la in range(0, 5) for lb in range(la, 5)]
    + [MH("c13_trans_%d_%d_%d" % s, tier=("quick" if sum(s) <= 4 else "thorough"), timeout=(900 if sum(s) <= 4 else 7200),
          inputs="three strings of %d,%d,%d symbolic ASCII bytes" % s, bounds="transitivity on exactly these lengths",
          covers_unsat_ok=["strict chain", "premise a<=b<=c reached"])
       for s in [(1, 1, 1), (1, 1, 2), (1, 2, 1), (2, 1, 1), (1, 2, 2), (2, 1, 2), (2, 2, 1), (2, 2, 2), (0, 1, 2), (2, 1, 0), (1, 0, 2)]],
    "bounds": "version strings of up to 4 ASCII bytes each (pairs), up to 2 bytes each (triples); all 127 byte values per position",
    "outside": "longer strings, non-ASCII characters, NUL bytes; EVR/NEVRA ordering beyond what the c13_evr_* harnesses list",
    "assumptions": A_MIR,
    "technique": None,
}

# ------------------------------------------------------------------------------------------ texts for MANIFEST.json
_NOTE = ("Holds for all inputs within the stated bounds only (see evidence.coverage.bounds / outside_bounds). Trusted base: Kani's MIR->GOTO "
         "translation, CBMC, CaDiCaL, the stubs and assumptions listed in evidence.assumptions (DESIGN.md §4), and the harness oracles. "
         "Kani models the dev profile; release behaviour is exercised by the replay step only.")

PROPERTIES["C18"].update(claim="Complete over the property's domain: the solver covers every 16-bit mode word and every 32-bit integer; "
                         "no loop or size bound restricts the inputs, so this is exhaustive symbolic checking of the conversion functions.", note=_NOTE)
PROPERTIES["C20"].update(claim="All instants within 2^40 s of the epoch (SystemTime) / 2^34 s (chrono, six fixed offsets) at nanosecond resolution are covered "
                         "symbolically, including both sides of 0 and 2^32; instants further away are outside the bound.", note=_NOTE)
PROPERTIES["C16"].update(claim="The offset arithmetic is decided for all intro-field values below 2^31 bytes per header; real written bytes are checked "
                         "for one-entry headers with every store size mod 8. The link between intro fields and vector lengths is an assumption here.", note=_NOTE)
PROPERTIES["C14"].update(claim="Every write function of the serializer is run against a scripted sink with fixed chunk size K in {1..5, whole}, a hard failure at a "
                         "symbolic call (K=1: any byte offset) and an Interrupted at a symbolic call; contents symbolic; bounded to one-entry headers.", note=_NOTE)
PROPERTIES["C01"].update(claim="Level U: lead, header intro and index entry codecs are decided over all of their input bytes (2^768 / 2^128 inputs), padding for every "
                         "store size; Level H harnesses cover whole headers for the listed shapes only.", note=_NOTE)
PROPERTIES["C04"].update(claim="Absence of panics, arithmetic overflow and out-of-bounds access is decided (implicit checks of the model checker) for all bytes of "
                         "the fixed-size segments incl. truncated slices, for every accessor on every variant, and for the listed whole-header shapes.", note=_NOTE)

NOT_APPLICABLE = {
    "C06": "builder -> package -> accessors is a whole-program run through PackageBuilder::prepare_data (cpio + hashing + two HashSets); a fully concrete run did not finish symbolic execution in 14 min; the reachable fragment (records -> bytes -> records) is claimed under C01/C05/C09",
    "C07": "needs the builder, FFI compressors and the cpio writer/reader pair whose thirteen format!/from_str_radix fields kept a 3-byte round trip beyond 15 min of symbolic execution",
    "C10": "every step goes through real OpenPGP packet parsing and public-key cryptography (RSA/EdDSA/ECDSA big-number arithmetic), outside SAT reach; an abstract signer cannot produce packets the real parser accepts",
    "C11": "nondeterminism comes from RandomState (OS randomness behind FFI); SipHash+hashbrown with a symbolic seed did not finish for a 2-element set; the clamp logic lives inside the unreachable prepare_data; cross-process runs are not expressible",
    "C12": "effects are file-system system calls (no model; symlink resolution is kernel semantics) and Path::join/strip_prefix/components exhausted 20 GB at four symbolic characters",
    "C15": "EVR/NEVRA round trips go through fmt::Display and split_once/rsplit_once (memchr + str searchers), same blow-up as C13; the CompressionType fragment has no symbolic input",
    "C17": "destination handling is PathBuf::parent/strip_prefix/file_name (same blow-up as C12); compression levels are consumed by C libraries behind FFI; capability text is C19",
    "C19": "three symbolic characters through validate_caps_text (split_whitespace, find, slicing, to_uppercase, 41-way contains) reached no verdict in 15 min under Kani",
    "C02": "not yet built",
    "C03": "not yet built",
    "C05": "not yet built",
    "C08": "not yet built",
    "C09": "not yet built",
}

PROPERTIES["C13"].update(claim="compare_version_string is symbolically executed from its MIR for every pair of ASCII strings up to the stated lengths (all 127 values per byte): "
                         "result equals an independent transliteration of rpm's rpmvercmp, is antisymmetric and reflexive; transitivity on triples up to 2 bytes each.",
                         note="Bounded by string length and to ASCII. Trusted base: the MIR interpreter and its std models (validated against the real crate on concrete inputs every run), z3, the rpmvercmp transliteration.")
