//! Native replay helper for the MIR->SMT engine: runs the REAL compiled crate on concrete inputs.
//! Protocol: one request per stdin line, one answer per stdout line.
//!   vercmp <hexA> <hexB>        -> -1|0|1   (Evr::new("", A, "").cmp(Evr::new("", B, "")), i.e. compare_version_string(A, B))
//!   evrcmp <hexA> <hexB>        -> -1|0|1   (rpm_evr_compare)
//!   caps <hex>                  -> ok|err|panic
//!   evr_parse <hex>             -> hex(epoch) hex(version) hex(release)
//!   nevra_parse <hex>           -> hex(name) hex(epoch) hex(version) hex(release) hex(arch)
//!   evr_fmt <hexE> <hexV> <hexR>            -> hex(Display) hex(normalized)
//!   nevra_fmt <hexN> <hexE> <hexV> <hexR> <hexA> -> hex(Display) hex(normalized) hex(nvra)
//!   evr_eq <hexE1> <hexV1> <hexR1> <hexE2> <hexV2> <hexR2>  -> true|false
//!   comp_rt <hex>               -> ok <hex(Display)> | err | panic    (CompressionType::from_str then Display)
use std::io::{BufRead, Write};
use std::str::FromStr;

fn unhex(s: &str) -> String {
    let s = if s == "-" { "" } else { s };
    let b: Vec<u8> = (0..s.len() / 2).map(|i| u8::from_str_radix(&s[2 * i..2 * i + 2], 16).unwrap()).collect();
    String::from_utf8(b).expect("inputs are UTF-8")
}
fn hex(s: &str) -> String {
    if s.is_empty() {
        return "-".to_string();
    }
    s.bytes().map(|b| format!("{:02x}", b)).collect()
}
fn ord(o: std::cmp::Ordering) -> i32 {
    match o {
        std::cmp::Ordering::Less => -1,
        std::cmp::Ordering::Equal => 0,
        std::cmp::Ordering::Greater => 1,
    }
}

fn handle(line: &str) -> String {
    let p: Vec<&str> = line.split_whitespace().collect();
    if p.is_empty() {
        return String::new();
    }
    match p[0] {
        "vercmp" => {
            let (a, b) = (unhex(p[1]), unhex(p[2]));
            let e1 = rpm::Evr::new("", a.as_str(), "");
            let e2 = rpm::Evr::new("", b.as_str(), "");
            format!("{}", ord(e1.cmp(&e2)))
        }
        "evrcmp" => {
            let (a, b) = (unhex(p[1]), unhex(p[2]));
            format!("{}", ord(rpm::rpm_evr_compare(&a, &b)))
        }
        "caps" => {
            let a = unhex(p[1]);
            match rpm::FileCaps::from_str(&a) {
                Ok(c) => format!("ok {}", hex(&c.to_string())),
                Err(_) => "err".to_string(),
            }
        }
        "evr_parse" => {
            let a = unhex(p[1]);
            let (e, v, r) = rpm::Evr::parse_values(&a);
            format!("{} {} {}", hex(e), hex(v), hex(r))
        }
        "nevra_parse" => {
            let a = unhex(p[1]);
            let (n, e, v, r, ar) = rpm::Nevra::parse_values(&a);
            format!("{} {} {} {} {}", hex(n), hex(e), hex(v), hex(r), hex(ar))
        }
        "evr_fmt" => {
            let (e, v, r) = (unhex(p[1]), unhex(p[2]), unhex(p[3]));
            let x = rpm::Evr::new(e.as_str(), v.as_str(), r.as_str());
            format!("{} {}", hex(&x.to_string()), hex(&x.as_normalized_form()))
        }
        "nevra_fmt" => {
            let (n, e, v, r, a) = (unhex(p[1]), unhex(p[2]), unhex(p[3]), unhex(p[4]), unhex(p[5]));
            let x = rpm::Nevra::new(n.as_str(), e.as_str(), v.as_str(), r.as_str(), a.as_str());
            format!("{} {} {}", hex(&x.to_string()), hex(&x.as_normalized_form()), hex(&x.nvra()))
        }
        "evr_eq" => {
            let v: Vec<String> = p[1..7].iter().map(|s| unhex(s)).collect();
            let x = rpm::Evr::new(v[0].as_str(), v[1].as_str(), v[2].as_str());
            let y = rpm::Evr::new(v[3].as_str(), v[4].as_str(), v[5].as_str());
            format!("{} {}", x == y, ord(x.cmp(&y)))
        }
        "comp_rt" => {
            let a = unhex(p[1]);
            match rpm::CompressionType::from_str(&a) {
                Ok(c) => format!("ok {}", hex(&c.to_string())),
                Err(_) => "err".to_string(),
            }
        }
        _ => "unknown".to_string(),
    }
}

fn main() {
    let stdin = std::io::stdin();
    let stdout = std::io::stdout();
    for line in stdin.lock().lines() {
        let line = line.unwrap();
        let l2 = line.clone();
        let r = std::panic::catch_unwind(move || handle(&l2));
        let mut o = stdout.lock();
        match r {
            Ok(s) => writeln!(o, "{}", s).unwrap(),
            Err(_) => writeln!(o, "panic").unwrap(),
        }
        o.flush().unwrap();
    }
}
