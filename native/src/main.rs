//! Native replay helper for the MIR->SMT engine: runs the REAL compiled crate on concrete inputs.
//! Protocol: one request per stdin line, one answer per stdout line.
//!   vercmp <hexA> <hexB>        -> -1|0|1   (Evr::new("", A, "").cmp(Evr::new("", B, "")), i.e. compare_version_string(A, B))
//!   evrcmp <hexA> <hexB>        -> -1|0|1   (rpm_evr_compare)
//!   caps <hex>                  -> ok|err|panic
//!   evr_parse <hex>             -> hex(epoch) hex(version) hex(release)
//!   nevra_parse <hex>           -> hex(name) hex(epoch) hex(version) hex(release) hex(arch)
//!   evr_fmt <hexE> <hexV> <hexR>            -> hex(Display) hex(normalized)
//!   nevra_fmt <hexN> <hexE> <hexV> <hexR> <hexA> -> hex(Display) hex(normalized) hex(nvra)
//!   evr_eq <hexE1> <hexV1> <hexR1> <hexE2> <hexV2> <hexR2>  -> true|false
//!   comp_rt <hex>               -> ok <hex(Display)> | err | panic    (CompressionType::from_str then Display)
use std::io::{BufRead, Write};
use std::str::FromStr;
use std::sync::atomic::{AtomicUsize, Ordering};

/// counting allocator: `peak <command ...>` reports the largest single allocation request made while the command ran
struct Counting;
static LARGEST: AtomicUsize = AtomicUsize::new(0);
unsafe impl std::alloc::GlobalAlloc for Counting {
    unsafe fn alloc(&self, l: std::alloc::Layout) -> *mut u8 {
        LARGEST.fetch_max(l.size(), Ordering::Relaxed);
        unsafe { std::alloc::System.alloc(l) }
    }
    unsafe fn dealloc(&self, p: *mut u8, l: std::alloc::Layout) {
        unsafe { std::alloc::System.dealloc(p, l) }
    }
    unsafe fn alloc_zeroed(&self, l: std::alloc::Layout) -> *mut u8 {
        LARGEST.fetch_max(l.size(), Ordering::Relaxed);
        unsafe { std::alloc::System.alloc_zeroed(l) }
    }
    unsafe fn realloc(&self, p: *mut u8, l: std::alloc::Layout, n: usize) -> *mut u8 {
        LARGEST.fetch_max(n, Ordering::Relaxed);
        unsafe { std::alloc::System.realloc(p, l, n) }
    }
}
#[global_allocator]
static A: Counting = Counting;

fn unhex(s: &str) -> String {
    let s = if s == "-" { "" } else { s };
    let b: Vec<u8> = (0..s.len() / 2).map(|i| u8::from_str_radix(&s[2 * i..2 * i + 2], 16).unwrap()).collect();
    String::from_utf8(b).expect("inputs are UTF-8")
}
fn hex(s: &str) -> String {
    if s.is_empty() {
        return "-".to_string();
    }
    s.bytes().map(|b| format!("{:02x}", b)).collect()
}
fn ord(o: std::cmp::Ordering) -> i32 {
    match o {
        std::cmp::Ordering::Less => -1,
        std::cmp::Ordering::Equal => 0,
        std::cmp::Ordering::Greater => 1,
    }
}

fn handle(line: &str) -> String {
    let p: Vec<&str> = line.split_whitespace().collect();
    if p.is_empty() {
        return String::new();
    }
    if p[0] == "peak" {
        let rest = p[1..].join(" ");
        LARGEST.store(0, Ordering::Relaxed);
        let r = std::panic::catch_unwind(move || handle(&rest)).unwrap_or_else(|_| "panic".to_string());
        return format!("{} peak={}", r, LARGEST.load(Ordering::Relaxed));
    }
    match p[0] {
        "clear_digest" => {
            // parse a package, clear_signatures(), then verify_digests(): the recorded header digest must match the header
            let b = unhex_bytes(p[1]);
            match rpm::Package::parse(&mut &b[..]) {
                Err(_) => "parse-err".to_string(),
                Ok(mut pkg) => match pkg.clear_signatures() {
                    Err(_) => "clear-err".to_string(),
                    Ok(()) => {
                        let has = pkg.metadata.signature.get_entry_data_as_string(rpm::IndexSignatureTag::RPMSIGTAG_SHA256).is_ok();
                        let sigs = pkg.metadata.signature.entry_is_present(rpm::IndexSignatureTag::RPMSIGTAG_RSA)
                            || pkg.metadata.signature.entry_is_present(rpm::IndexSignatureTag::RPMSIGTAG_OPENPGP);
                        match pkg.verify_digests() {
                            Ok(()) if has && !sigs => "ok".to_string(),
                            Ok(()) => format!("bad sha256-present={} signature-left={}", has, sigs),
                            Err(_) => "bad digest-mismatch".to_string(),
                        }
                    }
                },
            }
        }
        "deps" => {
            // <hex metadata> <kind>: names/flags/versions of one dependency accessor
            let b = unhex_bytes(p[1]);
            match rpm::PackageMetadata::parse(&mut &b[..]) {
                Err(_) => "parse-err".to_string(),
                Ok(m) => {
                    let r = match p[2] {
                        "provides" => m.get_provides(), "requires" => m.get_requires(), "conflicts" => m.get_conflicts(), "obsoletes" => m.get_obsoletes(),
                        "recommends" => m.get_recommends(), "suggests" => m.get_suggests(), "enhances" => m.get_enhances(), _ => m.get_supplements(),
                    };
                    match r {
                        Err(_) => "err".to_string(),
                        Ok(v) => format!("ok {}", v.iter().map(|d| format!("{}:{:x}:{}", hex(&d.name), d.flags.bits(), hex(&d.version))).collect::<Vec<_>>().join(",")),
                    }
                }
            }
        }
        "fcaps" => {
            let t = unhex(p[1]);
            let a = rpm::FileOptions::new("/x").caps(t.clone()).is_ok();
            let b = rpm::FileCaps::from_str(&t).is_ok();
            format!("{} {}", a, b)
        }
        "vercmp" => {
            let (a, b) = (unhex(p[1]), unhex(p[2]));
            let e1 = rpm::Evr::new("", a.as_str(), "");
            let e2 = rpm::Evr::new("", b.as_str(), "");
            format!("{}", ord(e1.cmp(&e2)))
        }
        "evrcmp" => {
            let (a, b) = (unhex(p[1]), unhex(p[2]));
            format!("{}", ord(rpm::rpm_evr_compare(&a, &b)))
        }
        "caps" => {
            let a = unhex(p[1]);
            match rpm::FileCaps::from_str(&a) {
                Ok(c) => format!("ok {}", hex(&c.to_string())),
                Err(_) => "err".to_string(),
            }
        }
        "evr_parse" => {
            let a = unhex(p[1]);
            let (e, v, r) = rpm::Evr::parse_values(&a);
            format!("{} {} {}", hex(e), hex(v), hex(r))
        }
        "nevra_parse" => {
            let a = unhex(p[1]);
            let (n, e, v, r, ar) = rpm::Nevra::parse_values(&a);
            format!("{} {} {} {} {}", hex(n), hex(e), hex(v), hex(r), hex(ar))
        }
        "evr_fmt" => {
            let (e, v, r) = (unhex(p[1]), unhex(p[2]), unhex(p[3]));
            let x = rpm::Evr::new(e.as_str(), v.as_str(), r.as_str());
            format!("{} {}", hex(&x.to_string()), hex(&x.as_normalized_form()))
        }
        "nevra_fmt" => {
            let (n, e, v, r, a) = (unhex(p[1]), unhex(p[2]), unhex(p[3]), unhex(p[4]), unhex(p[5]));
            let x = rpm::Nevra::new(n.as_str(), e.as_str(), v.as_str(), r.as_str(), a.as_str());
            format!("{} {} {}", hex(&x.to_string()), hex(&x.as_normalized_form()), hex(&x.nvra()))
        }
        "evr_eq" => {
            let v: Vec<String> = p[1..7].iter().map(|s| unhex(s)).collect();
            let x = rpm::Evr::new(v[0].as_str(), v[1].as_str(), v[2].as_str());
            let y = rpm::Evr::new(v[3].as_str(), v[4].as_str(), v[5].as_str());
            format!("{} {}", x == y, ord(x.cmp(&y)))
        }
        "comp_rt" => {
            let a = unhex(p[1]);
            match rpm::CompressionType::from_str(&a) {
                Ok(c) => format!("ok {}", hex(&c.to_string())),
                Err(_) => "err".to_string(),
            }
        }
        "digests" => {
            // hand-encoded package bytes -> Package::parse -> verify_digests
            let b = unhex_bytes(p[1]);
            match rpm::Package::parse(&mut &b[..]) {
                Err(e) => format!("parse-err {:?}", e).replace(' ', "_"),
                Ok(pkg) => match pkg.verify_digests() {
                    Ok(()) => "ok".to_string(),
                    Err(rpm::Error::DigestMismatchError) => "err mismatch".to_string(),
                    Err(e) => format!("err other {}", format!("{:?}", e).replace(' ', "_")),
                },
            }
        }
        "getters" => {
            // every typed getter for RPMTAG_NAME on the main header of hand-encoded metadata
            let b = unhex_bytes(p[1]);
            match rpm::PackageMetadata::parse(&mut &b[..]) {
                Err(_) => "parse-err".to_string(),
                Ok(m) => {
                    let t = rpm::IndexTag::RPMTAG_NAME;
                    let h = &m.header;
                    let mut out = Vec::new();
                    out.push(match h.get_entry_data_as_binary(t) { Ok(v) => format!("bin={}", hexb(v)), Err(_) => "bin=!".into() });
                    out.push(match h.get_entry_data_as_string(t) { Ok(v) => format!("str={}", hexb(v.as_bytes())), Err(_) => "str=!".into() });
                    out.push(match h.get_entry_data_as_i18n_string(t) { Ok(v) => format!("i18n={}", hexb(v.as_bytes())), Err(_) => "i18n=!".into() });
                    out.push(match h.get_entry_data_as_u16_array(t) { Ok(v) => format!("u16s={}", v.iter().map(|x| format!("{:x}", x)).collect::<Vec<_>>().join(",")), Err(_) => "u16s=!".into() });
                    out.push(match h.get_entry_data_as_u32(t) { Ok(v) => format!("u32={:x}", v), Err(_) => "u32=!".into() });
                    out.push(match h.get_entry_data_as_u32_array(t) { Ok(v) => format!("u32s={}", v.iter().map(|x| format!("{:x}", x)).collect::<Vec<_>>().join(",")), Err(_) => "u32s=!".into() });
                    out.push(match h.get_entry_data_as_u64(t) { Ok(v) => format!("u64={:x}", v), Err(_) => "u64=!".into() });
                    out.push(match h.get_entry_data_as_u64_array(t) { Ok(v) => format!("u64s={}", v.iter().map(|x| format!("{:x}", x)).collect::<Vec<_>>().join(",")), Err(_) => "u64s=!".into() });
                    out.push(match h.get_entry_data_as_string_array(t) { Ok(v) => format!("strs={}", v.iter().map(|x| hexb(x.as_bytes())).collect::<Vec<_>>().join(",")), Err(_) => "strs=!".into() });
                    out.join(" ")
                }
            }
        }
        "filedigest" => {
            // two sources of equal size and mtime but different content added at the same destination: every recorded file digest must be
            // the SHA-256 of the content actually stored in the payload
            use sha2::Digest;
            let dir = std::env::temp_dir().join(format!("rpm-native-replay-{}", std::process::id()));
            let _ = std::fs::create_dir_all(&dir);
            let (a, b) = (dir.join("a"), dir.join("b"));
            std::fs::write(&a, b"first").unwrap();
            std::fs::write(&b, b"other").unwrap();
            let t = std::time::SystemTime::UNIX_EPOCH + std::time::Duration::from_secs(1_600_000_000);
            for f in [&a, &b] {
                std::fs::File::options().write(true).open(f).unwrap().set_modified(t).unwrap();
            }
            let r = rpm::PackageBuilder::new("x", "1.0", "MIT", "noarch", "d")
                .compression(rpm::CompressionType::None)
                .with_file(&a, rpm::FileOptions::new("/d/f"))
                .and_then(|bld| bld.with_file(&b, rpm::FileOptions::new("/d/f")))
                .and_then(|bld| bld.build());
            let _ = std::fs::remove_dir_all(&dir);
            match r {
                Err(_) => "build-err".to_string(),
                Ok(pkg) => {
                    let mut bad = 0;
                    let mut n = 0;
                    for f in pkg.files().unwrap() {
                        let f = f.unwrap();
                        n += 1;
                        let want: String = sha2::Sha256::digest(&f.content).iter().map(|x| format!("{:02x}", x)).collect();
                        if f.metadata.digest.as_ref().map(|d| d.as_hex().to_string()) != Some(want) || f.metadata.size != f.content.len() {
                            bad += 1;
                        }
                    }
                    if bad == 0 { format!("ok files={}", n) } else { format!("bad {} of {} files record a digest/size that is not that of their content", bad, n) }
                }
            }
        }
        "with_file" => {
            // <hex destination>: PackageBuilder::with_file on an existing source file with that destination
            let dest = unhex(p[1]);
            let src = std::env::current_exe().unwrap();
            match rpm::PackageBuilder::new("x", "1.0", "MIT", "noarch", "d").with_file(&src, rpm::FileOptions::new(dest)) {
                Ok(_) => "ok".to_string(),
                Err(_) => "err".to_string(),
            }
        }
        "lead_of" => {
            // <hex name>: the first 96 bytes of a package built with that name
            let name = if p[1] == "-" { String::new() } else { unhex(p[1]) };
            match rpm::PackageBuilder::new(&name, "1", "MIT", "noarch", "s").compression(rpm::CompressionType::None).build() {
                Err(_) => "build-err".to_string(),
                Ok(pkg) => { let mut o = Vec::new(); pkg.write(&mut o).unwrap(); format!("ok {}", hexb(&o[..96])) }
            }
        }
        "build_name" => {
            // <name|version> <n>: required metadata of n bytes, then build()
            let n: usize = p[2].parse().unwrap_or(66);
            let long = "a".repeat(n);
            let b = if p[1] == "version" { rpm::PackageBuilder::new("n", &long, "MIT", "noarch", "s") } else { rpm::PackageBuilder::new(&long, "1", "MIT", "noarch", "s") };
            match b.compression(rpm::CompressionType::None).build() { Ok(_) => "ok".to_string(), Err(_) => "build-err".to_string() }
        }
        "with_file_build" => {
            // <hex destination>: with_file on an existing source file, then build()
            let dest = unhex(p[1]);
            let src = std::env::current_exe().unwrap();
            match rpm::PackageBuilder::new("x", "1.0", "MIT", "noarch", "d").compression(rpm::CompressionType::None).with_file(&src, rpm::FileOptions::new(dest)) {
                Ok(b) => match b.build() {
                    Ok(_) => "ok".to_string(),
                    Err(_) => "build-err".to_string(),
                },
                Err(_) => "err".to_string(),
            }
        }
        "repro" => {
            // <user:group,user:group,...>: build the same configuration (one file per owner, fixed contents, mtimes and source date) 24 times;
            // answers same | differ at <offset> | late <what>
            let owners: Vec<(String, String)> = if p[1] == "-" { vec![] } else {
                p[1].split(',').map(|x| { let mut it = x.split(':'); (it.next().unwrap_or("root").to_string(), it.next().unwrap_or("root").to_string()) }).collect()
            };
            // source date in the past, earlier than the source file's modification time (it is written now)
            let sd: u32 = 1_600_000_000;
            let dests: Vec<String> = match p.get(2) { Some(&"-") | None => vec![], Some(s) => s.split(',').map(|x| x.to_string()).collect() };
            let late_sd = p.get(3) == Some(&"late");
            let src = std::env::temp_dir().join(format!("rpm-native-replay-src-{}", std::process::id()));
            std::fs::write(&src, b"x").unwrap();
            let mut outs: Vec<Vec<u8>> = Vec::new();
            let mut late = String::new();
            for _ in 0..24 {
                let mut b = rpm::PackageBuilder::new("n", "1", "MIT", "noarch", "s").compression(rpm::CompressionType::None);
                if !late_sd { b = b.source_date(sd); }
                match p.get(4).copied().unwrap_or("-") {
                    "host" => { b = b.build_host("h"); }
                    "hostcookie" => { b = b.build_host("h").cookie("c"); }
                    "duprec" => { if let Some((u, _)) = owners.first() { b = b.recommends(rpm::Dependency::user(u.as_str())); } }
                    _ => {}
                }
                for (i, (u, g)) in owners.iter().enumerate() {
                    let dest = dests.get(i).cloned().unwrap_or_else(|| format!("/d/f{}", i));
                    b = b.with_file(&src, rpm::FileOptions::new(dest).user(u.clone()).group(g.clone())).unwrap();
                }
                if late_sd { b = b.source_date(sd); }
                let pkg = b.build().unwrap();
                if let Ok(t) = pkg.metadata.get_build_time() { if t > sd as u64 { late = format!("build time {}", t); } }
                if let Ok(fes) = pkg.metadata.get_file_entries() { for fe in fes { if u32::from(fe.modified_at) > sd { late = format!("file mtime {}", u32::from(fe.modified_at)); } } }
                let mut o = Vec::new();
                pkg.write(&mut o).unwrap();
                outs.push(o);
                // builds a second apart see different clocks
                if p.get(4).map_or(false, |x| x.starts_with("host")) && outs.len() == 1 { std::thread::sleep(std::time::Duration::from_millis(1100)); }
            }
            let _ = std::fs::remove_file(&src);
            if !late.is_empty() {
                format!("late {}", late)
            } else if let Some(o) = outs.iter().find(|o| **o != outs[0]) {
                let at = o.iter().zip(outs[0].iter()).position(|(a, b)| a != b).unwrap_or(o.len().min(outs[0].len()));
                format!("differ at {} ({} distinct outputs of 24)", at, { let mut v = outs.clone(); v.sort(); v.dedup(); v.len() })
            } else {
                "same".to_string()
            }
        }
        "scenario" => {
            // <name>: the builder scenario of that name (engines/harnesses_build.py: scenario()) through the public API; answers ok <hex of the package>
            let src = std::env::temp_dir().join(format!("rpm-native-replay-src-{}", std::process::id()));
            std::fs::write(&src, b"x").unwrap();
            let mut b = rpm::PackageBuilder::new("n", "1", "MIT", "noarch", "s").compression(rpm::CompressionType::None);
            let sl = |t: &str| rpm::Scriptlet::new(t).flags(rpm::ScriptletFlags::EXPAND).prog(vec!["/bin/sh", "-e"]);
            let r: Result<rpm::PackageBuilder, rpm::Error> = (|| {
                let (scn, cmp) = match p[1].strip_prefix("files2_") { Some(c) => ("files2", c), None => (p[1], "none") };
                b = match cmp {
                    "gzip" => b.compression(rpm::CompressionWithLevel::Gzip(6)), "xz" => b.compression(rpm::CompressionWithLevel::Xz(6)),
                    "bzip2" => b.compression(rpm::CompressionWithLevel::Bzip2(6)), "zstd" => b.compression(rpm::CompressionWithLevel::Zstd(3)), _ => b,
                };
                match scn {
                    "files2" => {
                        b = b.with_file(&src, rpm::FileOptions::new("/d/f0"))?;
                        b = b.with_file(&src, rpm::FileOptions::new("/e/f1").user("u").group("g"))?;
                    }
                    "modes" => {
                        b = b.with_file(&src, rpm::FileOptions::new("/d/a").mode(0o104755))?;
                        b = b.with_file(&src, rpm::FileOptions::new("/d/b").mode(0o102755))?;
                        b = b.with_file(&src, rpm::FileOptions::new("/d/c").mode(0o101777))?;
                    }
                    "utf8name" => {
                        b = b.with_file(&src, rpm::FileOptions::new("/d/gr\u{fc}\u{df}e"))?;
                        b = b.with_file(&src, rpm::FileOptions::new("/d/z"))?;
                    }
                    "scriptlets" => {
                        b = b.pre_install_script(sl("echo pre")).post_install_script(sl("echo pos")).pre_uninstall_script(sl("echo pre")).post_uninstall_script(sl("echo pos"))
                            .pre_trans_script(sl("echo pre")).post_trans_script(sl("echo pos")).pre_untrans_script(sl("echo pre")).post_untrans_script(sl("echo pos"));
                    }
                    "scriptlets_plain" => {
                        b = b.pre_install_script("true").post_install_script("true").pre_uninstall_script("true").post_uninstall_script("true")
                            .pre_trans_script("true").post_trans_script("true").pre_untrans_script("true").post_untrans_script("true");
                    }
                    "deps" => {
                        let d = |n: &str| rpm::Dependency::eq(n, "1");
                        b = b.requires(d("xre")).provides(d("xpr")).obsoletes(d("xob")).conflicts(d("xco")).recommends(d("xre")).suggests(d("xsu")).enhances(d("xen")).supplements(d("xsu"));
                    }
                    x if x.starts_with("dep_") => {
                        let k = &x[4..];
                        let d = rpm::Dependency::eq(format!("x{}", &k[..2]), "1");
                        b = match k {
                            "requires" => b.requires(d), "provides" => b.provides(d), "obsoletes" => b.obsoletes(d), "conflicts" => b.conflicts(d),
                            "recommends" => b.recommends(d), "suggests" => b.suggests(d), "enhances" => b.enhances(d), "supplements" => b.supplements(d), _ => b,
                        };
                    }
                    "caps_first" => {
                        b = b.with_file(&src, rpm::FileOptions::new("/d/a").caps("cap_chown=ep")?)?;
                        b = b.with_file(&src, rpm::FileOptions::new("/d/b"))?;
                    }
                    "caps_last" => {
                        b = b.with_file(&src, rpm::FileOptions::new("/d/a"))?;
                        b = b.with_file(&src, rpm::FileOptions::new("/d/b").caps("cap_chown=ep")?)?;
                    }
                    _ => {}
                }
                Ok(b)
            })();
            let _ = std::fs::remove_file(&src);
            match r.and_then(|b| b.build()) {
                Err(e) => format!("err {:?}", e).replace(' ', "_"),
                Ok(pkg) => {
                    let mut o = Vec::new();
                    pkg.write(&mut o).unwrap();
                    format!("ok {}", hexb(&o))
                }
            }
        }
        "readback" => {
            // <field> <hex value>: set one builder field, build, read it back through the matching accessor
            let v = if p[2] == "-" { String::new() } else { unhex(p[2]) };
            let f = p[1];
            let ctor = |k: &str| if f == k { v.clone() } else { "x".to_string() };
            let mut b = rpm::PackageBuilder::new(&ctor("name"), &ctor("version"), &ctor("license"), &ctor("arch"), &ctor("summary")).compression(rpm::CompressionType::None);
            b = match f {
                "release" => b.release(v.clone()), "url" => b.url(v.clone()), "vcs" => b.vcs(v.clone()), "description" => b.description(v.clone()), "vendor" => b.vendor(v.clone()),
                "packager" => b.packager(v.clone()), "group" => b.group(v.clone()), "build_host" => b.build_host(v.clone()), "cookie" => b.cookie(v.clone()),
                "epoch" => b.epoch(7),
                _ => b,
            };
            match b.build() {
                Err(e) => format!("build-err {:?}", e).replace(' ', "_"),
                Ok(pkg) => {
                    let m = &pkg.metadata;
                    let got: Result<String, rpm::Error> = match f {
                        "name" => m.get_name().map(|x| x.to_string()), "version" => m.get_version().map(|x| x.to_string()), "license" => m.get_license().map(|x| x.to_string()),
                        "arch" => m.get_arch().map(|x| x.to_string()), "summary" => m.get_summary().map(|x| x.to_string()), "release" => m.get_release().map(|x| x.to_string()),
                        "url" => m.get_url().map(|x| x.to_string()), "vcs" => m.get_vcs().map(|x| x.to_string()), "description" => m.get_description().map(|x| x.to_string()),
                        "vendor" => m.get_vendor().map(|x| x.to_string()), "packager" => m.get_packager().map(|x| x.to_string()), "group" => m.get_group().map(|x| x.to_string()),
                        "build_host" => m.get_build_host().map(|x| x.to_string()), "cookie" => m.get_cookie().map(|x| x.to_string()),
                        "epoch" => m.get_epoch().map(|x| if x == 7 { v.clone() } else { format!("epoch {}", x) }),
                        _ => Ok(v.clone()),
                    };
                    match got {
                        Ok(g) if g == v => "same".to_string(),
                        Ok(g) => format!("differs: {}", hex(&g)),
                        Err(e) => format!("accessor-err {:?}", e).replace(' ', "_"),
                    }
                }
            }
        }
        "readback2" => {
            // <scriptlets_prog|scriptlets_plain|deps|files>: fixed values through the public API, read back with the matching accessors
            let src = std::env::temp_dir().join(format!("rpm-native-replay-src-{}", std::process::id()));
            std::fs::write(&src, b"x").unwrap();
            let mut b = rpm::PackageBuilder::new("n", "1", "MIT", "noarch", "s").compression(rpm::CompressionType::None).source_date(1_600_000_000u32);
            let names = ["pre_install", "post_install", "pre_uninstall", "post_uninstall", "pre_trans", "post_trans", "pre_untrans", "post_untrans"];
            let nprog: usize = match p[1] { "scriptlets_prog1" => 1, "scriptlets_prog3" => 3, _ => 2 };
            let mk = |i: usize, prog: bool| {
                let s = rpm::Scriptlet::new(format!("t{}", i)).flags(rpm::ScriptletFlags::from_bits_retain(0x8000_0000 | i as u32));
                if prog { s.prog(vec![format!("p{}", i), format!("q{}", i), format!("r{}", i)][..nprog].to_vec()) } else { s }
            };
            let samename = p[1] == "deps_samename";
            let dep = |k: usize, j: usize| rpm::Dependency { name: if samename { format!("n{}", k) } else { format!("n{}{}", k, j) }, flags: rpm::DependencyFlags::from_bits_retain(0x4000_0001 + (k * 2 + j) as u32), version: format!("v{}{}", k, j) };
            let mut bad: Vec<String> = Vec::new();
            match p[1] {
                "scriptlets_prog" | "scriptlets_prog1" | "scriptlets_prog3" | "scriptlets_plain" => {
                    let prog = p[1] != "scriptlets_plain";
                    b = b.pre_install_script(mk(0, prog)).post_install_script(mk(1, prog)).pre_uninstall_script(mk(2, prog)).post_uninstall_script(mk(3, prog))
                        .pre_trans_script(mk(4, prog)).post_trans_script(mk(5, prog)).pre_untrans_script(mk(6, prog)).post_untrans_script(mk(7, prog));
                    let pkg = match b.build() { Ok(p) => p, Err(e) => return format!("build-err {:?}", e).replace(' ', "_") };
                    let m = &pkg.metadata;
                    let got = [m.get_pre_install_script(), m.get_post_install_script(), m.get_pre_uninstall_script(), m.get_post_uninstall_script(),
                               m.get_pre_trans_script(), m.get_post_trans_script(), m.get_pre_untrans_script(), m.get_post_untrans_script()];
                    for (i, g) in got.iter().enumerate() {
                        let w = mk(i, prog);
                        match g {
                            Ok(s) if s.script == w.script && s.flags == w.flags && s.program == w.program => {}
                            Ok(s) => bad.push(format!("{}:{}/{:?}/{:?}", names[i], s.script, s.flags.map(|f| f.bits()), s.program).replace(' ', "")),
                            Err(_) => bad.push(format!("{}:err", names[i])),
                        }
                    }
                }
                "verify_script" => {
                    b = b.verify_script(rpm::Scriptlet::new("vt").flags(rpm::ScriptletFlags::from_bits_retain(5)).prog(vec!["p"]));
                    let pkg = match b.build() { Ok(p) => p, Err(e) => return format!("build-err {:?}", e).replace(' ', "_") };
                    let h = &pkg.metadata.header;
                    if h.get_entry_data_as_string(rpm::IndexTag::RPMTAG_VERIFYSCRIPT).ok() != Some("vt") { bad.push("text".into()); }
                    if h.get_entry_data_as_u32(rpm::IndexTag::RPMTAG_VERIFYSCRIPTFLAGS).ok() != Some(5) { bad.push("flags".into()); }
                    if h.get_entry_data_as_string_array(rpm::IndexTag::RPMTAG_VERIFYSCRIPTPROG).ok().map(|v| v.to_vec()) != Some(vec!["p".to_string()]) { bad.push("prog".into()); }
                }
                "files_misc" => {
                    b = b.with_file(&src, rpm::FileOptions::new("/d/l").symlink("lk").mode(rpm::FileMode::symbolic_link(0o777))).unwrap();
                    b = b.with_file(&src, rpm::FileOptions::new("/d/c").caps("cap_chown=ep").unwrap()).unwrap();
                    b = b.with_file(&src, rpm::FileOptions::new("./e/r")).unwrap();
                    b = b.with_file(&src, rpm::FileOptions::new("/t")).unwrap();
                    let pkg = match b.build() { Ok(p) => p, Err(e) => return format!("build-err {:?}", e).replace(' ', "_") };
                    match pkg.metadata.get_file_entries() {
                        Ok(v) => {
                            let find = |p: &str| v.iter().find(|f| f.path == std::path::PathBuf::from(p));
                            for p_ in ["/d/l", "/d/c", "/e/r", "/t"] { if find(p_).is_none() { bad.push(format!("missing{}", p_)); } }
                            if let Some(f) = find("/d/l") { if f.linkto != "lk" || !matches!(f.mode, rpm::FileMode::SymbolicLink { .. }) { bad.push("link".into()); } }
                            if let Some(f) = find("/d/c") { if f.caps.as_deref() != Some("cap_chown=ep") { bad.push(format!("caps={:?}", f.caps).replace(' ', "")); } }
                        }
                        Err(_) => bad.push("err".into()),
                    }
                }
                "changelog" => {
                    b = b.add_changelog_entry("a1", "t1", 3u32).add_changelog_entry("a2", "t2", 2u32).add_changelog_entry("a3", "t3", 5u32);
                    let pkg = match b.build() { Ok(p) => p, Err(e) => return format!("build-err {:?}", e).replace(' ', "_") };
                    match pkg.metadata.get_changelog_entries() {
                        Ok(v) => {
                            let got: Vec<(String, u64, String)> = v.iter().map(|c| (c.name.clone(), c.timestamp, c.description.clone())).collect();
                            let want = vec![("a1".to_string(), 3u64, "t1".to_string()), ("a2".to_string(), 2u64, "t2".to_string()), ("a3".to_string(), 5u64, "t3".to_string())];
                            if got != want { bad.push(format!("{:?}", got).replace(' ', "")); }
                        }
                        Err(_) => bad.push("err".into()),
                    }
                }
                x if x.starts_with("dep:") => {
                    // one dependency of one kind, none of the others
                    let kinds = ["requires", "provides", "obsoletes", "conflicts", "recommends", "suggests", "enhances", "supplements"];
                    let k = kinds.iter().position(|n| *n == &x[4..]).unwrap_or(0);
                    let d = dep(k, 0);
                    b = match k { 0 => b.requires(d), 1 => b.provides(d), 2 => b.obsoletes(d), 3 => b.conflicts(d), 4 => b.recommends(d), 5 => b.suggests(d), 6 => b.enhances(d), _ => b.supplements(d) };
                    let pkg = match b.build() { Ok(p) => p, Err(e) => return format!("build-err {:?}", e).replace(' ', "_") };
                    let m = &pkg.metadata;
                    let got = match k { 0 => m.get_requires(), 1 => m.get_provides(), 2 => m.get_obsoletes(), 3 => m.get_conflicts(), 4 => m.get_recommends(), 5 => m.get_suggests(), 6 => m.get_enhances(), _ => m.get_supplements() };
                    match got {
                        Ok(v) if v.iter().any(|d| *d == dep(k, 0)) => {}
                        Ok(v) => bad.push(format!("kind{}:missing({}listed)", k, v.len())),
                        Err(_) => bad.push(format!("kind{}:err", k)),
                    }
                }
                "deps" | "deps_samename" => {
                    for j in 0..2 {
                        b = b.requires(dep(0, j)).provides(dep(1, j)).obsoletes(dep(2, j)).conflicts(dep(3, j)).recommends(dep(4, j)).suggests(dep(5, j)).enhances(dep(6, j)).supplements(dep(7, j));
                    }
                    let pkg = match b.build() { Ok(p) => p, Err(e) => return format!("build-err {:?}", e).replace(' ', "_") };
                    let m = &pkg.metadata;
                    let got = [m.get_requires(), m.get_provides(), m.get_obsoletes(), m.get_conflicts(), m.get_recommends(), m.get_suggests(), m.get_enhances(), m.get_supplements()];
                    for (k, g) in got.iter().enumerate() {
                        match g {
                            Ok(v) => {
                                let mut pos = 0;
                                for j in 0..2 {
                                    match v[pos..].iter().position(|d| *d == dep(k, j)) { Some(q) => pos += q + 1, None => { bad.push(format!("kind{}:dep{}missing", k, j)); break; } }
                                }
                            }
                            Err(_) => bad.push(format!("kind{}:err", k)),
                        }
                    }
                }
                _ => {
                    b = b.with_file(&src, rpm::FileOptions::new("/d/f0").user("u0").group("g0").mode(rpm::FileMode::regular(0o4751)).is_config()).unwrap();
                    let pkg = match b.build() { Ok(p) => p, Err(e) => return format!("build-err {:?}", e).replace(' ', "_") };
                    match pkg.metadata.get_file_entries() {
                        Ok(v) if v.len() == 1 => {
                            let f = &v[0];
                            let want_digest = { use sha2::Digest; let mut h = sha2::Sha256::new(); h.update(b"x"); h.finalize().iter().map(|x| format!("{:02x}", x)).collect::<String>() };
                            if f.path != std::path::PathBuf::from("/d/f0") { bad.push("path".into()); }
                            if f.mode != rpm::FileMode::regular(0o4751) { bad.push("mode".into()); }
                            if f.ownership.user != "u0" || f.ownership.group != "g0" { bad.push("owner".into()); }
                            if f.size != 1 { bad.push("size".into()); }
                            if !f.flags.contains(rpm::FileFlags::CONFIG) { bad.push("flags".into()); }
                            if f.digest.as_ref().map(|d| d.as_hex().to_string()) != Some(want_digest) { bad.push("digest".into()); }
                            if u32::from(f.modified_at) > 1_600_000_000 { bad.push("mtime".into()); }
                        }
                        _ => bad.push("entries".into()),
                    }
                }
            }
            let _ = std::fs::remove_file(&src);
            if bad.is_empty() { "same".to_string() } else { format!("differs: {}", bad.join(",")) }
        }
        "files_rt" => {
            // <size,size,...>: files of those sizes (distinct contents) added in reverse order, built, iterated with Package::files()
            let sizes: Vec<usize> = p.get(1).map(|s| s.split(',').filter_map(|x| x.parse().ok()).collect()).unwrap_or_default();
            let dir = std::env::temp_dir().join(format!("rpm-native-replay-rt-{}", std::process::id()));
            let _ = std::fs::create_dir_all(&dir);
            let mut b = rpm::PackageBuilder::new("n", "1", "MIT", "noarch", "s");
            b = match p.get(2).copied().unwrap_or("none") {
                "gzip" => b.compression(rpm::CompressionWithLevel::Gzip(6)), "xz" => b.compression(rpm::CompressionWithLevel::Xz(6)),
                "bzip2" => b.compression(rpm::CompressionWithLevel::Bzip2(6)), "zstd" => b.compression(rpm::CompressionWithLevel::Zstd(3)),
                _ => b.compression(rpm::CompressionType::None),
            };
            let content = |i: usize, n: usize| (0..n).map(|k| (17 * i + 31 * k + 1) as u8).collect::<Vec<u8>>();
            // variant: plain | utf8 (a two-byte character in every base name) | ghost (the first file carries %ghost)
            let variant = p.get(3).copied().unwrap_or("plain");
            let stem = if variant == "utf8" { "/d/\u{e9}" } else { "/d/f" };
            for i in (0..sizes.len()).rev() {
                let f = dir.join(format!("f{}", i));
                std::fs::write(&f, content(i, sizes[i])).unwrap();
                let mut o = rpm::FileOptions::new(format!("{}{}", stem, i));
                if variant == "ghost" && i == 0 { o = o.is_ghost(); }
                b = b.with_file(&f, o).unwrap();
            }
            let pkg = b.build();
            let _ = std::fs::remove_dir_all(&dir);
            let pkg = match pkg { Ok(p) => p, Err(e) => return format!("build-err {:?}", e).replace(' ', "_") };
            let mut bad: Vec<String> = Vec::new();
            match pkg.files() {
                Err(_) => bad.push("files-err".into()),
                Ok(it) => {
                    let v: Vec<_> = it.collect();
                    if v.len() != sizes.len() { bad.push(format!("{}-entries", v.len())); }
                    for (i, e) in v.iter().enumerate() {
                        match e {
                            Err(_) => bad.push(format!("entry{}-err", i)),
                            Ok(f) => {
                                if i < sizes.len() && (f.content != content(i, sizes[i]) || f.metadata.size != sizes[i] || f.metadata.path != std::path::PathBuf::from(format!("{}{}", stem, i))) {
                                    bad.push(format!("entry{}-mismatch", i));
                                }
                            }
                        }
                    }
                }
            }
            if bad.is_empty() { "same".to_string() } else { format!("differs: {}", bad.join(",")) }
        }
        "with_file_mode" => {
            // <permission bits of the source file> <explicit permission bits | ->: with_file, build, read the mode back
            use std::os::unix::fs::PermissionsExt;
            let bits: u32 = p[1].parse().unwrap_or(0o644);
            let explicit: Option<u16> = p.get(2).and_then(|x| x.parse().ok());
            let src = std::env::temp_dir().join(format!("rpm-native-replay-mode-{}", std::process::id()));
            std::fs::write(&src, b"x").unwrap();
            std::fs::set_permissions(&src, std::fs::Permissions::from_mode(bits | 0o400)).unwrap();
            let real = std::fs::metadata(&src).map(|m| m.permissions().mode() & 0o7777).unwrap_or(0);
            let mut fo = rpm::FileOptions::new("/d/f");
            if let Some(m) = explicit { fo = fo.mode(rpm::FileMode::regular(m)); }
            let r = rpm::PackageBuilder::new("n", "1", "MIT", "noarch", "s").compression(rpm::CompressionType::None).with_file(&src, fo).and_then(|b| b.build());
            let _ = std::fs::remove_file(&src);
            match r {
                Err(e) => format!("err {:?}", e).replace(' ', "_"),
                Ok(pkg) => match pkg.metadata.get_file_entries() {
                    Ok(v) if v.len() == 1 => {
                        let want = explicit.map(|m| m as u32).unwrap_or(real) as u16;
                        if v[0].mode == rpm::FileMode::regular(want) { "same".to_string() } else { format!("differs: got {:o} want {:o}", v[0].mode.raw_mode(), 0o100000 | want) }
                    }
                    _ => "differs: entries".to_string(),
                },
            }
        }
        "sign_time" => {
            // build_and_sign with a recording signer and a source date in the past: answers ok <t> | late <t>
            #[derive(Debug)]
            struct RecSigner(std::sync::Arc<std::sync::Mutex<Vec<u32>>>);
            impl rpm::signature::Signing for RecSigner {
                type Signature = Vec<u8>;
                fn sign(&self, _data: impl std::io::Read, t: rpm::Timestamp) -> Result<Vec<u8>, rpm::Error> {
                    self.0.lock().unwrap().push(u32::from(t));
                    Ok(b"SIG".to_vec())
                }
                fn algorithm(&self) -> rpm::signature::AlgorithmType { rpm::signature::AlgorithmType::RSA }
            }
            let sd: u32 = 1_600_000_000;
            let times = std::sync::Arc::new(std::sync::Mutex::new(Vec::new()));
            let r = std::panic::catch_unwind(std::panic::AssertUnwindSafe(|| {
                rpm::PackageBuilder::new("n", "1", "MIT", "noarch", "s").compression(rpm::CompressionType::None).source_date(sd).build_and_sign(RecSigner(times.clone())).map(|_| ())
            }));
            let ts = times.lock().unwrap().clone();
            if r.is_err() && ts.is_empty() { "panic".to_string() }
            else if ts.iter().any(|t| *t > sd) { format!("late {:?}", ts).replace(' ', "") }
            else { format!("ok {:?}", ts).replace(' ', "") }
        }
        "fileopts_flags" => {
            // <method> <method>: apply both flag methods, build a package with that file, read the flags back
            let apply = |o: rpm::FileOptionsBuilder, m: &str| match m {
                "is_doc" => o.is_doc(), "is_config" => o.is_config(), "is_config_noreplace" => o.is_config_noreplace(), "is_ghost" => o.is_ghost(),
                "is_license" => o.is_license(), "is_readme" => o.is_readme(), _ => o,
            };
            let flag = |m: &str| match m {
                "is_doc" => rpm::FileFlags::DOC, "is_config" => rpm::FileFlags::CONFIG, "is_config_noreplace" => rpm::FileFlags::CONFIG | rpm::FileFlags::NOREPLACE,
                "is_ghost" => rpm::FileFlags::GHOST, "is_license" => rpm::FileFlags::LICENSE, "is_readme" => rpm::FileFlags::README, _ => rpm::FileFlags::empty(),
            };
            let src = std::env::temp_dir().join(format!("rpm-native-replay-src-{}", std::process::id()));
            std::fs::write(&src, b"x").unwrap();
            let o = apply(apply(rpm::FileOptions::new("/x"), p[1]), p[2]);
            let r = rpm::PackageBuilder::new("n", "1", "MIT", "noarch", "s").compression(rpm::CompressionType::None).with_file(&src, o).and_then(|b| b.build());
            let _ = std::fs::remove_file(&src);
            match r.and_then(|pkg| pkg.metadata.get_file_entries()) {
                Ok(v) if v.len() == 1 && v[0].flags == (flag(p[1]) | flag(p[2])) => "same".to_string(),
                Ok(v) => format!("differs: {:?}", v.first().map(|f| f.flags.bits())),
                Err(e) => format!("err {:?}", e).replace(' ', "_"),
            }
        }
        "build_digests" => {
            // <size,size,...>: build (no compression), then recompute every recorded digest from the written bytes
            use sha2::Digest;
            let sizes: Vec<usize> = if p[1] == "-" { vec![] } else { p[1].split(',').filter_map(|x| x.parse().ok()).collect() };
            let dir = std::env::temp_dir().join(format!("rpm-native-replay-dg-{}", std::process::id()));
            let _ = std::fs::create_dir_all(&dir);
            // every level of the named compressor is tried; the first level whose digests are wrong is reported
            let comp = p.get(2).copied().unwrap_or("none");
            let levels: Vec<rpm::CompressionWithLevel> = match comp {
                "gzip" => (0..=9).map(rpm::CompressionWithLevel::Gzip).collect(),
                "xz" => (0..=9).map(rpm::CompressionWithLevel::Xz).collect(),
                "bzip2" => (1..=9).map(rpm::CompressionWithLevel::Bzip2).collect(),
                "zstd" => vec![1, 3, 19].into_iter().map(rpm::CompressionWithLevel::Zstd).collect(),
                _ => vec![rpm::CompressionWithLevel::None],
            };
            let content = |i: usize, n: usize| (0..n).map(|k| (17 * i + 31 * k + 1) as u8).collect::<Vec<u8>>();
            let mut verdict = "same".to_string();
            for lv in levels {
            let mut b = rpm::PackageBuilder::new("n", "1", "MIT", "noarch", "s").compression(lv);
            // variant: plain | dup (every file under the same destination) | symlink (the last file is a symbolic-link entry)
            let variant = p.get(3).copied().unwrap_or("plain");
            for (i, n) in sizes.iter().enumerate() {
                let f = dir.join(format!("f{}", i));
                std::fs::write(&f, content(i, *n)).unwrap();
                let o = if variant == "symlink" && i + 1 == sizes.len() { rpm::FileOptions::new("/d/l").mode(0o120777).symlink("/t") }
                    else if variant == "dup" { rpm::FileOptions::new("/d/f0") } else { rpm::FileOptions::new(format!("/d/f{}", i)) };
                b = b.with_file(&f, o).unwrap();
            }
            let pkg = b.build();
            let pkg = match pkg { Ok(p) => p, Err(e) => { let _ = std::fs::remove_dir_all(&dir); return format!("build-err {:?}", e).replace(' ', "_") } };
            let hx = |d: &[u8]| d.iter().map(|x| format!("{:02x}", x)).collect::<String>();
            let mut hb = Vec::new();
            let mut all = Vec::new();
            pkg.metadata.write(&mut all).unwrap();
            let o = pkg.metadata.get_package_segment_offsets();
            hb.extend_from_slice(&all[o.header as usize..]);
            let mut bad: Vec<String> = Vec::new();
            let sha = |d: &[u8]| hx(&sha2::Sha256::digest(d));
            if pkg.metadata.signature.get_entry_data_as_string(rpm::IndexSignatureTag::RPMSIGTAG_SHA256).ok() != Some(sha(&hb).as_str()) { bad.push("header".into()); }
            if pkg.metadata.header.get_entry_data_as_string_array(rpm::IndexTag::RPMTAG_PAYLOADDIGEST).ok().map(|v| v.to_vec()) != Some(vec![sha(&pkg.content)]) { bad.push("payload".into()); }
            if comp == "none" && pkg.metadata.header.get_entry_data_as_string_array(rpm::IndexTag::RPMTAG_PAYLOADDIGESTALT).ok().map(|v| v.to_vec()) != Some(vec![sha(&pkg.content)]) { bad.push("payloadalt".into()); }
            if !sizes.is_empty() && variant == "plain" {
                let want: Vec<String> = sizes.iter().enumerate().map(|(i, n)| sha(&content(i, *n))).collect();
                if pkg.metadata.header.get_entry_data_as_string_array(rpm::IndexTag::RPMTAG_FILEDIGESTS).ok().map(|v| v.to_vec()) != Some(want) { bad.push("files".into()); }
            }
            if variant != "plain" && comp == "none" {
                // each recorded file digest names the bytes the archive carries for that file (newc entries, same order as the header)
                let a = &pkg.content;
                let mut pos = 0usize;
                let mut bodies: Vec<String> = Vec::new();
                while pos + 110 <= a.len() {
                    let fld = |k: usize| usize::from_str_radix(std::str::from_utf8(&a[pos + 6 + 8 * k..pos + 14 + 8 * k]).unwrap_or("0"), 16).unwrap_or(0);
                    let (fsize, nsize) = (fld(6), fld(11));
                    let name = a[pos + 110..pos + 110 + nsize - 1].to_vec();
                    pos += 110 + nsize; pos += (4 - pos % 4) % 4;
                    if name == b"TRAILER!!!" { break; }
                    bodies.push(sha(&a[pos..pos + fsize]));
                    pos += fsize; pos += (4 - pos % 4) % 4;
                }
                if pkg.metadata.header.get_entry_data_as_string_array(rpm::IndexTag::RPMTAG_FILEDIGESTS).ok().map(|v| v.to_vec()) != Some(bodies) { bad.push("files".into()); }
            }
            if pkg.verify_digests().is_err() { bad.push("verify_digests".into()); }
            if !bad.is_empty() { verdict = format!("differs at {}: {}", lv, bad.join(",")).replace(' ', "_"); break; }
            }
            let _ = std::fs::remove_dir_all(&dir);
            verdict
        }
        "built_checks" => {
            // <size,size,...>: build, then verify_digests and offsets vs written bytes
            let sizes: Vec<usize> = if p[1] == "-" { vec![] } else { p[1].split(',').filter_map(|x| x.parse().ok()).collect() };
            let dir = std::env::temp_dir().join(format!("rpm-native-replay-bc-{}", std::process::id()));
            let _ = std::fs::create_dir_all(&dir);
            let mut b = rpm::PackageBuilder::new("n", "1", "MIT", "noarch", "s").compression(rpm::CompressionType::None);
            for (i, n) in sizes.iter().enumerate() {
                let f = dir.join(format!("f{}", i));
                std::fs::write(&f, vec![7u8; *n]).unwrap();
                b = b.with_file(&f, rpm::FileOptions::new(format!("/d/f{}", i))).unwrap();
            }
            let pkg = b.build();
            let _ = std::fs::remove_dir_all(&dir);
            let pkg = match pkg { Ok(p) => p, Err(e) => return format!("build-err {:?}", e).replace(' ', "_") };
            let mut bad: Vec<String> = Vec::new();
            if pkg.verify_digests().is_err() { bad.push("verify_digests".into()); }
            let o = pkg.metadata.get_package_segment_offsets();
            let mut out = Vec::new();
            pkg.write(&mut out).unwrap();
            let m = [0x8e, 0xad, 0xe8, 0x01];
            let (s, h, pl) = (o.signature_header as usize, o.header as usize, o.payload as usize);
            if !(o.lead == 0 && s == 96 && out.get(s..s + 4) == Some(&m[..]) && out.get(h..h + 4) == Some(&m[..]) && out.len() == pl + pkg.content.len()) { bad.push("offsets".into()); }
            if bad.is_empty() { "same".to_string() } else { format!("differs: {}", bad.join(",")) }
        }
        "wsink_zero" => {
            // <k>: write a built package (with a payload) into sinks that accept k bytes per call (0 = all) and are full - write() answers Ok(0) - after cap bytes, every cap
            struct Full { k: usize, cap: usize, data: Vec<u8> }
            impl std::io::Write for Full {
                fn write(&mut self, b: &[u8]) -> std::io::Result<usize> {
                    let room = self.cap - self.data.len();
                    let n = b.len().min(room).min(if self.k == 0 { usize::MAX } else { self.k });
                    self.data.extend_from_slice(&b[..n]);
                    Ok(n)
                }
                fn flush(&mut self) -> std::io::Result<()> { Ok(()) }
            }
            let k: usize = p[1].parse().unwrap_or(0);
            let src = std::env::temp_dir().join(format!("rpm-native-replay-src-{}", std::process::id()));
            std::fs::write(&src, b"payload bytes").unwrap();
            let pkg = rpm::PackageBuilder::new("x", "1.0", "MIT", "noarch", "d").compression(rpm::CompressionType::None).with_file(&src, rpm::FileOptions::new("/d/f")).and_then(|b| b.build());
            let _ = std::fs::remove_file(&src);
            let pkg = match pkg { Ok(p) => p, Err(_) => return "build-err".to_string() };
            let mut canon = Vec::new();
            pkg.write(&mut canon).unwrap();
            let mut bad = Vec::new();
            for cap in 0..canon.len() {
                let mut sink = Full { k, cap, data: Vec::new() };
                let good = match pkg.write(&mut sink) {
                    Ok(()) => false,                                     // the sink cannot have received everything
                    Err(_) => sink.data[..] == canon[..sink.data.len()],
                };
                if !good { bad.push(cap); }
            }
            if bad.is_empty() { "ok".to_string() } else { format!("bad capacities={:?}... ({} of {})", &bad[..bad.len().min(4)], bad.len(), canon.len()) }
        }
        "wsink" => {
            // <k> <fail_at> <intr_at> <package|metadata>: write a freshly built package into a scripted sink; every failure position is tried
            let k: usize = p[1].parse().unwrap_or(0);
            let intr_at: usize = p[3].parse().unwrap_or(0);
            let what = p.get(4).copied().unwrap_or("package");
            // optional 5th argument: a hand-encoded package (hex); then the canonical bytes are the input bytes themselves
            let given: Option<Vec<u8>> = p.get(5).map(|h| unhex_bytes(h));
            let pkg = match &given {
                Some(b) => match rpm::Package::parse(&mut &b[..]) { Ok(p) => p, Err(_) => return "parse-err".to_string() },
                None => match rpm::PackageBuilder::new("x", "1.0", "MIT", "noarch", "d").compression(rpm::CompressionType::None).build() {
                    Ok(p) => p,
                    Err(_) => return "build-err".to_string(),
                },
            };
            let mut canon = Vec::new();
            match &given {
                Some(b) => canon = if what == "package" { b.clone() } else { b[..b.len() - pkg.content.len()].to_vec() },
                None => { if what == "package" { pkg.write(&mut canon).unwrap() } else { pkg.metadata.write(&mut canon).unwrap() } }
            }
            let mut bad = Vec::new();
            let ncalls = if k == 0 { 400 } else { canon.len() / k + 400 };
            for fail_at in 0..ncalls {
                let mut sink = ScriptSink { k, fail_at, intr_at, data: Vec::new(), calls: 0, failed: false };
                let r = if what == "package" { pkg.write(&mut sink) } else { pkg.metadata.write(&mut sink) };
                let good = match r {
                    Ok(()) => !sink.failed && sink.data == canon,
                    Err(_) => sink.data.len() <= canon.len() && sink.data[..] == canon[..sink.data.len()],
                };
                if !good {
                    bad.push(fail_at);
                }
            }
            if bad.is_empty() { "ok".to_string() } else { format!("bad fail_at={:?}... ({} positions) canonical_len={}", &bad[..bad.len().min(4)], bad.len(), canon.len()) }
        }
        "files" => {
            // <hex package>: iterate the payload with Package::files(); answers ok <n> | err <where> | panic
            let b = unhex_bytes(p[1]);
            match rpm::Package::parse(&mut &b[..]) {
                Err(_) => "parse-err".to_string(),
                Ok(pkg) => match pkg.files() {
                    Err(e) => format!("err files {}", format!("{:?}", e).replace(' ', "_")),
                    Ok(it) => {
                        let mut n = 0;
                        let mut out = String::from("ok");
                        for f in it {
                            match f {
                                Ok(_) => n += 1,
                                Err(_) => {
                                    out = "err entry".to_string();
                                    break;
                                }
                            }
                        }
                        format!("{} {}", out, n)
                    }
                },
            }
        }
        "extract" => {
            // <hex package>: extract into <scratch>/jail/t; report panics and anything that appears, changes or vanishes in <scratch> outside jail/t
            let b = unhex_bytes(p[1]);
            match rpm::Package::parse(&mut &b[..]) {
                Err(_) => "parse-err".to_string(),
                Ok(pkg) => {
                    let base = std::env::temp_dir().join(format!("rpm-native-replay-{}-{}", std::process::id(), EXTRACT_SEQ.fetch_add(1, std::sync::atomic::Ordering::SeqCst)));
                    let _ = std::fs::remove_dir_all(&base);
                    let jail = base.join("jail");
                    std::fs::create_dir_all(jail.join("outside")).unwrap();
                    std::fs::write(jail.join("outside").join("victim"), b"victim").unwrap();
                    std::fs::write(base.join("victim"), b"victim").unwrap();
                    let before = snapshot(&base, &jail.join("t"));
                    let target = jail.join("t");
                    let r = std::panic::catch_unwind(std::panic::AssertUnwindSafe(|| pkg.extract(&target)));
                    let after = snapshot(&base, &jail.join("t"));
                    let inside = snapshot(&jail.join("t"), std::path::Path::new("/nonexistent"));
                    let _ = std::fs::remove_dir_all(&base);
                    let verdict = match r {
                        Err(_) => "panic".to_string(),
                        Ok(Ok(())) => "ok".to_string(),
                        Ok(Err(e)) => format!("err {}", format!("{:?}", e).split(|c: char| !c.is_alphanumeric()).next().unwrap_or("")),
                    };
                    if before != after {
                        let diff: Vec<String> = after.iter().filter(|x| !before.contains(x)).chain(before.iter().filter(|x| !after.contains(x))).cloned().collect();
                        format!("escaped {} [{}] outside: {}", verdict, inside.join(","), diff.join(","))
                    } else {
                        format!("{} [{}]", verdict, inside.join(","))
                    }
                }
            }
        }
        "build_level" => {
            // <Gzip|Xz|Bzip2|Zstd|None> <level>: build an empty package with that compression
            let lv: i64 = p[2].parse().unwrap_or(0);
            let c = match p[1] {
                "Gzip" => rpm::CompressionWithLevel::Gzip(lv as u32),
                "Xz" => rpm::CompressionWithLevel::Xz(lv as u32),
                "Bzip2" => rpm::CompressionWithLevel::Bzip2(lv as u32),
                "Zstd" => rpm::CompressionWithLevel::Zstd(lv as u32 as i32),
                _ => rpm::CompressionWithLevel::None,
            };
            match std::panic::catch_unwind(|| rpm::PackageBuilder::new("a", "1", "MIT", "x86_64", "s").compression(c).build()) {
                Err(_) => "panic".to_string(),
                Ok(Ok(_)) => "ok".to_string(),
                Ok(Err(e)) => format!("err {}", format!("{:?}", e).split(|c: char| !c.is_alphanumeric()).next().unwrap_or("")),
            }
        }
        "enc_new" => {
            // <flate2|liblzma|bzip2> <level>: does the encoder constructor the crate calls panic on this level?
            let lv: u32 = p[2].parse::<u64>().unwrap_or(0) as u32;
            let r = match p[1] {
                "flate2" => std::panic::catch_unwind(|| drop(flate2::write::GzEncoder::new(Vec::new(), flate2::Compression::new(lv)))),
                "liblzma" => std::panic::catch_unwind(|| drop(liblzma::write::XzEncoder::new(Vec::new(), lv))),
                "bzip2" => std::panic::catch_unwind(|| drop(bzip2::write::BzEncoder::new(Vec::new(), bzip2::Compression::new(lv)))),
                _ => Ok(()),
            };
            if r.is_err() { "panic".to_string() } else { "ok".to_string() }
        }
        "scriptlet_getters" => {
            // <hex metadata>: every scriptlet getter that answers, as NAME=text:flags:prog,prog
            let b = unhex_bytes(p[1]);
            match rpm::PackageMetadata::parse(&mut &b[..]) {
                Err(_) => "parse-err".to_string(),
                Ok(m) => {
                    let got = [("PREIN", m.get_pre_install_script()), ("POSTIN", m.get_post_install_script()), ("PREUN", m.get_pre_uninstall_script()), ("POSTUN", m.get_post_uninstall_script()),
                               ("PRETRANS", m.get_pre_trans_script()), ("POSTTRANS", m.get_post_trans_script()), ("PREUNTRANS", m.get_pre_untrans_script()), ("POSTUNTRANS", m.get_post_untrans_script())];
                    let mut out = Vec::new();
                    for (n, g) in got.iter() {
                        if let Ok(s) = g {
                            out.push(format!("{}={}:{:x}:{}", n, hex(&s.script), s.flags.map(|f| f.bits()).unwrap_or(0),
                                s.program.as_ref().map(|v| v.iter().map(|x| hex(x)).collect::<Vec<_>>().join(",")).unwrap_or_else(|| "-".to_string())));
                        }
                    }
                    format!("ok {}", out.join(" "))
                }
            }
        }
        "file_entries" => {
            let b = unhex_bytes(p[1]);
            match rpm::PackageMetadata::parse(&mut &b[..]) {
                Err(_) => "parse-err".to_string(),
                Ok(m) => match m.get_file_entries() {
                    Ok(v) => format!("ok {}", v.iter().map(|x| x.size.to_string()).collect::<Vec<_>>().join(",")),
                    Err(_) => "err".to_string(),
                },
            }
        }
        "paths" => {
            let b = unhex_bytes(p[1]);
            match rpm::PackageMetadata::parse(&mut &b[..]) {
                Err(_) => "parse-err".to_string(),
                Ok(m) => match m.get_file_paths() {
                    Ok(v) => format!("ok {}", v.iter().map(|x| hex(&x.to_string_lossy())).collect::<Vec<_>>().join(",")),
                    Err(e) => format!("err {}", format!("{:?}", e).split(|c: char| !c.is_alphanumeric()).next().unwrap_or("")),
                },
            }
        }
        "sigverify" => {
            // <hex package> <accept pattern, one 0/1 per verifier call, missing = 1>
            let b = unhex_bytes(p[1]);
            let pat: Vec<bool> = p.get(2).map(|s| s.chars().map(|c| c == '1').collect()).unwrap_or_default();
            match rpm::Package::parse(&mut &b[..]) {
                Err(_) => "parse-err".to_string(),
                Ok(pkg) => {
                    let o = pkg.metadata.get_package_segment_offsets();
                    let mut meta = Vec::new();
                    pkg.metadata.write(&mut meta).unwrap();
                    let hdr = meta[o.header as usize..].to_vec();
                    let v = RecVerifier { algo: p.get(3).copied().unwrap_or("RSA").to_string(), pat, calls: std::cell::RefCell::new(Vec::new()) };
                    let r = pkg.verify_signature(&v);
                    let calls = v.calls.borrow();
                    let mut cov = String::new();
                    for (data, _sig) in calls.iter() {
                        let mut hc = hdr.clone();
                        hc.extend_from_slice(&pkg.content);
                        cov.push(if *data == hdr { 'h' } else if *data == hc { 'c' } else { 'x' });
                    }
                    let sigs: Vec<String> = calls.iter().map(|(_, s)| hexb(s)).collect();
                    format!("{} calls={} covers={} sigs={}", match r { Ok(()) => "ok".to_string(), Err(e) => format!("err:{}", format!("{:?}", e).split(|c: char| !c.is_alphanumeric()).next().unwrap_or("")) },
                            calls.len(), if cov.is_empty() { "-".to_string() } else { cov }, if sigs.is_empty() { "-".to_string() } else { sigs.join(",") })
                }
            }
        }
        "meta_chunked" => {
            // same as meta_rt but through a source that returns one byte per read, behind a 1-byte BufReader
            struct OneByte<'a>(&'a [u8]);
            impl<'a> std::io::Read for OneByte<'a> {
                fn read(&mut self, out: &mut [u8]) -> std::io::Result<usize> {
                    if out.is_empty() || self.0.is_empty() {
                        return Ok(0);
                    }
                    out[0] = self.0[0];
                    self.0 = &self.0[1..];
                    Ok(1)
                }
            }
            let b = unhex_bytes(p[1]);
            let mut rd = std::io::BufReader::with_capacity(1, OneByte(&b[..]));
            match rpm::PackageMetadata::parse(&mut rd) {
                Err(_) => "parse-err".to_string(),
                Ok(m) => {
                    let mut out = Vec::new();
                    match m.write(&mut out) {
                        Ok(()) => format!("ok {}", hexb(&out)),
                        Err(_) => "write-err".to_string(),
                    }
                }
            }
        }
        "clear_offsets" => {
            // parse, Header::clear() the signature header in place, then offsets vs written bytes
            let b = unhex_bytes(p[1]);
            match rpm::PackageMetadata::parse(&mut &b[..]) {
                Err(_) => "parse-err".to_string(),
                Ok(mut m) => {
                    m.signature.clear();
                    let o = m.get_package_segment_offsets();
                    let mut out = Vec::new();
                    m.write(&mut out).unwrap();
                    let h = o.header as usize;
                    let good = o.signature_header == 96 && out.len() as u64 == o.payload && h + 4 <= out.len() && out[h..h + 4] == [0x8e, 0xad, 0xe8, 0x01];
                    format!("{} header={} payload={} written={}", if good { "ok" } else { "mismatch" }, o.header, o.payload, out.len())
                }
            }
        }
        "meta_offsets" => {
            let b = unhex_bytes(p[1]);
            match rpm::PackageMetadata::parse(&mut &b[..]) {
                Err(_) => "parse-err".to_string(),
                Ok(m) => {
                    let o = m.get_package_segment_offsets();
                    let mut out = Vec::new();
                    m.write(&mut out).unwrap();
                    let h = o.header as usize;
                    let good = o.lead == 0 && o.signature_header == 96 && out.len() as u64 == o.payload && h + 4 <= out.len()
                        && out[h..h + 4] == [0x8e, 0xad, 0xe8, 0x01] && out[96..100] == [0x8e, 0xad, 0xe8, 0x01];
                    format!("{} lead={} sig={} header={} payload={} written={}", if good { "ok" } else { "mismatch" }, o.lead, o.signature_header, o.header, o.payload, out.len())
                }
            }
        }
        "meta_rt" => {
            // parse -> write of package metadata; answers hex of the written bytes
            let b = unhex_bytes(p[1]);
            match rpm::PackageMetadata::parse(&mut &b[..]) {
                Err(_) => "parse-err".to_string(),
                Ok(m) => {
                    let mut out = Vec::new();
                    match m.write(&mut out) {
                        Ok(()) => format!("ok {}", hexb(&out)),
                        Err(_) => "write-err".to_string(),
                    }
                }
            }
        }
        _ => "unknown".to_string(),
    }
}

struct ScriptSink {
    k: usize,
    fail_at: usize,
    intr_at: usize,
    data: Vec<u8>,
    calls: usize,
    failed: bool,
}
impl std::io::Write for ScriptSink {
    fn write(&mut self, b: &[u8]) -> std::io::Result<usize> {
        if b.is_empty() {
            return Ok(0);
        }
        self.calls += 1;
        if self.failed || self.calls == self.fail_at {
            self.failed = true;
            return Err(std::io::Error::from(std::io::ErrorKind::Other));
        }
        if self.calls == self.intr_at {
            return Err(std::io::Error::from(std::io::ErrorKind::Interrupted));
        }
        let n = if self.k == 0 { b.len() } else { self.k.min(b.len()) };
        self.data.extend_from_slice(&b[..n]);
        Ok(n)
    }
    fn flush(&mut self) -> std::io::Result<()> {
        Ok(())
    }
}

#[derive(Debug)]
struct RecVerifier {
    algo: String,
    pat: Vec<bool>,
    calls: std::cell::RefCell<Vec<(Vec<u8>, Vec<u8>)>>,
}
impl rpm::signature::Verifying for RecVerifier {
    type Signature = Vec<u8>;
    fn verify(&self, mut data: impl std::io::Read, signature: &[u8]) -> Result<(), rpm::Error> {
        let mut d = Vec::new();
        data.read_to_end(&mut d).unwrap();
        let n = self.calls.borrow().len();
        self.calls.borrow_mut().push((d, signature.to_vec()));
        if self.pat.get(n).copied().unwrap_or(true) {
            Ok(())
        } else {
            Err(rpm::Error::NoSignatureFound)
        }
    }
    fn algorithm(&self) -> rpm::signature::AlgorithmType {
        match self.algo.as_str() {
            "EdDSA" => rpm::signature::AlgorithmType::EdDSA,
            "ECDSA" => rpm::signature::AlgorithmType::ECDSA,
            _ => rpm::signature::AlgorithmType::RSA,
        }
    }
}

fn unhex_bytes(s: &str) -> Vec<u8> {
    let s = if s == "-" { "" } else { s };
    (0..s.len() / 2).map(|i| u8::from_str_radix(&s[2 * i..2 * i + 2], 16).unwrap()).collect()
}
fn hexb(b: &[u8]) -> String {
    if b.is_empty() {
        return "-".to_string();
    }
    b.iter().map(|x| format!("{:02x}", x)).collect()
}

static EXTRACT_SEQ: std::sync::atomic::AtomicUsize = std::sync::atomic::AtomicUsize::new(0);

/// every entry below `root` except what lies below `skip`: "relative path:kind:mode:content-or-link"
fn snapshot(root: &std::path::Path, skip: &std::path::Path) -> Vec<String> {
    use std::os::unix::fs::PermissionsExt;
    fn walk(root: &std::path::Path, dir: &std::path::Path, skip: &std::path::Path, out: &mut Vec<String>) {
        let Ok(rd) = std::fs::read_dir(dir) else { return };
        for e in rd.flatten() {
            let p = e.path();
            if p == skip {
                continue;
            }
            let Ok(md) = p.symlink_metadata() else { continue };
            let rel = p.strip_prefix(root).unwrap().to_string_lossy().to_string();
            let mode = md.permissions().mode() & 0o7777;
            if md.file_type().is_symlink() {
                out.push(format!("{}:l:{}", rel, std::fs::read_link(&p).map(|x| x.to_string_lossy().to_string()).unwrap_or_default()));
            } else if md.is_dir() {
                out.push(format!("{}:d:{:o}", rel, mode));
                walk(root, &p, skip, out);
            } else {
                out.push(format!("{}:f:{:o}:{}", rel, mode, hexb(&std::fs::read(&p).unwrap_or_default())));
            }
        }
    }
    let mut out = Vec::new();
    walk(root, root, skip, &mut out);
    out.sort();
    out
}

fn main() {
    std::panic::set_hook(Box::new(|_| {}));
    let stdin = std::io::stdin();
    let stdout = std::io::stdout();
    for line in stdin.lock().lines() {
        let line = line.unwrap();
        let l2 = line.clone();
        let r = std::panic::catch_unwind(move || handle(&l2));
        let mut o = stdout.lock();
        match r {
            Ok(s) => writeln!(o, "{}", s).unwrap(),
            Err(_) => writeln!(o, "panic").unwrap(),
        }
        o.flush().unwrap();
    }
}
