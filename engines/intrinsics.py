"""Hand-written models of the std functions that the verified MIR calls (the trusted base of the
MIR engine; every model used by a run is listed in its evidence).  Strings are ASCII views with
concrete bounds (see symex.py); a model that has to know whether a byte matches asks `ex.decide`."""
import z3

from symex import (Adt, Arr, Bool, Cell, Closure, Int, NONE, Opaque, Ref, Str, Tup, UNIT, Unsupported, PathEnd,
                   ordering, some, usize)

I = {}


def intr(*names):
    def deco(f):
        for n in names:
            I[n] = f
        return f
    return deco


def deref_all(ex, v):
    while isinstance(v, Ref):
        v = ex.read_ref(v)
    return v


def ch(b):
    """byte -> char (ASCII)"""
    return Int(z3.ZeroExt(24, b), "char")


def as_str(ex, v):
    v = deref_all(ex, v)
    if isinstance(v, Adt) and v.ty == "Cow":
        v = deref_all(ex, v.fields[0])
    if isinstance(v, Adt) and v.ty in ("String",) and v.fields:
        v = v.fields[0]
    if not isinstance(v, Str):
        raise Unsupported("expected str, got %r" % (v,))
    return v


# ---- structural equality / ordering ------------------------------------------------------------------
def eq_expr(ex, a, b):
    a = deref_all(ex, a)
    b = deref_all(ex, b)
    if isinstance(a, Adt) and a.ty == "Cow":
        a = as_str(ex, a)
    if isinstance(b, Adt) and b.ty == "Cow":
        b = as_str(ex, b)
    if isinstance(a, Str) and isinstance(b, Str):
        if len(a) != len(b):
            return z3.BoolVal(False)
        if len(a) == 0:
            return z3.BoolVal(True)
        return z3.And([x == y for x, y in zip(a.bytes(), b.bytes())])
    if isinstance(a, Int) and isinstance(b, Int):
        return a.e == b.e
    if isinstance(a, Bool) and isinstance(b, Bool):
        return a.e == b.e
    if isinstance(a, Adt) and isinstance(b, Adt):
        if a.variant != b.variant:
            return z3.BoolVal(False)
        if not a.fields:
            return z3.BoolVal(True)
        return z3.And([eq_expr(ex, x, y) for x, y in zip(a.fields, b.fields)])
    if isinstance(a, Tup) and isinstance(b, Tup):
        return z3.And([eq_expr(ex, x, y) for x, y in zip(a.items, b.items)])
    ai, bi = getattr(a, "items", None), getattr(b, "items", None)
    if ai is not None and bi is not None:
        if len(ai) != len(bi):
            return z3.BoolVal(False)
        return z3.And([eq_expr(ex, x, y) for x, y in zip(ai, bi)]) if ai else z3.BoolVal(True)
    if isinstance(a, Opaque) and isinstance(b, Opaque) and a.tag == b.tag:
        return z3.BoolVal(True)
    if isinstance(a, Str) and bi is not None or isinstance(b, Str) and ai is not None:
        x = a.bytes() if isinstance(a, Str) else [i.e for i in ai]
        y = b.bytes() if isinstance(b, Str) else [i.e for i in bi]
        if len(x) != len(y):
            return z3.BoolVal(False)
        return z3.And([p == q for p, q in zip(x, y)]) if x else z3.BoolVal(True)
    raise Unsupported("eq on %r / %r" % (str(a)[:80], str(b)[:80]))


@intr("<_ as PartialEq>::eq")
def _eq(ex, args, f):
    return Bool(eq_expr(ex, args[0], args[1]))


@intr("<_ as PartialEq>::ne")
def _ne(ex, args, f):
    return Bool(z3.Not(eq_expr(ex, args[0], args[1])))


def str_lt_eq(a, b):
    """lexicographic (bytewise) order of two views: (lt, eq) as z3 terms"""
    n = min(len(a), len(b))
    eq_all = z3.BoolVal(True)
    lt = z3.BoolVal(False)
    # lt = OR_i (prefix equal up to i and a[i] < b[i])  or (common prefix equal and len(a) < len(b))
    terms = []
    pre = z3.BoolVal(True)
    for i in range(n):
        terms.append(z3.And(pre, z3.ULT(a.byte(i), b.byte(i))))
        pre = z3.And(pre, a.byte(i) == b.byte(i))
    if len(a) < len(b):
        terms.append(pre)
    lt = z3.Or(terms) if terms else z3.BoolVal(False)
    eq = pre if len(a) == len(b) else z3.BoolVal(False)
    return lt, eq


@intr("<_ as Ord>::cmp")
def _cmp(ex, args, f):
    a = deref_all(ex, args[0])
    b = deref_all(ex, args[1])
    if isinstance(a, Int):
        lt = (a.e < b.e) if a.signed else z3.ULT(a.e, b.e)
        eq = a.e == b.e
    else:
        a = as_str(ex, a)
        b = as_str(ex, b)
        lt, eq = str_lt_eq(a, b)
    if ex.decide(lt):
        return ordering("Less")
    if ex.decide(eq):
        return ordering("Equal")
    return ordering("Greater")


@intr("<_ as PartialOrd>::partial_cmp")
def _pcmp(ex, args, f):
    return some(_cmp(ex, args, f))


@intr("std::cmp::Ordering::reverse", "Ordering::reverse")
def _rev(ex, args, f):
    v = deref_all(ex, args[0]).variant
    return ordering({"Less": "Greater", "Greater": "Less", "Equal": "Equal"}[v])


# ---- chars -----------------------------------------------------------------------------------------------
def _c(args, ex):
    return deref_all(ex, args[0]).e


def is_digit(c):
    return z3.And(z3.UGE(c, ord("0")), z3.ULE(c, ord("9")))


def is_upper(c):
    return z3.And(z3.UGE(c, ord("A")), z3.ULE(c, ord("Z")))


def is_lower(c):
    return z3.And(z3.UGE(c, ord("a")), z3.ULE(c, ord("z")))


@intr("char::methods::<impl char>::is_ascii_digit")
def _isd(ex, args, f):
    return Bool(is_digit(_c(args, ex)))


@intr("char::methods::<impl char>::is_ascii_alphabetic")
def _isa(ex, args, f):
    c = _c(args, ex)
    return Bool(z3.Or(is_upper(c), is_lower(c)))


@intr("char::methods::<impl char>::is_ascii_alphanumeric")
def _isan(ex, args, f):
    c = _c(args, ex)
    return Bool(z3.Or(is_upper(c), is_lower(c), is_digit(c)))


def is_ws_byte(b):
    # char::is_whitespace restricted to ASCII: \t \n \x0b \x0c \r and space
    return z3.Or(b == 0x20, z3.And(z3.UGE(b, 0x09), z3.ULE(b, 0x0d)))


# ---- str -------------------------------------------------------------------------------------------------
S = "core::str::<impl str>::"


@intr(S + "len", "String::len")
def _len(ex, args, f):
    return usize(len(as_str(ex, args[0])))


@intr(S + "is_empty", "String::is_empty")
def _is_empty(ex, args, f):
    return Bool(len(as_str(ex, args[0])) == 0)


def match_at(ex, s, i, pat):
    """z3 Bool: does the (single-char or string) pattern match at byte offset i of s; returns (cond, width)"""
    p = deref_all(ex, pat)
    if isinstance(p, Str):
        if i + len(p) > len(s):
            return z3.BoolVal(False), len(p)
        if len(p) == 0:
            return z3.BoolVal(True), 0
        return z3.And([s.byte(i + k) == p.byte(k) for k in range(len(p))]), len(p)
    if i >= len(s):
        return z3.BoolVal(False), 1
    return ex.call_pattern(p, ch(s.byte(i))), 1


@intr(S + "trim_start_matches")
def _tsm(ex, args, f):
    s = as_str(ex, args[0])
    i = 0
    while i < len(s):
        c, w = match_at(ex, s, i, args[1])
        if w == 0 or not ex.decide(c):
            break
        i += w
    return s.sub(i)


@intr(S + "trim_end_matches")
def _tem(ex, args, f):
    s = as_str(ex, args[0])
    j = len(s)
    while j > 0:
        c, w = match_at(ex, s, j - 1, args[1])
        if not ex.decide(c):
            break
        j -= 1
    return s.sub(0, j)


@intr(S + "trim")
def _trim(ex, args, f):
    s = as_str(ex, args[0])
    i = 0
    while i < len(s) and ex.decide(is_ws_byte(s.byte(i))):
        i += 1
    j = len(s)
    while j > i and ex.decide(is_ws_byte(s.byte(j - 1))):
        j -= 1
    return s.sub(i, j)


@intr(S + "strip_prefix")
def _strip_prefix(ex, args, f):
    s = as_str(ex, args[0])
    c, w = match_at(ex, s, 0, args[1])
    if ex.decide(c):
        return some(s.sub(w))
    return NONE


@intr(S + "strip_suffix")
def _strip_suffix(ex, args, f):
    s = as_str(ex, args[0])
    p = deref_all(ex, args[1])
    w = len(p) if isinstance(p, Str) else 1
    if len(s) < w:
        return NONE
    c, _ = match_at(ex, s, len(s) - w, args[1])
    if ex.decide(c):
        return some(s.sub(0, len(s) - w))
    return NONE


@intr(S + "starts_with")
def _starts_with(ex, args, f):
    s = as_str(ex, args[0])
    c, w = match_at(ex, s, 0, args[1])
    return Bool(c)


@intr(S + "ends_with")
def _ends_with(ex, args, f):
    s = as_str(ex, args[0])
    p = deref_all(ex, args[1])
    w = len(p) if isinstance(p, Str) else 1
    if len(s) < w:
        return Bool(False)
    c, _ = match_at(ex, s, len(s) - w, args[1])
    return Bool(c)


def find_first(ex, s, pat, start=0):
    i = start
    while i < len(s):
        c, w = match_at(ex, s, i, pat)
        if ex.decide(c):
            return i, w
        i += 1
    return None, 0


def find_last(ex, s, pat):
    i = len(s) - 1
    while i >= 0:
        c, w = match_at(ex, s, i, pat)
        if ex.decide(c):
            return i, w
        i -= 1
    return None, 0


@intr(S + "find")
def _find(ex, args, f):
    s = as_str(ex, args[0])
    i, _ = find_first(ex, s, args[1])
    return NONE if i is None else some(usize(i))


@intr(S + "rfind")
def _rfind(ex, args, f):
    s = as_str(ex, args[0])
    i, _ = find_last(ex, s, args[1])
    return NONE if i is None else some(usize(i))


@intr(S + "contains")
def _contains(ex, args, f):
    s = as_str(ex, args[0])
    i, _ = find_first(ex, s, args[1])
    return Bool(i is not None)


@intr(S + "split_once")
def _split_once(ex, args, f):
    s = as_str(ex, args[0])
    i, w = find_first(ex, s, args[1])
    if i is None:
        return NONE
    return some(Tup([s.sub(0, i), s.sub(i + w)]))


@intr(S + "rsplit_once")
def _rsplit_once(ex, args, f):
    s = as_str(ex, args[0])
    i, w = find_last(ex, s, args[1])
    if i is None:
        return NONE
    return some(Tup([s.sub(0, i), s.sub(i + w)]))


def conc_usize(ex, v, what):
    v = deref_all(ex, v)
    c = v.conc()
    if c is None:
        # enumerate: indices are bounded by string lengths, so a few decides settle it
        for k in range(0, 64):
            if ex.decide(v.e == k):
                return k
        raise Unsupported("symbolic index in " + what)
    return c


@intr(S + "split_at")
def _split_at(ex, args, f):
    s = as_str(ex, args[0])
    mid = conc_usize(ex, args[1], "split_at")
    if mid > len(s):
        raise PathEnd("panic", "split_at: mid > len")
    return Tup([s.sub(0, mid), s.sub(mid)])


@intr("core::str::traits::<impl Index<I> for str>::index", "core::str::traits::<impl std::ops::Index<I> for str>::index",
      "<_ as Index>::index")
def _index(ex, args, f):
    s = as_str(ex, args[0])
    r = deref_all(ex, args[1])
    if isinstance(r, Adt) and r.ty == "RangeTo":
        b = conc_usize(ex, r.fields[0], "index")
        a = 0
    elif isinstance(r, Adt) and r.ty == "RangeFrom":
        a = conc_usize(ex, r.fields[0], "index")
        b = len(s)
    elif isinstance(r, Adt) and r.ty == "Range":
        a = conc_usize(ex, r.fields[0], "index")
        b = conc_usize(ex, r.fields[1], "index")
    else:
        raise Unsupported("index with %r" % (r,))
    if a > b or b > len(s):
        raise PathEnd("panic", "str index out of range")
    return s.sub(a, b)


@intr(S + "eq_ignore_ascii_case")
def _eqic(ex, args, f):
    a = as_str(ex, args[0])
    b = as_str(ex, args[1])
    if len(a) != len(b):
        return Bool(False)

    def low(x):
        return z3.If(z3.And(z3.UGE(x, ord("A")), z3.ULE(x, ord("Z"))), x + 32, x)
    return Bool(z3.And([low(x) == low(y) for x, y in zip(a.bytes(), b.bytes())]) if len(a) else z3.BoolVal(True))


@intr("std::str::<impl str>::to_uppercase", "alloc::str::<impl str>::to_uppercase")
def _to_upper(ex, args, f):
    s = as_str(ex, args[0])

    def up(x):
        return z3.If(z3.And(z3.UGE(x, ord("a")), z3.ULE(x, ord("z"))), x - 32, x)
    return Str([up(x) for x in s.bytes()], owned=True)


@intr("std::str::<impl str>::to_lowercase", "alloc::str::<impl str>::to_lowercase")
def _to_lower(ex, args, f):
    s = as_str(ex, args[0])

    def low(x):
        return z3.If(z3.And(z3.UGE(x, ord("A")), z3.ULE(x, ord("Z"))), x + 32, x)
    return Str([low(x) for x in s.bytes()], owned=True)


@intr("<_ as ToOwned>::to_owned", "<_ as ToString>::to_string", "String::as_str", "<_ as Deref>::deref", "<_ as AsRef>::as_ref",
      "<_ as Borrow>::borrow", "String::as_bytes", S + "as_bytes", S + "to_string", "<_ as Clone>::clone")
def _ident_str(ex, args, f):
    v = deref_all(ex, args[0])
    if isinstance(v, Adt) and v.ty == "Cow":
        return as_str(ex, v)
    return v


@intr("<_ as Into>::into", "<_ as From>::from")
def _into(ex, args, f):
    v = args[0]
    if "Cow<" in f and isinstance(deref_all(ex, v), Str):
        return Adt("Cow", "Borrowed", [deref_all(ex, v)])
    return v


@intr("must_use")
def _must_use(ex, args, f):
    return args[0]


# ---- iterators over str --------------------------------------------------------------------------------
class Iter:
    """iterator state object; lives in a Cell and is mutated through &mut"""

    def __init__(self, kind, s, pat=None):
        self.kind = kind
        self.s = s
        self.pat = pat
        self.done = False

    def __repr__(self):
        return "Iter(%s,%r)" % (self.kind, self.s)


@intr(S + "split_whitespace")
def _split_ws(ex, args, f):
    return Iter("split_ws", as_str(ex, args[0]))


@intr(S + "split")
def _split(ex, args, f):
    return Iter("split", as_str(ex, args[0]), args[1])


@intr(S + "chars")
def _chars(ex, args, f):
    return Iter("chars", as_str(ex, args[0]))


@intr(S + "bytes")
def _bytes(ex, args, f):
    return Iter("bytes", as_str(ex, args[0]))


@intr("<_ as IntoIterator>::into_iter")
def _into_iter(ex, args, f):
    return args[0]


@intr("<_ as Iterator>::next")
def _next(ex, args, f):
    r = args[0]
    it = deref_all(ex, r)
    if not isinstance(it, Iter):
        raise Unsupported("next on %r" % (it,))
    # iterator objects are mutated in place: each path re-executes from scratch, so this is safe
    s = it.s
    if it.kind == "chars":
        if len(s) == 0:
            return NONE
        b0 = z3.simplify(s.byte(0))
        if z3.is_bv_value(b0) and b0.as_long() >= 0x80:
            # a literal (concrete) non-ASCII character: decode the UTF-8 sequence; symbolic text stays within the ASCII bound (A2)
            lead = b0.as_long()
            n = 2 if lead >> 5 == 0b110 else 3 if lead >> 4 == 0b1110 else 4 if lead >> 3 == 0b11110 else 0
            cont = [z3.simplify(s.byte(i)) for i in range(1, n)] if 0 < n <= len(s) else []
            if not n or len(cont) != n - 1 or not all(z3.is_bv_value(c) and c.as_long() >> 6 == 0b10 for c in cont):
                raise Unsupported("chars() over bytes that are not UTF-8")
            cp = lead & (0xff >> (n + 1))
            for c in cont:
                cp = (cp << 6) | (c.as_long() & 0x3f)
            it.s = s.sub(n)
            return some(Int(cp, "char"))
        it.s = s.sub(1)
        return some(ch(s.byte(0)))
    if it.kind == "bytes":
        if len(s) == 0:
            return NONE
        it.s = s.sub(1)
        return some(Int(s.byte(0), "u8"))
    if it.kind == "char_indices":
        if len(s) == 0:
            return NONE
        it.s = s.sub(1)
        it.idx += 1
        return some(Tup([usize(it.idx - 1), ch(s.byte(0))]))
    if it.kind == "rsplit":
        if it.done:
            return NONE
        i, w = find_last(ex, s, it.pat)
        if i is None:
            it.done = True
            return some(s)
        it.s = s.sub(0, i)
        return some(s.sub(i + w))
    if it.kind == "split":
        if it.done:
            return NONE
        lim = getattr(it, "limit", None)
        if lim is not None:
            if lim <= 1:
                it.done = True
                return some(s) if lim == 1 else NONE
            it.limit = lim - 1
        if getattr(it, "terminator", False) and len(s) == 0:
            it.done = True
            return NONE
        i, w = find_first(ex, s, it.pat)
        if i is None:
            it.done = True
            return some(s)
        it.s = s.sub(i + w)
        return some(s.sub(0, i))
    if it.kind == "split_ws":
        i = 0
        while i < len(s) and ex.decide(is_ws_byte(s.byte(i))):
            i += 1
        if i == len(s):
            it.s = s.sub(i)
            return NONE
        j = i
        while j < len(s) and not ex.decide(is_ws_byte(s.byte(j))):
            j += 1
        it.s = s.sub(j)
        return some(s.sub(i, j))
    raise Unsupported("iterator kind " + it.kind)


# ---- Option / Result / Try -----------------------------------------------------------------------------
@intr("Option::or")
def _opt_or(ex, args, f):
    return args[0] if args[0].variant == "Some" else args[1]


@intr("Option::filter")
def _opt_filter(ex, args, f):
    o = args[0]
    if o.variant == "None":
        return NONE
    r = ex.call_closure(deref_all(ex, args[1]), [Ref(Cell(o.fields[0]))])
    return o if ex.decide(r.e) else NONE


@intr("Option::unwrap_or")
def _unwrap_or(ex, args, f):
    return args[0].fields[0] if args[0].variant == "Some" else args[1]


@intr("Option::is_some")
def _is_some(ex, args, f):
    return Bool(deref_all(ex, args[0]).variant == "Some")


@intr("Option::is_none")
def _is_none(ex, args, f):
    return Bool(deref_all(ex, args[0]).variant == "None")


@intr("Result::is_ok")
def _is_ok(ex, args, f):
    return Bool(deref_all(ex, args[0]).variant == "Ok")


@intr("<_ as Try>::branch")
def _branch(ex, args, f):
    v = args[0]
    if v.ty == "Option":
        return Adt("ControlFlow", "Continue", [v.fields[0]]) if v.variant == "Some" else Adt("ControlFlow", "Break", [NONE])
    if v.ty == "Result":
        if v.variant == "Ok":
            return Adt("ControlFlow", "Continue", [v.fields[0]])
        return Adt("ControlFlow", "Break", [Adt("Result", "Err", [v.fields[0]])])
    raise Unsupported("Try::branch on %r" % (v,))


@intr("<_ as FromResidual>::from_residual")
def _from_residual(ex, args, f):
    v = args[0]
    if isinstance(v, Adt) and v.ty == "Result" and v.variant == "Err":
        return Adt("Result", "Err", [v.fields[0]])
    return NONE


# ---- slices ------------------------------------------------------------------------------------------------
@intr("core::slice::<impl [T]>::contains", "core::slice::<impl [&str]>::contains")
def _slice_contains(ex, args, f):
    arr = deref_all(ex, args[0])
    needle = deref_all(ex, args[1])
    if not isinstance(arr, Arr):
        raise Unsupported("contains on %r" % (arr,))
    return Bool(z3.Or([eq_expr(ex, x, needle) for x in arr.items]))


# ---- formatting: only what error paths and Display impls need -------------------------------------------
@intr("core::fmt::rt::Argument::new_display", "core::fmt::rt::Argument::<'_>::new_display")
def _new_display(ex, args, f):
    return Opaque("fmtarg", args[0])


@intr("core::fmt::rt::Argument::new_lower_hex", "core::fmt::rt::Argument::<'_>::new_lower_hex")
def _new_lower_hex(ex, args, f):
    return Opaque("fmtarg_x", args[0])


@intr("Arguments::new", "Arguments::<'_>::new", "std::fmt::Arguments::new", "Arguments::from_str", "Arguments::<'_>::from_str")
def _args_new(ex, args, f):
    return Opaque("fmtargs", args)


def render_int(ex, v, base):
    """digits of an integer (unsigned, or signed and non-negative on this path): the number of digits is decided by forking, each digit is a term"""
    e = v.e
    w = e.size()
    if v.signed and base == "d":
        if ex.decide(e < 0):
            # "-" followed by the digits of the magnitude (as an unsigned number of the same width: i32::MIN is covered)
            return [z3.BitVecVal(ord("-"), 8)] + render_int(ex, type(v)(0 - e, "u%d" % w), "d")
    elif v.signed and ex.decide(e < 0):
        raise Unsupported("formatting a negative integer in hexadecimal")
    if base == "x":
        n = 1
        while n * 4 < w and ex.decide(z3.UGE(e, z3.BitVecVal(1 << (4 * n), w))):
            n += 1
        outd = []
        for k in range(n - 1, -1, -1):
            nib = z3.Extract(4 * k + 3, 4 * k, e)
            outd.append(z3.If(z3.ULT(nib, 10), z3.ZeroExt(4, nib) + 0x30, z3.ZeroExt(4, nib) + 0x57))
        return outd
    n = 1
    while 10 ** n < (1 << w) and ex.decide(z3.UGE(e, z3.BitVecVal(10 ** n, w))):
        n += 1
    outd = []
    for k in range(n - 1, -1, -1):
        dgt = z3.URem(z3.UDiv(e, z3.BitVecVal(10 ** k, w)), z3.BitVecVal(10, w))
        outd.append(z3.Extract(7, 0, dgt) + 0x30)
    return outd


def render_args(ex, fa):
    """Arguments -> Str (concatenation).  Template encoding of this toolchain: 0xC0 = next argument with
    default formatting, 1..=0x7f = literal of that many bytes, 0 = end.  Anything else: Unsupported."""
    if not (isinstance(fa, Opaque) and fa.tag == "fmtargs"):
        raise Unsupported("render of %r" % (fa,))
    tmpl = deref_all(ex, fa.payload[0])
    if len(fa.payload) == 1:
        return tmpl
    arr = deref_all(ex, fa.payload[1])
    items = arr.items if isinstance(arr, Arr) else []
    out = []
    tb = []
    for b in tmpl.bytes():
        s = z3.simplify(b)
        if not z3.is_bv_value(s):
            raise Unsupported("symbolic format template")
        tb.append(s.as_long())
    i = 0
    ai = 0
    while i < len(tb):
        t = tb[i]
        if t == 0:
            break
        if 0xC0 < t <= 0xC7:
            # placeholder with options: bit 0 = 4 bytes of flags (fill char in the low 21 bits, bit 24 = zero padding), bit 1 = 2 bytes of width,
            # bit 2 = 2 bytes of precision (all little-endian).  Supported: integers in lower hex / decimal with zero or space padding to a width.
            j = i + 1
            flags, width = 0x20, 0
            if t & 1:
                flags = tb[j] | tb[j + 1] << 8 | tb[j + 2] << 16 | tb[j + 3] << 24
                j += 4
            if t & 2:
                width = tb[j] | tb[j + 1] << 8
                j += 2
            if t & 4:
                raise Unsupported("format placeholder with a precision")
            a = items[ai]
            ai += 1
            v = deref_all(ex, a.payload)
            if not isinstance(v, Int):
                raise Unsupported("format options on a non-integer argument")
            digits = render_int(ex, v, "x" if a.tag == "fmtarg_x" else "d")
            fill = ord("0") if flags & (1 << 24) else (flags & 0x1fffff)
            if fill > 0x7f:
                raise Unsupported("non-ASCII fill character")
            out += [z3.BitVecVal(fill, 8)] * max(0, width - len(digits)) + digits
            i = j
            continue
        if t == 0xC0:
            a = items[ai]
            ai += 1
            v = deref_all(ex, a.payload)
            if isinstance(v, Int) and v.ty != "char" and a.tag in ("fmtarg", "fmtarg_x"):
                out += render_int(ex, v, "x" if a.tag == "fmtarg_x" else "d")
                i += 1
                continue
            if isinstance(v, Int) and v.ty == "char":
                out.append(z3.Extract(7, 0, v.e))
            elif isinstance(v, Adt) and v.ty not in ("Cow", "String"):
                # a crate type with its own Display impl: run that impl's MIR into a scratch formatter
                f = ex.find_impl("fmt", "Display", v.ty)
                if f is None:
                    raise Unsupported("no Display impl found for " + v.ty)
                fm = Formatter()
                ex.call_fn(f, [Ref(Cell(v)), Ref(Cell(fm))])
                out += fm.out
            else:
                out += as_str(ex, v).bytes()
            i += 1
        elif 1 <= t <= 0x7f:
            out += [z3.BitVecVal(x, 8) for x in tb[i + 1:i + 1 + t]]
            i += 1 + t
        else:
            raise Unsupported("format template byte 0x%02x" % t)
    return Str(out, owned=True)


@intr("std::fmt::format", "alloc::fmt::format")
def _format(ex, args, f):
    try:
        return render_args(ex, args[0])
    except Unsupported:
        # messages with numbers etc.: only their existence matters (error texts are not part of any property)
        return Opaque("string")


class Formatter:
    def __init__(self):
        self.out = []


@intr("Formatter::write_fmt", "Formatter::<'_>::write_fmt")
def _write_fmt(ex, args, f):
    fm = deref_all(ex, args[0])
    s = render_args(ex, args[1])
    fm.out += s.bytes()
    return Adt("Result", "Ok", [UNIT])


@intr("Formatter::write_str", "Formatter::<'_>::write_str", "<_ as Write>::write_str")
def _write_str(ex, args, f):
    fm = deref_all(ex, args[0])
    fm.out += as_str(ex, args[1]).bytes()
    return Adt("Result", "Ok", [UNIT])


# ---- more str primitives (plausible replacements a maintainer might reach for) ------------------------------------------------
@intr(S + "trim_matches")
def _trim_matches(ex, args, f):
    s = as_str(ex, args[0])
    i = 0
    while i < len(s):
        c, w = match_at(ex, s, i, args[1])
        if w == 0 or not ex.decide(c):
            break
        i += w
    j = len(s)
    while j > i:
        c, w = match_at(ex, s, j - 1, args[1])
        if not ex.decide(c):
            break
        j -= 1
    return s.sub(i, j)


@intr(S + "trim_start")
def _trim_start(ex, args, f):
    s = as_str(ex, args[0])
    i = 0
    while i < len(s) and ex.decide(is_ws_byte(s.byte(i))):
        i += 1
    return s.sub(i)


@intr(S + "trim_end")
def _trim_end(ex, args, f):
    s = as_str(ex, args[0])
    j = len(s)
    while j > 0 and ex.decide(is_ws_byte(s.byte(j - 1))):
        j -= 1
    return s.sub(0, j)


@intr(S + "split_terminator")
def _split_terminator(ex, args, f):
    it = Iter("split", as_str(ex, args[0]), args[1])
    it.terminator = True
    return it


@intr(S + "rsplit")
def _rsplit(ex, args, f):
    return Iter("rsplit", as_str(ex, args[0]), args[1])


@intr(S + "splitn")
def _splitn(ex, args, f):
    n = deref_all(ex, args[1]).conc()
    if n is None:
        raise Unsupported("splitn with symbolic n")
    it = Iter("split", as_str(ex, args[0]), args[2])
    it.limit = n
    return it


@intr(S + "char_indices")
def _char_indices(ex, args, f):
    it = Iter("char_indices", as_str(ex, args[0]))
    it.idx = 0
    return it


@intr(S + "get")
def _str_get(ex, args, f):
    s = as_str(ex, args[0])
    r = deref_all(ex, args[1])
    n = len(s)
    lo = r.fields[0] if r.ty != "RangeTo" else usize(0)
    hi = r.fields[-1] if r.ty != "RangeFrom" else usize(n)
    if ex.decide(z3.Or(z3.UGT(hi.e, n), z3.UGT(lo.e, hi.e))):
        return NONE
    return some(s.sub(conc_usize(ex, lo, "get"), conc_usize(ex, hi, "get")))


@intr("char::methods::<impl char>::is_ascii_uppercase")
def _isup(ex, args, f):
    return Bool(is_upper(_c(args, ex)))


@intr("char::methods::<impl char>::is_ascii_lowercase")
def _islow(ex, args, f):
    return Bool(is_lower(_c(args, ex)))


@intr("char::methods::<impl char>::is_ascii_punctuation")
def _ispunct(ex, args, f):
    c = _c(args, ex)
    return Bool(z3.Or(z3.And(z3.UGE(c, 0x21), z3.ULE(c, 0x2f)), z3.And(z3.UGE(c, 0x3a), z3.ULE(c, 0x40)), z3.And(z3.UGE(c, 0x5b), z3.ULE(c, 0x60)),
                      z3.And(z3.UGE(c, 0x7b), z3.ULE(c, 0x7e))))


@intr("char::methods::<impl char>::is_whitespace", "char::methods::<impl char>::is_ascii_whitespace")
def _iswsp(ex, args, f):
    c = _c(args, ex)
    return Bool(z3.Or(c == 0x20, z3.And(z3.UGE(c, 0x09), z3.ULE(c, 0x0d))))


@intr("char::methods::<impl char>::is_alphanumeric", "char::methods::<impl char>::is_numeric", "char::methods::<impl char>::is_alphabetic")
def _isalnum_uni(ex, args, f):
    # Unicode-aware classes restricted to the ASCII bound of the engine
    c = _c(args, ex)
    d, a = is_digit(c), z3.Or(is_upper(c), is_lower(c))
    if f.rstrip().endswith("is_numeric"):
        return Bool(d)
    if f.rstrip().endswith("is_alphabetic"):
        return Bool(a)
    return Bool(z3.Or(d, a))
