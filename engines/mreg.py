"""Registry and helpers shared by the MIR-engine harness modules."""
import random
import re
import subprocess

import z3

from symex import Unsupported

ORD = {"Less": -1, "Equal": 0, "Greater": 1}
HARNESSES = {}


def harness(name):
    def deco(f):
        HARNESSES[name] = f
        return f
    return deco


class Native:
    """the real compiled crate, driven over a pipe"""

    def __init__(self, path):
        self.p = subprocess.Popen([path], stdin=subprocess.PIPE, stdout=subprocess.PIPE, text=True, bufsize=1)

    def ask(self, *words):
        self.p.stdin.write(" ".join(words) + "\n")
        self.p.stdin.flush()
        return self.p.stdout.readline().strip()

    @staticmethod
    def hex(b):
        return b.hex() if b else "-"

    @staticmethod
    def unhex(s):
        return b"" if s == "-" else bytes.fromhex(s)


class Ctx:
    def __init__(self, funcs, native, seed):
        self.funcs = funcs
        self.native = native
        self.rng = random.Random(seed)
        self.failed = []
        self.covers = {}
        self.stats = None
        self.bounds = ""
        self.extra = {}
        self.validated = 0

    def find_fn(self, name_re, param_re=None):
        out = []
        for n, fl in self.funcs.items():
            if re.fullmatch(name_re, n):
                for f in fl:
                    if param_re is None or all(re.search(pr, pt) for pr, (_i, pt) in zip(param_re, f.params)):
                        out.append(f)
        if len(out) != 1:
            raise Unsupported("function lookup %s matched %d bodies" % (name_re, len(out)))
        return out[0]

    def impl_fn(self, meth, traitn, selfn):
        from symex import Exec
        if not hasattr(self, "_ex0"):
            self._ex0 = Exec(self.funcs, {})
        f = self._ex0.find_impl(meth, traitn, selfn)
        if f is None:
            raise Unsupported("impl lookup %s / %s for %s failed" % (meth, traitn, selfn))
        return f

    def cover(self, name, hit=True):
        self.covers[name] = self.covers.get(name, False) or bool(hit)

    def fail(self, description, function, **inputs):
        self.failed.append(dict(description=description, function=function, **inputs))


def model_bytes(ex, vars_):
    m = ex.witness_model()
    return bytes(m.eval(x, model_completion=True).as_long() for x in vars_)


def sym_bytes(ex, name, n, lo=1, hi=0x7f, exclude=()):
    bs = [z3.BitVec("%s%d" % (name, i), 8) for i in range(n)]
    for x in bs:
        ex.solver.add(z3.UGE(x, lo), z3.ULE(x, hi))
        for e in exclude:
            ex.solver.add(x != e)
    return bs



REPLAYERS = {}
