"""MIR-engine harnesses for the text properties: C19 (capability text), C15 (EVR / NEVRA / compression type)."""
import re

import z3

import intrinsics
from mreg import HARNESSES, REPLAYERS, Native, model_bytes, sym_bytes
from symex import Adt, Exec, Int, Str, Tup, Unsupported, Ref, Cell, Opaque

CAPS = [b"CAP_CHOWN", b"CAP_DAC_OVERRIDE", b"CAP_DAC_READ_SEARCH", b"CAP_FOWNER", b"CAP_FSETID", b"CAP_KILL", b"CAP_SETGID", b"CAP_SETUID",
        b"CAP_SETPCAP", b"CAP_LINUX_IMMUTABLE", b"CAP_NET_BIND_SERVICE", b"CAP_NET_BROADCAST", b"CAP_NET_ADMIN", b"CAP_NET_RAW", b"CAP_IPC_LOCK",
        b"CAP_IPC_OWNER", b"CAP_SYS_MODULE", b"CAP_SYS_RAWIO", b"CAP_SYS_CHROOT", b"CAP_SYS_PTRACE", b"CAP_SYS_PACCT", b"CAP_SYS_ADMIN",
        b"CAP_SYS_BOOT", b"CAP_SYS_NICE", b"CAP_SYS_RESOURCE", b"CAP_SYS_TIME", b"CAP_SYS_TTY_CONFIG", b"CAP_MKNOD", b"CAP_LEASE",
        b"CAP_AUDIT_WRITE", b"CAP_AUDIT_CONTROL", b"CAP_SETFCAP", b"CAP_MAC_OVERRIDE", b"CAP_MAC_ADMIN", b"CAP_SYSLOG", b"CAP_WAKE_ALARM",
        b"CAP_BLOCK_SUSPEND", b"CAP_AUDIT_READ", b"CAP_PERFMON", b"CAP_BPF", b"CAP_CHECKPOINT_RESTORE"]


def lit(bs):
    return [z3.BitVecVal(b, 8) for b in bs]


def _ws(b):
    return z3.Or(b == 0x20, z3.And(z3.UGE(b, 0x09), z3.ULE(b, 0x0d)))


def _is_op(b):
    return z3.Or(b == ord("+"), b == ord("-"), b == ord("="))


def _up(b):
    return z3.If(z3.And(z3.UGE(b, ord("a")), z3.ULE(b, ord("z"))), b - 32, b)


def _eq_ci(D, bs, word):
    if len(bs) != len(word):
        return False
    return D(z3.And([_up(x) == w for x, w in zip(bs, word)])) if bs else True


def caps_spec(ex, bs):
    """The property's grammar, written independently of the implementation:
    text   := ws* clause (ws+ clause)* ws*
    clause := [names] group+        names may be omitted only if the clause starts with '='
    names  := 'all' (any case) | name (',' name)*   each name a known capability (any case)
    group  := op flag*              two operators never adjacent; op in = + - ; flag in e i p
    """
    D = ex.decide
    n = len(bs)
    i = 0
    clauses = []
    while i < n:
        if D(_ws(bs[i])):
            i += 1
            continue
        j = i
        while j < n and not D(_ws(bs[j])):
            j += 1
        clauses.append(bs[i:j])
        i = j
    if not clauses:
        return False
    for cl in clauses:
        k = 0
        while k < len(cl) and not D(_is_op(cl[k])):
            k += 1
        if k == len(cl):
            return False
        names, suffix = cl[:k], cl[k:]
        if k == 0:
            if not D(cl[0] == ord("=")):
                return False
        elif not _eq_ci(D, names, b"ALL"):
            # comma separated known names
            start = 0
            items = []
            for t in range(len(names) + 1):
                if t == len(names) or D(names[t] == ord(",")):
                    items.append(names[start:t])
                    start = t + 1
            for it in items:
                if not any(_eq_ci(D, it, c) for c in CAPS if len(c) == len(it)):
                    return False
        prev_op = False
        for c in suffix:
            if D(_is_op(c)):
                if prev_op:
                    return False
                prev_op = True
            elif D(z3.Or(c == ord("e"), c == ord("i"), c == ord("p"))):
                prev_op = False
            else:
                return False
    return True


def validate_caps(ctx, n=120):
    f = ctx.find_fn(r"(filecaps::)?validate_caps_text")
    vectors = [b"", b" ", b"cap_chown", b"+eip", b"cap_chown+-p", b"cap_chown+y", b"cap_noexist+p", b"cap_chown=p", b"cap_chown+ie", b"=e cap_chown-e",
               b"=e", b"all=e", b"cap_chown,cap_syslog=e", b"=e +p", b"cap_chown=e =p", b"ALL+p", b",=e", b"\tcap_kill=ep\n", b"cap_chown="]
    alpha = b"=+-eipx, \tal"
    for _ in range(n):
        vectors.append(bytes(ctx.rng.choice(alpha) for _ in range(ctx.rng.randint(0, 7))))
    ex = Exec(ctx.funcs, intrinsics.I)
    for a in vectors:
        res = []
        ex.run_all(lambda e: a, lambda e, inp: e.call_fn(f, [Str.lit(a)]), lambda e, i, o: res.append(o))
        k, v = res[0]
        mine = "panic" if k != "return" else ("ok" if v.variant == "Ok" else "err")
        real = ctx.native.ask("caps", Native.hex(a)).split()[0]
        if mine != real:
            raise Unsupported("translator validation failed: validate_caps_text(%r): interpreter %s, real crate %s" % (a, mine, real))
        ctx.validated += 1


def c19_shape(ctx, segs):
    """segs: list of either bytes (literal) or int (that many symbolic ASCII bytes)"""
    f = ctx.find_fn(r"(filecaps::)?validate_caps_text")
    fs = ctx.find_fn(r"filecaps::<impl at [^>]*>::from_str")
    validate_caps(ctx)
    ex = Exec(ctx.funcs, intrinsics.I)
    ctx.stats = ex.stats
    ctx.bounds = "capability text of shape %s (number = that many symbolic bytes 0x01..0x7f, quoted = literal)" % " ".join(
        repr(s.decode()) if isinstance(s, bytes) else str(s) for s in segs)

    def setup(e):
        out, syms = [], []
        for k, s in enumerate(segs):
            if isinstance(s, bytes):
                out += lit(s)
            else:
                v = sym_bytes(e, "s%d_" % k, s)
                out += v
                syms += v
        return out, syms

    def body(e, inp):
        bs, _ = inp
        r = e.call_fn(f, [Str(bs)])
        r2 = e.call_fn(fs, [Str(bs)])
        spec = caps_spec(e, bs)
        return r, r2, spec

    def on_path(e, inp, out):
        bs, syms = inp
        k, v = out

        def witness():
            m = e.witness_model()
            return bytes(m.eval(x, model_completion=True).as_long() for x in bs)
        if k != "return":
            ctx.fail("capability text validation panics", "validate_caps_text", text=witness().hex(), kind="panic")
            return
        r, r2, spec = v
        acc = r.variant == "Ok"
        ctx.cover("accepted", acc)
        ctx.cover("rejected", not acc)
        if acc != spec:
            ctx.fail("capability text %s although the grammar %s it" % ("accepted" if acc else "rejected", "rejects" if acc else "accepts"),
                     "validate_caps_text", text=witness().hex(), got=acc, expected=spec, kind="spec")
        if (r2.variant == "Ok") != acc:
            ctx.fail("FileCaps::from_str disagrees with validate_caps_text", "from_str", text=witness().hex(), kind="fromstr", got=acc, expected=spec)
        elif acc:
            kept = r2.fields[0].fields[0]
            same = len(kept) == len(bs) and not e._check(z3.Not(z3.And([x == y for x, y in zip(kept.bytes(), bs)]))) if bs else True
            if not same:
                ctx.fail("accepted capability text is not kept verbatim", "from_str", text=witness().hex(), kind="verbatim", got=acc, expected=spec)

    ex.run_all(setup, body, on_path)


def replay_c19(ctx, fl):
    t = bytes.fromhex(fl["text"])
    ans = ctx.native.ask("caps", Native.hex(t)).split()
    real = ans[0]
    if fl["kind"] == "panic":
        return real == "panic", "real crate: %s for %r" % (real, t)
    if real == "panic":
        return True, "real crate panics on %r" % (t,)
    pred = "ok" if fl["got"] else "err"
    if real != pred:
        return False, "encoding disagrees with the real crate on %r: predicted %s, real %s" % (t, pred, real)
    if fl["kind"] == "verbatim":
        return Native.unhex(ans[1]) != t, "kept %r for input %r" % (Native.unhex(ans[1]), t)
    return (real == "ok") != fl["expected"], "real crate says %s, grammar says %s for %r" % (real, "accept" if fl["expected"] else "reject", t)


REPLAYERS["c19"] = replay_c19

C19_SHAPES = {
    "sym0": [0], "sym1": [1], "sym2": [2], "sym3": [3], "sym4": [4],
    "eq_sym3": [b"=", 3],
    "chown_sym1": [b"cap_chown", 1], "chown_sym2": [b"cap_chown", 2], "chown_sym3": [b"cap_chown", 3],
    "SYSLOG_sym2": [b"CAP_SYSLOG", 2], "all_sym2": [b"aLl", 2], "nope_sym2": [b"cap_nope", 2],
    "list_sym2": [b"cap_chown,cap_kill", 2], "list_trailing_comma_sym2": [b"cap_chown,", 2], "sym1_chown_sym2": [1, b"cap_chown", 2],
    "two_eq": [b"=", 1, b" ", 2], "two_eq_name": [b"=e ", b"cap_kill", 2], "two_name_eq": [b"cap_chown=e ", 2],
    "two_name_sym": [b"cap_chown", 2, b" ", 2], "two_sym_sym": [2, b" ", 2], "three": [b"=e ", 2, b" ", 2],
    "ws_around": [1, b"cap_chown+p", 1],
}
C19_QUICK = {"sym0", "sym1", "sym2", "sym3", "chown_sym1", "chown_sym2", "all_sym2", "nope_sym2", "list_sym2", "two_eq", "two_name_eq", "two_sym_sym", "ws_around", "list_trailing_comma_sym2"}
for _n, _s in C19_SHAPES.items():
    HARNESSES["c19_" + _n] = (lambda s: (lambda ctx: c19_shape(ctx, s)))(_s)


# ---------------------------------------------------------------------------------------------------------
# C15
# ---------------------------------------------------------------------------------------------------------
VERCHARS = b"abcdefghijklmnopqrstuvwxyzABCDEFGHIJKLMNOPQRSTUVWXYZ0123456789._+~^"


def constrain(e, bs, allowed=None, digits=False, extra=b""):
    for x in bs:
        if digits:
            e.solver.add(z3.UGE(x, ord("0")), z3.ULE(x, ord("9")))
        else:
            alnum = z3.Or(z3.And(z3.UGE(x, ord("0")), z3.ULE(x, ord("9"))), z3.And(z3.UGE(x, ord("a")), z3.ULE(x, ord("z"))),
                          z3.And(z3.UGE(x, ord("A")), z3.ULE(x, ord("Z"))))
            e.solver.add(z3.Or([alnum] + [x == c for c in (allowed if allowed is not None else b"._+~^") + extra]))


def cow(bs):
    return Adt("Cow", "Borrowed", [Str(bs)])


def evr_val(ep, v, r):
    return Adt("Evr", "Evr", [cow(ep), cow(v), cow(r)])


def display_via_mir(ex, fmt_fn, val):
    fm = intrinsics.Formatter()
    r = ex.call_fn(fmt_fn, [Ref(Cell(val)), Ref(Cell(fm))])
    return fm.out


def get_str(ex, v):
    return intrinsics.as_str(ex, v)


def same_bytes(e, a, b):
    """are the two byte lists equal for every model of the path condition?"""
    if len(a) != len(b):
        return False
    if not a:
        return True
    return not e._check(z3.Not(z3.And([x == y for x, y in zip(a, b)])))




def c15_evr(ctx, le, lv, lr):
    new = ctx.impl_fn("new", None, "Evr")
    parse = ctx.impl_fn("parse", None, "Evr")
    fmt = ctx.impl_fn("fmt", "Display", "Evr")
    norm = ctx.impl_fn("as_normalized_form", None, "Evr")
    eq = ctx.impl_fn("eq", "PartialEq", "Evr")
    ex = Exec(ctx.funcs, intrinsics.I)
    ctx.stats = ex.stats
    ctx.bounds = ("EVR with epoch of %d digits, version of %d and release of %d bytes from [A-Za-z0-9._+~^] "
                  "(what rpm accepts in these fields)" % (le, lv, lr))

    def setup(e):
        ep = sym_bytes(e, "e", le)
        v = sym_bytes(e, "v", lv)
        r = sym_bytes(e, "r", lr)
        constrain(e, ep, digits=True)
        constrain(e, v)
        constrain(e, r)
        return ep, v, r

    def body(e, inp):
        ep, v, r = inp
        val = e.call_fn(new, [Str(ep), Str(v), Str(r)])
        text = display_via_mir(e, fmt, val)
        back = e.call_fn(parse, [Str(text)])
        ntext = get_str(e, e.call_fn(norm, [Ref(Cell(val))])).bytes()
        nback = e.call_fn(parse, [Str(ntext)])
        equal = e.call_fn(eq, [Ref(Cell(val)), Ref(Cell(back))])
        nequal = e.call_fn(eq, [Ref(Cell(val)), Ref(Cell(nback))])
        return val, text, back, ntext, nback, equal, nequal

    def on_path(e, inp, out):
        ep, v, r = inp
        k, o = out

        def wit():
            return dict(epoch=model_bytes(e, ep).hex(), version=model_bytes(e, v).hex(), release=model_bytes(e, r).hex())
        if k != "return":
            ctx.fail("EVR formatting/parsing panics", "Evr", kind="panic", **wit())
            return
        val, text, back, ntext, nback, equal, nequal = o
        comps = [get_str(e, f).bytes() for f in back.fields]
        ok = same_bytes(e, comps[0], ep) and same_bytes(e, comps[1], v) and same_bytes(e, comps[2], r)
        ctx.cover("round trip with an epoch", le > 0)
        ctx.cover("round trip path", True)
        if not ok:
            ctx.fail("EVR text does not parse back to identical components", "Evr::parse / Display", kind="evr_rt", **wit())
        if equal.conc() is not True:
            ctx.fail("re-parsed EVR is not equal to the original", "Evr::eq", kind="evr_rt", **wit())
        ncomps = [get_str(e, f).bytes() for f in nback.fields]
        want_ep = ep if le > 0 else lit(b"0")
        nok = same_bytes(e, ncomps[0], want_ep) and same_bytes(e, ncomps[1], v) and same_bytes(e, ncomps[2], r)
        if not nok or nequal.conc() is not True:
            ctx.fail("normalised EVR form does not carry the epoch / does not parse back", "Evr::as_normalized_form", kind="evr_norm", **wit())

    ex.run_all(setup, body, on_path)


def replay_c15(ctx, fl):
    k = fl["kind"]
    H = Native.hex

    def b(name):
        return bytes.fromhex(fl.get(name, ""))
    if k in ("evr_rt", "evr_norm"):
        disp, norm = ctx.native.ask("evr_fmt", H(b("epoch")), H(b("version")), H(b("release"))).split()
        text = disp if k == "evr_rt" else norm
        e, v, r = ctx.native.ask("evr_parse", text).split()
        got = (Native.unhex(e), Native.unhex(v), Native.unhex(r))
        want = (b("epoch") if (k == "evr_rt" or b("epoch")) else b"0", b("version"), b("release"))
        return got != want, "real crate: %r formats to %r and parses to %r" % (want, Native.unhex(text), got)
    if k == "nevra_rt":
        disp, norm, nvra = ctx.native.ask("nevra_fmt", H(b("name")), H(b("epoch")), H(b("version")), H(b("release")), H(b("arch"))).split()
        got = tuple(Native.unhex(x) for x in ctx.native.ask("nevra_parse", disp).split())
        want = (b("name"), b("epoch"), b("version"), b("release"), b("arch"))
        return got != want, "real crate: %r formats to %r and parses to %r" % (want, Native.unhex(disp), got)
    if k == "comp":
        ans = ctx.native.ask("comp_rt", H(b("text")))
        return ans == "err" or ans == "panic", "real crate: CompressionType::from_str(%r) -> %s" % (b("text"), ans)
    if k == "comp_inv":
        ans = ctx.native.ask("comp_rt", H(b("text"))).split()
        return ans[0] == "ok" and Native.unhex(ans[1]) != b("text"), "real crate: %r -> %s" % (b("text"), ans)
    if k == "panic":
        return False, "panic witnesses are replayed by kind-specific commands only"
    return False, "unknown kind " + k


REPLAYERS["c15"] = replay_c15

for _le, _lv, _lr in [(0, 1, 0), (0, 1, 1), (1, 1, 1), (0, 2, 1), (1, 2, 1), (0, 1, 2), (1, 1, 2), (2, 1, 1), (0, 2, 2), (1, 2, 2), (0, 3, 2), (2, 2, 2)]:
    HARNESSES["c15_evr_%d_%d_%d" % (_le, _lv, _lr)] = (lambda a, b, c: (lambda ctx: c15_evr(ctx, a, b, c)))(_le, _lv, _lr)


def c15_nevra(ctx, ln, le, lv, lr, la, dash):
    new = ctx.impl_fn("new", None, "Nevra")
    parse = ctx.impl_fn("parse", None, "Nevra")
    fmt = ctx.impl_fn("fmt", "Display", "Nevra")
    ex = Exec(ctx.funcs, intrinsics.I)
    ctx.stats = ex.stats
    ctx.bounds = ("NEVRA with name of %d bytes from [A-Za-z0-9._+%s], epoch %d digits, version %d / release %d bytes from [A-Za-z0-9._+~^], arch %d bytes from [A-Za-z0-9_]"
                  % (ln, "-" if dash else "", le, lv, lr, la))

    def setup(e):
        n = sym_bytes(e, "n", ln)
        ep = sym_bytes(e, "e", le)
        v = sym_bytes(e, "v", lv)
        r = sym_bytes(e, "r", lr)
        a = sym_bytes(e, "a", la)
        constrain(e, n, allowed=b"._+" + (b"-" if dash else b""))
        constrain(e, ep, digits=True)
        constrain(e, v)
        constrain(e, r)
        constrain(e, a, allowed=b"_")
        if dash:
            e.solver.add(z3.Or([x == ord("-") for x in n]))
            e.solver.add(n[0] != ord("-"))
        return n, ep, v, r, a

    def body(e, inp):
        n, ep, v, r, a = inp
        val = e.call_fn(new, [Str(n), Str(ep), Str(v), Str(r), Str(a)])
        text = display_via_mir(e, fmt, val)
        back = e.call_fn(parse, [Str(text)])
        return val, text, back

    def on_path(e, inp, out):
        n, ep, v, r, a = inp
        k, o = out

        def wit():
            return dict(name=model_bytes(e, n).hex(), epoch=model_bytes(e, ep).hex(), version=model_bytes(e, v).hex(), release=model_bytes(e, r).hex(),
                        arch=model_bytes(e, a).hex())
        if k != "return":
            ctx.fail("NEVRA formatting/parsing panics", "Nevra", kind="panic", **wit())
            return
        val, text, back = o
        bn = get_str(e, back.fields[0]).bytes()
        bevr = back.fields[1]
        ba = get_str(e, back.fields[2]).bytes()
        comps = [get_str(e, f).bytes() for f in bevr.fields]
        ok = (same_bytes(e, bn, n) and same_bytes(e, comps[0], ep) and same_bytes(e, comps[1], v) and same_bytes(e, comps[2], r) and same_bytes(e, ba, a))
        ctx.cover("round trip path", True)
        if not ok:
            ctx.fail("NEVRA text does not parse back to identical components" + (" (name contains '-')" if dash else ""), "Nevra::parse / Display", kind="nevra_rt", **wit())

    ex.run_all(setup, body, on_path)


for _s in [(1, 0, 1, 1, 1), (2, 0, 1, 1, 1), (1, 1, 1, 1, 1), (2, 1, 2, 1, 1), (1, 0, 2, 2, 1), (3, 0, 1, 1, 2), (2, 0, 1, 2, 2)]:
    HARNESSES["c15_nevra_%d_%d_%d_%d_%d" % _s] = (lambda s: (lambda ctx: c15_nevra(ctx, *s, dash=False)))(_s)
for _s in [(2, 0, 1, 1, 1), (3, 0, 1, 1, 1), (3, 1, 1, 1, 1)]:
    HARNESSES["c15_nevra_dash_%d_%d_%d_%d_%d" % _s] = (lambda s: (lambda ctx: c15_nevra(ctx, *s, dash=True)))(_s)


def c15_comp(ctx, n):
    from_str = ctx.impl_fn("from_str", "FromStr", "CompressionType")
    fmt = ctx.impl_fn("fmt", "Display", "CompressionType")
    ex = Exec(ctx.funcs, intrinsics.I)
    ctx.stats = ex.stats
    ctx.bounds = "compression type names: every variant's own name; arbitrary text of exactly %d ASCII bytes" % n
    if n == 0:
        # every variant parses back from its own textual name (5 concrete runs of the MIR: no symbolic input here)
        for variant in ["None", "Gzip", "Zstd", "Xz", "Bzip2"]:
            res = []

            def body0(e, _):
                val = Adt("CompressionType", variant)
                text = display_via_mir(e, fmt, val)
                return text, e.call_fn(from_str, [Str(text)])
            ex.run_all(lambda e: None, body0, lambda e, i, o: res.append(o))
            k, o = res[0]
            text = bytes(z3.simplify(x).as_long() for x in o[0]) if k == "return" else b""
            if k != "return" or o[1].variant != "Ok" or o[1].fields[0].variant != variant:
                ctx.fail("compression type %s does not parse back from its own name" % variant, "CompressionType::from_str", kind="comp", text=text.hex())
            ctx.cover("variant " + variant)
        return

    def setup(e):
        return sym_bytes(e, "t", n)

    def body(e, t):
        r = e.call_fn(from_str, [Str(t)])
        if r.variant == "Ok":
            return r, display_via_mir(e, fmt, r.fields[0])
        return r, None

    def on_path(e, t, out):
        k, o = out
        if k != "return":
            ctx.fail("parsing a compression type name panics", "CompressionType::from_str", kind="panic", text=model_bytes(e, t).hex())
            return
        r, text = o
        ctx.cover("rejected", r.variant == "Err")
        if r.variant == "Ok" and not same_bytes(e, text, t):
            ctx.fail("accepted compression type name is not the variant's own name", "CompressionType", kind="comp_inv", text=model_bytes(e, t).hex())

    ex.run_all(setup, body, on_path)


for _n in range(0, 6):
    HARNESSES["c15_comp_%d" % _n] = (lambda n: (lambda ctx: c15_comp(ctx, n)))(_n)


def c15_nopanic(ctx, which, n):
    parse = ctx.impl_fn("parse", None, which)
    ex = Exec(ctx.funcs, intrinsics.I)
    ctx.stats = ex.stats
    ctx.bounds = "%s::parse on arbitrary text of exactly %d bytes 0x01..0x7f" % (which, n)

    def on_path(e, t, out):
        ctx.cover("parsed", out[0] == "return")
        if out[0] != "return":
            ctx.fail("%s::parse panics" % which, which + "::parse", kind="panic", text=model_bytes(e, t).hex())
    ex.run_all(lambda e: sym_bytes(e, "t", n), lambda e, t: e.call_fn(parse, [Str(t)]), on_path)


for _n in range(0, 5):
    HARNESSES["c15_nopanic_evr_%d" % _n] = (lambda n: (lambda ctx: c15_nopanic(ctx, "Evr", n)))(_n)
    HARNESSES["c15_nopanic_nevra_%d" % _n] = (lambda n: (lambda ctx: c15_nopanic(ctx, "Nevra", n)))(_n)
