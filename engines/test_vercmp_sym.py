import sys, time
sys.path.insert(0, '/verif/engines')
import z3
import mir, symex, intrinsics, refs
from symex import *

funcs = mir.parse_mir(open('/tmp/rpm.mir').read())
f = funcs['compare_version_string'][0]
ORD = {"Less": -1, "Equal": 0, "Greater": 1}

def run(la, lb):
    ex = Exec(funcs, intrinsics.I)
    bad = []
    def setup(e):
        a = [z3.BitVec('a%d' % i, 8) for i in range(la)]
        b = [z3.BitVec('b%d' % i, 8) for i in range(lb)]
        for x in a + b:
            e.solver.add(z3.UGE(x, 1), z3.ULE(x, 0x7f))
        return a, b
    def body(e, inp):
        a, b = inp
        r1 = e.call_fn(f, [Str(a), Str(b)])
        r2 = e.call_fn(f, [Str(b), Str(a)])
        ref = refs.rpmvercmp(e, a, b)
        return ORD[r1.variant], ORD[r2.variant], ref
    def onp(e, inp, out):
        k, v = out
        if k != 'return' or v[0] != v[2] or v[0] != -v[1]:
            assert e.solver.check() == z3.sat
            m = e.solver.model()
            bad.append((out, bytes(m.eval(x, model_completion=True).as_long() for x in inp[0]), bytes(m.eval(x, model_completion=True).as_long() for x in inp[1])))
    t = time.time()
    ex.run_all(setup, body, onp)
    print(la, lb, "paths", ex.stats.paths, "decisions", ex.stats.decisions, "solver calls", ex.stats.solver_calls, "solver_s %.1f" % ex.stats.solver_s, "wall %.1f" % (time.time() - t), "bad", bad[:3])

for la, lb in [(0,1),(1,1),(1,2),(2,2),(2,3)]:
    run(la, lb)
