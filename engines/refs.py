"""Reference oracles for the MIR engine, written against the same forking interface (ex.decide):
independent specifications, not models of the code."""
import z3


def _alnum(b):
    return z3.Or(z3.And(z3.UGE(b, 0x30), z3.ULE(b, 0x39)), z3.And(z3.UGE(b, 0x41), z3.ULE(b, 0x5a)), z3.And(z3.UGE(b, 0x61), z3.ULE(b, 0x7a)))


def _digit(b):
    return z3.And(z3.UGE(b, 0x30), z3.ULE(b, 0x39))


def _alpha(b):
    return z3.Or(z3.And(z3.UGE(b, 0x41), z3.ULE(b, 0x5a)), z3.And(z3.UGE(b, 0x61), z3.ULE(b, 0x7a)))


def rpmvercmp(ex, a, b):
    """Byte-level transliteration of rpm's rpmvercmp (rpmio/rpmvercmp.c, rpm 4.15+ with caret support).
    a, b: lists of z3 8-bit terms without NUL bytes. Returns -1, 0, 1 (python ints)."""
    D = ex.decide
    la, lb = len(a), len(b)
    if la == lb and (la == 0 or D(z3.And([x == y for x, y in zip(a, b)]))):
        return 0
    i = j = 0
    while i < la or j < lb:
        while i < la and not D(_alnum(a[i])) and not D(a[i] == 0x7e) and not D(a[i] == 0x5e):
            i += 1
        while j < lb and not D(_alnum(b[j])) and not D(b[j] == 0x7e) and not D(b[j] == 0x5e):
            j += 1
        one_t = i < la and D(a[i] == 0x7e)
        two_t = j < lb and D(b[j] == 0x7e)
        if one_t or two_t:
            if not one_t:
                return 1
            if not two_t:
                return -1
            i += 1
            j += 1
            continue
        one_c = i < la and D(a[i] == 0x5e)
        two_c = j < lb and D(b[j] == 0x5e)
        if one_c or two_c:
            if i >= la:
                return -1
            if j >= lb:
                return 1
            if not one_c:
                return 1
            if not two_c:
                return -1
            i += 1
            j += 1
            continue
        if not (i < la and j < lb):
            break
        p, q = i, j
        if D(_digit(a[p])):
            while p < la and D(_digit(a[p])):
                p += 1
            while q < lb and D(_digit(b[q])):
                q += 1
            isnum = True
        else:
            while p < la and D(_alpha(a[p])):
                p += 1
            while q < lb and D(_alpha(b[q])):
                q += 1
            isnum = False
        if i == p:
            return -1
        if j == q:
            return 1 if isnum else -1
        if isnum:
            while i < p and D(a[i] == 0x30):
                i += 1
            while j < q and D(b[j] == 0x30):
                j += 1
            if p - i > q - j:
                return 1
            if q - j > p - i:
                return -1
        # strcmp of the segments (same length if numeric; alpha segments may differ in length)
        k = 0
        while True:
            ea = i + k >= p
            eb = j + k >= q
            if ea or eb:
                if ea and eb:
                    rc = 0
                else:
                    rc = -1 if ea else 1
                break
            if D(a[i + k] == b[j + k]):
                k += 1
                continue
            rc = -1 if D(z3.ULT(a[i + k], b[j + k])) else 1
            break
        if rc:
            return rc
        i, j = p, q
    if i >= la and j >= lb:
        return 0
    return 1 if i < la else -1
