"""MIR-engine harnesses over package structures: C03 (digest verification), C02 (signature verification decision
logic), C05 (accessors), C09 (header assembly), C01/C04 Level H (whole headers)."""
import os
import z3

import intrinsics
import intrinsics2
import intrinsics3
from intrinsics3 import Reader, ALLOC_BUDGET, ScriptSink
from intrinsics2 import uf_digest, as_bytes
from mreg import HARNESSES, REPLAYERS, Native, model_bytes, sym_bytes
from rpmvals import (byte_vec, header, index_data, index_entry, package, sigtag, string, tag)
from symex import Adt, Cell, Exec, Int, Ref, Str, Unsupported, VecV
from symex import Bool as Bool_


def hexchars(bs):
    out = []
    for b in bs:
        for nib in (z3.LShR(b, 4), b & 15):
            out.append(z3.If(z3.ULT(nib, 10), nib + 48, nib + 87))
    return out


def all_eq(a, b):
    if len(a) != len(b):
        return z3.BoolVal(False)
    return z3.And([x == y for x, y in zip(a, b)]) if a else z3.BoolVal(True)


def c03_digests(ctx, mask, hs, ps, md5_len=16, sha1_len=40, sha256_len=64, pd_len=64):
    """mask: 1 MD5, 2 SHA1, 4 SHA256, 8 payload digest (+algo). hs: extra symbolic store bytes in the main header,
    ps: payload bytes (symbolic). Every recorded value and the algorithm id are symbolic."""
    vd = ctx.impl_fn("verify_digests", None, "Package")
    wr = ctx.impl_fn("write", None, "Header")
    ex = Exec(ctx.funcs, intrinsics.I)
    ctx.stats = ex.stats
    ctx.bounds = ("tag subset mask %d (1=MD5 2=SHA1 4=SHA256 8=payload digest+algorithm), main header with %d free store bytes, payload of %d bytes; "
                  "all recorded digests, the algorithm id, header store and payload bytes symbolic; digests are uninterpreted functions of the hashed bytes" % (mask, hs, ps))

    def setup(e):
        inp = dict(md5=sym_bytes(e, "m", md5_len, 0, 255), sha1=sym_bytes(e, "s", sha1_len, 0x20, 0x7e), sha256=sym_bytes(e, "S", sha256_len, 0x20, 0x7e),
                   pd=sym_bytes(e, "p", pd_len, 0x20, 0x7e), algo=z3.BitVec("algo", 32), store=sym_bytes(e, "h", hs, 0, 255), content=sym_bytes(e, "c", ps, 0, 255))
        return inp

    def body(e, inp):
        sig_entries = []
        if mask & 1:
            sig_entries.append(index_entry(sigtag("RPMSIGTAG_MD5"), index_data("Bin", byte_vec(inp["md5"]))))
        if mask & 2:
            sig_entries.append(index_entry(sigtag("RPMSIGTAG_SHA1"), index_data("StringTag", string(inp["sha1"]))))
        if mask & 4:
            sig_entries.append(index_entry(sigtag("RPMSIGTAG_SHA256"), index_data("StringTag", string(inp["sha256"]))))
        sig = header(sig_entries, [])
        entries = []
        store = list(inp["store"])
        if mask & 8:
            off = len(store)
            entries.append(index_entry(tag("RPMTAG_PAYLOADDIGEST"), index_data("StringArray", VecV([string(inp["pd"])])), off))
            store += list(inp["pd"]) + [0]
            while len(store) % 4:
                store.append(0)
            algo = Int(inp["algo"], "u32")
            entries.append(index_entry(tag("RPMTAG_PAYLOADDIGESTALGO"), index_data("Int32", VecV([algo])), len(store)))
            store += [z3.Extract(31 - 8 * k, 24 - 8 * k, inp["algo"]) for k in range(4)]
        else:
            entries.append(index_entry(tag("RPMTAG_NAME"), index_data("StringTag", string(b"x")), len(store)))
            store += [ord("x"), 0]
        hdr = header(entries, store)
        pkg = package(sig, hdr, inp["content"])
        # oracle side: the serialised header through the real Header::write MIR (decided separately by C01/C14), hashed by the same UFs
        buf = VecV([])
        r = e.call_fn(wr, [Ref(Cell(hdr)), Ref(Cell(buf))])
        assert r.variant == "Ok"
        hb = as_bytes(e, buf)
        res = e.call_fn(vd, [Ref(Cell(pkg))])
        return res, hb

    def on_path(e, inp, out):
        k, v = out

        def wit():
            m = e.witness_model()
            g = lambda xs: bytes(m.eval(x, model_completion=True).as_long() for x in xs).hex()  # noqa: E731
            return dict(md5=g(inp["md5"]), sha1=g(inp["sha1"]), sha256=g(inp["sha256"]), pd=g(inp["pd"]),
                        algo=m.eval(inp["algo"], model_completion=True).as_long(), store=g(inp["store"]), content=g(inp["content"]))
        if k != "return":
            ctx.fail("digest verification panics: %s" % (v,), "Package::verify_digests", kind="panic", mask=mask, **wit())
            return
        res, hb = v
        content = list(inp["content"])
        md5_ok = all_eq(uf_digest("md5", hb + content), inp["md5"]) if mask & 1 else z3.BoolVal(True)
        sha1_ok = all_eq(hexchars(uf_digest("sha1", hb)), inp["sha1"]) if mask & 2 else z3.BoolVal(True)
        sha256_ok = all_eq(hexchars(uf_digest("sha256", hb)), inp["sha256"]) if mask & 4 else z3.BoolVal(True)
        pd_ok = all_eq(hexchars(uf_digest("sha256", content)), inp["pd"]) if mask & 8 else z3.BoolVal(True)
        algo_ok = (inp["algo"] == 8) if mask & 8 else z3.BoolVal(True)
        should_ok = z3.And(md5_ok, sha1_ok, sha256_ok, pd_ok, algo_ok)
        is_ok = res.variant == "Ok"
        ctx.cover("verification succeeds", is_ok)
        ctx.cover("verification fails", not is_ok)
        # on this path the result is concrete; the specification must agree for EVERY input of the path
        bad = e._check(z3.Not(should_ok)) if is_ok else e._check(should_ok)
        if bad:
            e.solver.push()
            e.solver.add(z3.Not(should_ok) if is_ok else should_ok)
            w = wit()
            e.solver.pop()
            ctx.fail("digest verification %s although %s" % ("succeeds" if is_ok else "fails", "a recorded digest differs or the algorithm is unsupported" if is_ok else "every recorded digest matches"),
                     "Package::verify_digests", kind="spec", mask=mask, got=is_ok, **w)
            return
        if not is_ok:
            er = res.fields[0]
            mismatch = isinstance(er, Adt) and er.variant == "DigestMismatchError"
            # a wrong digest (with a supported algorithm) must be reported as DigestMismatchError
            must_mismatch = z3.And(algo_ok, z3.Not(z3.And(md5_ok, sha1_ok, sha256_ok, pd_ok)))
            if not mismatch and e._check(z3.And(md5_ok, sha1_ok, sha256_ok, algo_ok)) is False:
                pass
            if not mismatch and not e._check(z3.Not(must_mismatch)):
                ctx.fail("a wrong digest is not reported as DigestMismatchError", "Package::verify_digests", kind="errkind", mask=mask, got=False, **wit())

    ex.run_all(setup, body, on_path)


def replay_c03(ctx, fl):
    """Native replay through the public API: hand-encode the package of the witness with REAL digests arranged in the
    match/mismatch pattern of the witness (plus digests of plausible wrong byte ranges), parse it with the real crate and
    compare verify_digests with the specification."""
    import hashlib
    import itertools
    import struct
    import rpmbytes as RB
    from rpmvals import sigtag, tag
    mask = fl["mask"]
    store0 = bytes.fromhex(fl["store"])
    content = bytes.fromhex(fl["content"])
    algo = fl["algo"]

    def build(md5, sha1, sha256, pd):
        # index entries in the order the harness uses (MD5, SHA1, SHA256: not sorted by tag, which the parser accepts)
        sig_e, sig_s = [], b""
        if mask & 1:
            sig_e.append((sigtag("RPMSIGTAG_MD5"), "Bin", len(sig_s), len(md5)))
            sig_s += md5
        if mask & 2:
            sig_e.append((sigtag("RPMSIGTAG_SHA1"), "StringTag", len(sig_s), 1))
            sig_s += sha1 + b"\0"
        if mask & 4:
            sig_e.append((sigtag("RPMSIGTAG_SHA256"), "StringTag", len(sig_s), 1))
            sig_s += sha256 + b"\0"
        ent, st = [], store0
        if mask & 8:
            ent.append((tag("RPMTAG_PAYLOADDIGEST"), "StringArray", len(st), 1))
            st += pd + b"\0"
            st += b"\0" * ((4 - len(st) % 4) % 4)
            ent.append((tag("RPMTAG_PAYLOADDIGESTALGO"), "Int32", len(st), 1))
            st += struct.pack(">I", algo & 0xffffffff)
        else:
            ent.append((tag("RPMTAG_NAME"), "StringTag", len(st), 1))
            st += b"x\0"
        hdr = RB.header(ent, st)
        return RB.package(sig_e, sig_s, ent, st, content), hdr

    # the header bytes do not depend on the signature-header digests but do depend on pd: fixpoint not needed, pd is over the payload only
    true_pd = hashlib.sha256(content).hexdigest().encode()
    if fl["kind"] == "panic":
        pkg, _ = build(b"\0" * 16, b"0" * 40, b"0" * 64, true_pd)
        ans = ctx.native.ask("digests", pkg.hex())
        return ans == "panic", "real crate: verify_digests -> %s (algorithm id %d)" % (ans, algo)
    tried = []

    def wlen(key, dflt):
        return len(bytes.fromhex(fl.get(key, ""))) if key in fl else dflt

    def fit(true, n, full):
        """digests of the witness's length: the true one when the length is the real one, otherwise its prefix / an extension of it"""
        if n == full:
            return None
        return [("a %d-byte prefix/extension of the true digest" % n, (true + true)[:n])]
    ml, l1, l2, lp = (wlen("md5", 16) if mask & 1 else 16), (wlen("sha1", 40) if mask & 2 else 40), (wlen("sha256", 64) if mask & 4 else 64), (wlen("pd", 64) if mask & 8 else 64)
    pd_cands = [("true", true_pd), ("wrong", b"f" * 64 if true_pd != b"f" * 64 else b"e" * 64), ("upper", true_pd.upper())] if lp == 64 else fit(true_pd, lp, 64)
    for pd_name, pd in (pd_cands if mask & 8 else [("true", true_pd)]):
        pd_ok = pd_name == "true"
        _, hdr = build(b"\0" * 16, b"0" * 40, b"0" * 64, pd)
        t_md5, t_sha1, t_sha256 = hashlib.md5(hdr + content).digest(), hashlib.sha1(hdr).hexdigest().encode(), hashlib.sha256(hdr).hexdigest().encode()
        cands = {
            "md5": fit(t_md5, ml, 16) or [("true", t_md5), ("header only", hashlib.md5(hdr).digest()), ("payload only", hashlib.md5(content).digest()), ("junk", b"\x55" * 16)],
            "sha1": fit(t_sha1, l1, 40) or [("true", t_sha1), ("header+payload", hashlib.sha1(hdr + content).hexdigest().encode()), ("upper", t_sha1.upper()), ("junk", b"5" * 40)],
            "sha256": fit(t_sha256, l2, 64) or [("true", t_sha256), ("header+payload", hashlib.sha256(hdr + content).hexdigest().encode()), ("payload", true_pd), ("upper", t_sha256.upper()), ("junk", b"5" * 64)],
        }
        for (n1, m), (n2, s1), (n3, s2) in itertools.product(cands["md5"] if mask & 1 else [("-", b"\0" * 16)], cands["sha1"] if mask & 2 else [("-", b"0" * 40)],
                                                           cands["sha256"] if mask & 4 else [("-", b"0" * 64)]):
            pkg, _ = build(m, s1, s2, pd)
            ans = ctx.native.ask("digests", pkg.hex())
            spec_ok = all(n in ("true", "-") for n in (n1, n2, n3)) and pd_ok and (not mask & 8 or algo == 8)
            got_ok = ans == "ok"
            tried.append(ans)
            if ans == "panic" or got_ok != spec_ok:
                return True, "real crate: md5=%s sha1=%s sha256=%s payload digest %s algo %d -> %s, specification says %s" % (
                    n1, n2, n3, pd_name, algo, ans, "ok" if spec_ok else "error")
            if not got_ok and spec_ok is False and fl["kind"] == "errkind" and (n1, n2, n3) != ("true",) * 3 and ans != "err mismatch" and (not mask & 8 or algo == 8):
                return True, "real crate: wrong digest reported as %s" % ans
    return False, "no digest arrangement reproduced the disagreement natively (%d packages tried)" % len(tried)


REPLAYERS["c03"] = replay_c03
for _m in range(16):
    HARNESSES["c03_digests_m%02d" % _m] = (lambda m: (lambda ctx: c03_digests(ctx, m, 2, 3)))(_m)
for _l in (0, 1, 8, 15, 17, 32):
    HARNESSES["c03_md5len_%d" % _l] = (lambda l: (lambda ctx: c03_digests(ctx, 1, 2, 3, md5_len=l)))(_l)
# recorded hex digests that are shorter or longer than the real one (same family as c03_md5len)
for _l in (0, 1, 39, 41):
    HARNESSES["c03_sha1len_%d" % _l] = (lambda l: (lambda ctx: c03_digests(ctx, 2, 2, 3, sha1_len=l)))(_l)
for _l in (0, 1, 63, 65):
    HARNESSES["c03_sha256len_%d" % _l] = (lambda l: (lambda ctx: c03_digests(ctx, 4, 2, 3, sha256_len=l)))(_l)
    HARNESSES["c03_pdlen_%d" % _l] = (lambda l: (lambda ctx: c03_digests(ctx, 8, 2, 3, pd_len=l)))(_l)


def c04_payload_digest(ctx, items):
    vd = ctx.impl_fn("verify_digests", None, "Package")
    ex = Exec(ctx.funcs, intrinsics.I)
    ctx.stats = ex.stats
    ctx.bounds = "payload digest tag with %d items, algorithm id any u32, no signature-header digests" % items

    def setup(e):
        return z3.BitVec("algo", 32)

    def body(e, algo):
        pd = VecV([string(b"00") for _ in range(items)])
        hdr = header([index_entry(tag("RPMTAG_PAYLOADDIGEST"), index_data("StringArray", pd), 0),
                      index_entry(tag("RPMTAG_PAYLOADDIGESTALGO"), index_data("Int32", VecV([Int(algo, "u32")])), 4)], [0, 0, 0, 0, 0, 0, 0, 8])
        pkg = package(header([], []), hdr, [1, 2, 3])
        return e.call_fn(vd, [Ref(Cell(pkg))])

    def on_path(e, algo, out):
        k, v = out
        assert e.solver.check() == z3.sat
        a = e.solver.model().eval(algo, model_completion=True).as_long()
        ctx.cover("sha256 algorithm id", a == 8)
        if k != "return":
            ctx.fail("digest verification panics: %s" % (v,), "Package::verify_digests", kind="panic", mask=8, algo=a, store="", content="010203",
                     md5="", sha1="", sha256="", pd="3030", items=items)
        elif v.variant == "Ok":
            ctx.fail("a payload digest that cannot match verifies", "Package::verify_digests", kind="spec", mask=8, algo=a, store="", content="010203",
                     md5="", sha1="", sha256="", pd="3030", items=items, got=True)
    ex.run_all(setup, body, on_path)


HARNESSES["c04_payload_digest_0"] = lambda ctx: c04_payload_digest(ctx, 0)
HARNESSES["c04_payload_digest_1"] = lambda ctx: c04_payload_digest(ctx, 1)


def replay_c04_pd(ctx, fl):
    import struct
    import rpmbytes as RB
    from rpmvals import tag
    n = fl["items"]
    st = b"00\0" * n
    st += b"\0" * ((4 - len(st) % 4) % 4)
    ent = [(tag("RPMTAG_PAYLOADDIGEST"), "StringArray", 0, n), (tag("RPMTAG_PAYLOADDIGESTALGO"), "Int32", len(st), 1)]
    st += struct.pack(">I", fl["algo"])
    pkg = RB.package([], b"", ent, st, b"\x01\x02\x03")
    ans = ctx.native.ask("digests", pkg.hex())
    return (ans == "panic") if fl["kind"] == "panic" else (ans == "ok"), "real crate: verify_digests -> %s (payload digest items %d, algorithm id %d)" % (ans, n, fl["algo"])


# ---------------------------------------------------------------------------------------------------------
# Level H: whole headers through Header::parse (C04 no-panic / allocation, C01 round trip, C16 invariant)
# ---------------------------------------------------------------------------------------------------------
def be32(bs):
    return z3.Concat(*bs)


def oracle_entry(D, ebytes, store):
    """Independent decoding of one index entry against the store (the C05 oracle).
    Returns ("err",) or (type_id, payload) with payload a list of byte-lists (strings/bin) or of z3 integers."""
    ty = be32(ebytes[4:8])
    off = be32(ebytes[8:12])
    cnt = be32(ebytes[12:16])
    d = len(store)
    t = None
    for k in range(10):
        if D(ty == k):
            t = k
            break
    if t is None:
        return ("err",)
    if D(z3.Or(off < 0, off > d)):
        return ("err",)
    o = None
    for k in range(d + 1):
        if D(off == k):
            o = k
            break
    avail = d - o
    if t == 0:
        return (0, [])
    if t in (1, 2, 7, 3, 4, 5):
        w = {1: 1, 2: 1, 7: 1, 3: 2, 4: 4, 5: 8}[t]
        if D(z3.UGT(cnt, avail // w)):
            return ("err",)
        c = None
        for k in range(avail // w + 1):
            if D(cnt == k):
                c = k
                break
        if w == 1:
            return (t, [store[o:o + c]])
        return (t, [z3.Concat(*store[o + w * i:o + w * i + w]) for i in range(c)])
    if t == 6:
        j = o
        while j < d and not D(store[j] == 0):
            j += 1
        return (6, [store[o:j]])
    # 8, 9: cnt NUL-terminated strings
    out = []
    j = o
    i = 0
    while D(z3.UGT(cnt, i)):
        k = j
        while k < d and not D(store[k] == 0):
            k += 1
        if k >= d:
            return ("err",)
        out.append(store[j:k])
        j = k + 1
        i += 1
        if i > d + 1:
            return ("err",)
    return (t, out)


GETTERS = {"get_entry_data_as_binary": ("Bin",), "get_entry_data_as_string": ("StringTag",), "get_entry_data_as_i18n_string": ("I18NString",),
           "get_entry_data_as_u16_array": ("Int16",), "get_entry_data_as_u32": ("Int32",), "get_entry_data_as_u32_array": ("Int32",),
           "get_entry_data_as_u64": ("Int64",), "get_entry_data_as_u64_array": ("Int64",), "get_entry_data_as_string_array": ("StringArray", "I18NString")}


def check_getters(ctx, e, h, ent, wit):
    """typed getters of Header on the tag of the first entry: value of the right type or an error, never something else"""
    data = ent.fields[1]
    tagv = Adt("IndexTag", "RPMTAG_NAME")
    absent = Adt("IndexTag", "RPMTAG_VERSION")
    for g, types in GETTERS.items():
        fn = ctx.impl_fn(g, None, "Header")
        r = e.call_fn(fn, [Ref(Cell(h)), tagv])
        ra = e.call_fn(fn, [Ref(Cell(h)), absent])
        # "absent" only where no entry of this header can carry that tag (headers with a second entry have a second symbolic tag)
        may_be_present = any(e._check(x.fields[0].e == 1001) for x in h.fields[1].items)
        if not may_be_present and (ra.variant != "Err" or not (isinstance(ra.fields[0], Adt) and ra.fields[0].variant == "TagNotFound")):
            ctx.fail("getter returns something for an absent tag", g, kind="c05", input=wit())
        right = data.variant in types
        if g in ("get_entry_data_as_u32", "get_entry_data_as_u64", "get_entry_data_as_i18n_string") and right and not data.fields[0].items:
            right = False   # first item of an empty array: documented as an error
        if (r.variant == "Ok") != right:
            ctx.fail("getter %s: %s for an entry of type %s" % (g, "value" if r.variant == "Ok" else "error", data.variant), g, kind="c05", input=wit())
            continue
        if r.variant != "Ok":
            continue
        v = intrinsics.deref_all(e, r.fields[0])
        payload = data.fields[0]
        ok_ = True
        badc = None
        if g in ("get_entry_data_as_binary",):
            ok_ = not e._check(z3.Not(intrinsics2._eq_any(e, v, payload))) if as_bytes(e, payload) or as_bytes(e, v) else len(as_bytes(e, v)) == len(as_bytes(e, payload))
        elif g == "get_entry_data_as_string":
            a, b = intrinsics.as_str(e, v).bytes(), intrinsics.as_str(e, payload).bytes()
            ok_ = len(a) == len(b) and not (a and e._check(z3.Not(all_eq(a, b))))
        elif g == "get_entry_data_as_i18n_string":
            a, b = intrinsics.as_str(e, v).bytes(), intrinsics.as_str(e, payload.items[0]).bytes()
            ok_ = len(a) == len(b) and not (a and e._check(z3.Not(all_eq(a, b))))
        elif g in ("get_entry_data_as_u32", "get_entry_data_as_u64"):
            badc = v.e != payload.items[0].e
            ok_ = not e._check(badc)
        elif g == "get_entry_data_as_string_array":
            gi = [intrinsics.as_str(e, x).bytes() for x in v.items]
            pi = [intrinsics.as_str(e, x).bytes() for x in payload.items]
            ok_ = len(gi) == len(pi) and all(len(a) == len(b) and not (a and e._check(z3.Not(all_eq(a, b)))) for a, b in zip(gi, pi))
        else:
            gi, pi = [x.e for x in v.items], [x.e for x in payload.items]
            if len(gi) == len(pi) and gi:
                badc = z3.Not(z3.And([a == b for a, b in zip(gi, pi)]))
            ok_ = len(gi) == len(pi) and not (gi and e._check(z3.Not(z3.And([a == b for a, b in zip(gi, pi)]))))
        if not ok_:
            # the witness must be an input on which the difference shows (not just any input of this path)
            if badc is not None:
                e.solver.push()
                e.solver.add(badc)
            w_ = wit()
            if badc is not None:
                e.solver.pop()
            ctx.fail("getter %s returns a value different from the entry's data" % g, g, kind="c05", input=w_)


def hdr_parse(ctx, rest_len, extra, which="IndexTag", ascii_store=True, fix_intro=False, kinds=None, fix_tag=None, fix_types=None, fix_counts=None):
    """input: 16 intro bytes + rest_len bytes (index entries and store) + `extra` trailing bytes, ALL symbolic
    (fix_intro: magic/version fixed to the valid values so that the interesting region is explored faster)."""
    parse = ctx.impl_fn("parse", None, "Header")
    write = ctx.impl_fn("write", None, "Header")
    if kinds is not None:
        _fail0 = ctx.fail

        def _fail(description, function, **kw):
            if kw.get("kind") in kinds:
                _fail0(description, function, **kw)
        ctx.fail = _fail
    ex = Exec(ctx.funcs, intrinsics.I, max_steps=400000)
    ex.type_env = {"T": which}
    ctx.stats = ex.stats
    total = 16 + rest_len + extra
    ALLOC_BUDGET[0] = 16 * total + 4096
    intrinsics2.ITEM_BUDGET[0] = total + 16
    ctx.bounds = ("Header::parse on a reader holding 16 intro bytes + %d bytes of index/store + %d trailing bytes, every byte symbolic%s%s; "
                  "allocation budget per request %d" % (rest_len, extra, " (magic/version fixed valid)" if fix_intro else "",
                                                         ", bytes < 0x80 (string data ASCII)" if ascii_store else "", ALLOC_BUDGET[0]))

    def setup(e):
        bs = sym_bytes(e, "b", total, 0, 0x7f if ascii_store else 0xff)
        if fix_intro:
            for i, v in enumerate((0x8e, 0xad, 0xe8, 0x01)):
                e.solver.add(bs[i] == v)
        if ascii_store:
            # the magic needs bytes >= 0x80: lift the restriction for the intro
            pass
        return bs

    def setup2(e):
        intro = sym_bytes(e, "i", 16, 0, 0xff)
        nent = 16 * (rest_len // 16)   # bytes that can belong to index entries are unrestricted
        rest = sym_bytes(e, "b", nent, 0, 0xff) + sym_bytes(e, "s", rest_len + extra - nent, 0, 0x7f if ascii_store else 0xff)
        if fix_intro:
            for i, v in enumerate((0x8e, 0xad, 0xe8, 0x01)):
                e.solver.add(intro[i] == v)
        if fix_tag is not None and rest_len >= 4:
            for i in range(4):
                e.solver.add(rest[i] == ((fix_tag >> (24 - 8 * i)) & 0xff))
        if fix_types is not None:
            # typed shape: the number of entries, the store size and each entry's data type (optionally its count) are fixed; tags, offsets,
            # (counts) and the store bytes stay symbolic - this is how headers with two entries are kept within reach
            ne = len(fix_types)
            for i, v in enumerate((0, 0, 0, ne)):
                e.solver.add(intro[8 + i] == v)
            ssz = rest_len - 16 * ne
            for i in range(4):
                e.solver.add(intro[12 + i] == ((ssz >> (24 - 8 * i)) & 0xff))
            for k_, ty in enumerate(fix_types):
                for i in range(4):
                    e.solver.add(rest[16 * k_ + 4 + i] == ((ty >> (24 - 8 * i)) & 0xff))
                if fix_counts is not None and fix_counts[k_] is not None:
                    for i in range(4):
                        e.solver.add(rest[16 * k_ + 12 + i] == ((fix_counts[k_] >> (24 - 8 * i)) & 0xff))
        return intro + rest

    def body(e, bs):
        rd = Reader(bs)
        r = e.call_fn(parse, [Ref(Cell(rd))])
        if r.variant != "Ok":
            return r, rd.pos, None
        h = r.fields[0]
        out = VecV([])
        w = e.call_fn(write, [Ref(Cell(h)), Ref(Cell(out))])
        return r, rd.pos, (w, as_bytes(e, out))

    def on_path(e, bs, out):
        k, v = out

        def wit():
            return model_bytes(e, bs).hex()
        if k == "skip":
            ctx.extra["paths_outside_bound"] = ctx.extra.get("paths_outside_bound", 0) + 1
            return
        if k == "alloc":
            ctx.fail("header parsing asks for memory out of proportion to the input", "Header::parse", kind="alloc", input=wit(), detail=str(v))
            return
        if k != "return":
            ctx.fail("header parsing panics: %s" % (v,), "Header::parse", kind="panic", input=wit())
            return
        r, pos, wr = v
        ctx.cover("header accepted", r.variant == "Ok")
        ctx.cover("header rejected", r.variant != "Ok")
        if r.variant != "Ok":
            return
        h = r.fields[0]
        ih, entries, store = h.fields
        n = len(entries.items)
        ctx.cover("accepted with an entry", n > 0)
        # C16 invariant: intro fields describe the vectors
        inv = z3.And(ih.fields[2].e == n, ih.fields[3].e == len(store.items))
        if e._check(z3.Not(inv)):
            ctx.fail("parsed header: intro counts disagree with the parsed entries/store", "Header::parse", kind="inv", input=wit())
        # exact consumption
        if pos != 16 + 16 * n + len(store.items):
            ctx.fail("parser consumed %d bytes for a header of %d" % (pos, 16 + 16 * n + len(store.items)), "Header::parse", kind="consume", input=wit())
        # C05: each entry's decoded data equals the independent decoding of the same bytes
        sto = [x.e for x in store.items]
        for i, ent in enumerate(entries.items):
            eb = bs[16 + 16 * i:32 + 16 * i]
            want = oracle_entry(e.decide, eb, sto)
            data = ent.fields[1]
            if want == ("err",):
                ctx.fail("entry accepted although its data does not fit the store", "Header::parse_header", kind="c05", input=wit())
                continue
            t, payload = want
            names = ["Null", "Char", "Int8", "Int16", "Int32", "Int64", "StringTag", "Bin", "StringArray", "I18NString"]
            good = data.variant == names[t]
            if good and t != 0:
                got = data.fields[0]
                if t in (1, 2, 7):
                    gb = as_bytes(e, got)
                    good = len(gb) == len(payload[0]) and not (gb and e._check(z3.Not(all_eq(gb, payload[0]))))
                elif t in (3, 4, 5):
                    gi = [x.e for x in got.items]
                    good = len(gi) == len(payload) and not (gi and e._check(z3.Not(z3.And([a == b for a, b in zip(gi, payload)]))))
                elif t == 6:
                    gb = intrinsics.as_str(e, got).bytes()
                    good = len(gb) == len(payload[0]) and not (gb and e._check(z3.Not(all_eq(gb, payload[0]))))
                else:
                    gs = [intrinsics.as_str(e, x).bytes() for x in got.items]
                    good = len(gs) == len(payload) and all(len(a) == len(b) for a, b in zip(gs, payload)) and not any(
                        a and e._check(z3.Not(all_eq(a, b))) for a, b in zip(gs, payload))
            ctx.cover("decoded a %s entry" % names[t], True)
            if not good:
                ctx.fail("decoded entry data differs from an independent decoding of the header bytes (type %s)" % names[t], "Header::parse_header", kind="c05", input=wit())
        if fix_tag is not None and n >= 1 and "c05" in (kinds or ["c05"]):
            check_getters(ctx, e, h, entries.items[0], wit)
        # C01: write reproduces the consumed bytes except the reserved ones
        w, ob = wr
        if w.variant != "Ok" or len(ob) != pos:
            ctx.fail("written header has a different length than the parsed input", "Header::write", kind="rt", input=wit())
            return
        conds = [ob[i] == (bs[i] if not 4 <= i < 8 else 0) for i in range(pos)]
        if e._check(z3.Not(z3.And(conds))):
            e.solver.push()
            e.solver.add(z3.Not(z3.And(conds)))
            w_ = wit()
            e.solver.pop()
            ctx.fail("parse then write does not reproduce the header bytes", "Header::write", kind="rt", input=w_)

    ex.run_all(setup2, body, on_path)


def replay_hdr(ctx, fl):
    import rpmbytes as RB
    inp = bytes.fromhex(fl["input"])
    # wrap into package metadata: lead + empty signature header + the header under test
    meta = RB.lead() + RB.sig_header([], b"") + inp
    ans = ctx.native.ask("meta_rt", meta.hex())
    k = fl["kind"]
    if k == "panic":
        return ans == "panic", "real crate: PackageMetadata::parse -> %s" % ans.split()[0]
    if k == "alloc":
        a = ctx.native.ask("peak", "meta_rt", meta.hex())
        pk = int(a.rsplit("peak=", 1)[1])
        lim = max(16 * len(meta) + 4096, 1 << 16)
        return pk > lim, "real crate: largest single allocation while parsing the %d-byte input: %d bytes (%s)" % (len(meta), pk, a.split()[0])
    if ans.startswith("ok"):
        out = bytes.fromhex(ans.split()[1]) if ans.split()[1] != "-" else b""
        hdr_out = out[96 + 16:]
        want = bytearray(inp[:len(hdr_out)])
        want[4:8] = b"\0\0\0\0"
        return bytes(want) != hdr_out, "real crate: header %s written back as %s" % (inp.hex(), hdr_out.hex())
    return False, "real crate: " + ans[:80]


REPLAYERS["hdr"] = replay_hdr
HDR_SHAPES = [(0, 0), (4, 0), (16, 0), (17, 1), (18, 0), (20, 2), (24, 0)]
for _r, _x in HDR_SHAPES:
    HARNESSES["c04_hdr_%d_%d" % (_r, _x)] = (lambda r, x: (lambda ctx: hdr_parse(ctx, r, x, fix_intro=True, kinds=("panic", "alloc"))))(_r, _x)
    HARNESSES["c01_hdr_%d_%d" % (_r, _x)] = (lambda r, x: (lambda ctx: hdr_parse(ctx, r, x, fix_intro=True, kinds=("rt", "inv", "consume"))))(_r, _x)
    HARNESSES["c05_hdr_%d_%d" % (_r, _x)] = (lambda r, x: (lambda ctx: hdr_parse(ctx, r, x, fix_intro=True, kinds=("c05",), fix_tag=1000)))(_r, _x)
for _r in (0, 16, 17):
    HARNESSES["c04_hdr_anyintro_%d_0" % _r] = (lambda r: (lambda ctx: hdr_parse(ctx, r, 0, fix_intro=False, kinds=("panic", "alloc"))))(_r)
    HARNESSES["c01_hdr_anyintro_%d_0" % _r] = (lambda r: (lambda ctx: hdr_parse(ctx, r, 0, fix_intro=False, kinds=("rt", "inv", "consume"))))(_r)
# non-ASCII store bytes for the binary/integer types are covered by a variant without the ASCII restriction; paths that reach
# string decoding with a byte >= 0x80 are outside the bound (counted in extra.paths_outside_bound)
# typed shapes: two entries (BIN+BIN, INT32+STRING), one INT32 / INT16 / INT64 entry holding two items
for _nm, _rl, _ty, _ct in (("2bin_2", 34, [7, 7], None), ("2i32str_6", 38, [4, 6], [1, 1]), ("i32x2", 24, [4], [2]), ("i16x2", 20, [3], [2]), ("i64x2", 32, [5], [2]), ("strs2", 20, [8], [2])):
    HARNESSES["c01_hdrt_" + _nm] = (lambda rl, ty, ct: (lambda ctx: hdr_parse(ctx, rl, 0, fix_intro=True, ascii_store=False, kinds=("rt", "inv", "consume"), fix_types=ty, fix_counts=ct)))(_rl, _ty, _ct)
    HARNESSES["c04_hdrt_" + _nm] = (lambda rl, ty, ct: (lambda ctx: hdr_parse(ctx, rl, 0, fix_intro=True, ascii_store=False, kinds=("panic", "alloc"), fix_types=ty, fix_counts=ct)))(_rl, _ty, _ct)
    HARNESSES["c05_hdrt_" + _nm] = (lambda rl, ty, ct: (lambda ctx: hdr_parse(ctx, rl, 0, fix_intro=True, ascii_store=(8 in ty or 6 in ty), kinds=("c05",), fix_tag=1000, fix_types=ty, fix_counts=ct)))(_rl, _ty, _ct)
HARNESSES["c04_hdr_bin_18_0"] = lambda ctx: hdr_parse(ctx, 18, 0, fix_intro=True, ascii_store=False, kinds=("panic", "alloc"))
HARNESSES["c01_hdr_bin_18_0"] = lambda ctx: hdr_parse(ctx, 18, 0, fix_intro=True, ascii_store=False, kinds=("rt", "inv", "consume"))
HARNESSES["c05_hdr_bin_18_0"] = lambda ctx: hdr_parse(ctx, 18, 0, fix_intro=True, ascii_store=False, kinds=("c05",), fix_tag=1000)


def replay_any(ctx, fl):
    k = fl.get("kind")
    if k in ("panic", "alloc", "rt", "inv", "consume") and "input" in fl:
        return replay_hdr(ctx, fl)
    if k == "c05" and "input" in fl:
        return replay_c05(ctx, fl)
    if fl.get("items") is not None:
        return replay_c04_pd(ctx, fl)
    if k == "echo":
        return False, "needs a logger at debug level; not replayed natively"
    if k in ("cpio_panic", "cpio_alloc"):
        return replay_cpio(ctx, fl)
    return False, "no native replayer for witness kind %s" % k


def replay_cpio(ctx, fl):
    """native: a package whose (uncompressed) payload is the witness archive; Package::files() iterates it"""
    import rpmbytes as RB
    from rpmvals import tag
    arch = bytes.fromhex(fl["input"])
    n = fl.get("nfiles", 0)
    ent, st = RB.file_header(max(n, 1))     # the iterator reads an archive entry only while header files remain
    pkg = RB.package([], b"", ent, st, arch)
    ans = ctx.native.ask("files", pkg.hex())
    if fl["kind"] == "cpio_panic":
        return ans.startswith("panic"), "real crate: Package::files() on the witness archive -> %s" % ans[:60]
    a = ctx.native.ask("peak", "files", pkg.hex())
    pk = int(a.rsplit("peak=", 1)[1])
    lim = max(16 * len(pkg) + 4096, 1 << 16)
    return pk > lim, "real crate: largest single allocation while iterating the %d-byte package: %d bytes" % (len(pkg), pk)


def replay_c05(ctx, fl):
    """native: parse the witness header inside package metadata and query every getter for RPMTAG_NAME; compare with a concrete
    decoding (python) of the same bytes"""
    import rpmbytes as RB
    inp = bytes.fromhex(fl["input"])
    meta = RB.lead() + RB.sig_header([], b"") + inp
    ans = ctx.native.ask("getters", meta.hex())
    if ans in ("parse-err", "panic"):
        return ans == "panic", "real crate: " + ans
    got = dict(x.split("=", 1) for x in ans.split())
    n = int.from_bytes(inp[8:12], "big")
    d = int.from_bytes(inp[12:16], "big")
    eb = inp[16:32]
    store = inp[16 + 16 * n:16 + 16 * n + d]
    t, off, cnt = int.from_bytes(eb[4:8], "big"), int.from_bytes(eb[8:12], "big", signed=True), int.from_bytes(eb[12:16], "big")
    exp = {}
    if 0 <= off <= len(store):
        s = store[off:]
        if t == 7 and cnt <= len(s):
            exp["bin"] = s[:cnt].hex() or "-"
        if t == 6:
            exp["str"] = s.split(b"\0")[0].hex() or "-"
        if t in (8, 9):
            items = s.split(b"\0")[:-1][:cnt] if s.count(b"\0") >= cnt else None
            if items is not None and len(items) == cnt:
                exp["strs"] = ",".join(x.hex() or "-" for x in items)
                if t == 9 and items:
                    exp["i18n"] = items[0].hex() or "-"
        for ty, w, key in ((3, 2, "u16s"), (4, 4, "u32s"), (5, 8, "u64s")):
            if t == ty and cnt * w <= len(s):
                vals = [int.from_bytes(s[w * i:w * i + w], "big") for i in range(cnt)]
                exp[key] = ",".join("%x" % v for v in vals)
                if ty == 4 and vals:
                    exp["u32"] = "%x" % vals[0]
                if ty == 5 and vals:
                    exp["u64"] = "%x" % vals[0]
    diffs = [(k, got.get(k), exp.get(k, "!")) for k in ("bin", "str", "i18n", "u16s", "u32", "u32s", "u64", "u64s", "strs") if got.get(k) != exp.get(k, "!")]
    return bool(diffs), "real crate getters vs independent decoding differ: %s" % diffs[:3] if diffs else "real crate getters agree with the independent decoding"


for _p in ("c01", "c04", "c05", "hdr"):
    REPLAYERS[_p] = replay_any


def c04_echo(ctx, n):
    f = ctx.find_fn(r"(signature::)?echo_signature")
    ex = Exec(ctx.funcs, intrinsics.I)
    ctx.stats = ex.stats
    ctx.bounds = "echo_signature (called on every signature blob by verify_signature) on a blob of %d symbolic bytes, under every log level the application may have set" % n

    def on_path(e, bs, out):
        ctx.cover("returned", out[0] == "return")
        if out[0] != "return":
            ctx.fail("the signature logging helper panics: %s" % (out[1],), "echo_signature", kind="echo", n=n)
    ex.run_all(lambda e: sym_bytes(e, "g", n, 0, 255), lambda e, bs: e.call_fn(f, [Str.lit(b"scope"), Str(bs)]), on_path)


for _n in range(0, 7):
    HARNESSES["c04_echo_%d" % _n] = (lambda n: (lambda ctx: c04_echo(ctx, n)))(_n)


# ---------------------------------------------------------------------------------------------------------
# Package metadata level: lead + signature header + padding + main header (C01, C04, C14 read side, C16)
# ---------------------------------------------------------------------------------------------------------
def meta_parse(ctx, tail_len, kinds, chunk=0, lead_sym=False):
    """input = lead (magic fixed; rest symbolic if lead_sym else zero) + tail_len fully symbolic bytes holding the signature header,
    its padding, the main header and possibly trailing payload bytes (both intros have valid magic/version, every count symbolic)."""
    parse = ctx.impl_fn("parse", None, "PackageMetadata")
    write = ctx.impl_fn("write", None, "PackageMetadata")
    offs = ctx.impl_fn("get_package_segment_offsets", None, "PackageMetadata")
    _fail0 = ctx.fail

    def _fail(description, function, **kw):
        if kw.get("kind") in kinds:
            _fail0(description, function, **kw)
    ctx.fail = _fail
    ex = Exec(ctx.funcs, intrinsics.I, max_steps=600000)
    ctx.stats = ex.stats
    total = 96 + tail_len
    ALLOC_BUDGET[0] = 16 * total + 4096
    intrinsics2.ITEM_BUDGET[0] = total + 16
    ctx.bounds = ("PackageMetadata::parse on lead + %d symbolic bytes (signature header, padding, main header, trailing bytes; string data ASCII); "
                  "reader hands out %s per fill_buf/read" % (tail_len, "everything" if chunk == 0 else "%d byte(s)" % chunk))

    def setup(e):
        lead = [z3.BitVecVal(x, 8) for x in (0xed, 0xab, 0xee, 0xdb)] + (sym_bytes(e, "l", 92, 0, 255) if lead_sym else [z3.BitVecVal(0, 8)] * 92)
        tail = sym_bytes(e, "t", tail_len, 0, 255)
        for i, v in enumerate((0x8e, 0xad, 0xe8, 0x01)):
            e.solver.add(tail[i] == v)
        return lead + tail

    def run(e, bs, k, limit=None):
        rd = Reader(bs if limit is None else bs[:limit], k)
        r = e.call_fn(parse, [Ref(Cell(rd))])
        return r, rd.pos

    def body(e, bs):
        r, pos = run(e, bs, 0)
        extra = {}
        if r.variant == "Ok":
            m = r.fields[0]
            out = VecV([])
            w = e.call_fn(write, [Ref(Cell(m)), Ref(Cell(out))])
            extra["write"] = (w, as_bytes(e, out))
            extra["offs"] = e.call_fn(offs, [Ref(Cell(m))])
            if "chunk" in kinds:
                extra["chunked"] = [run(e, bs, k) for k in (1, 3, 7)]
            if "trunc" in kinds:
                extra["trunc"] = [(t, run(e, bs, 0, t)[0].variant) for t in range(max(96, pos - 24), pos)]
        return r, pos, extra

    def on_path(e, bs, out):
        k, v = out

        def wit():
            return model_bytes(e, bs).hex()
        if k == "skip":
            ctx.extra["paths_outside_bound"] = ctx.extra.get("paths_outside_bound", 0) + 1
            return
        if k == "alloc":
            ctx.fail("metadata parsing asks for memory out of proportion to the input", "PackageMetadata::parse", kind="alloc", input=wit(), detail=str(v))
            return
        if k != "return":
            ctx.fail("metadata parsing panics: %s" % (v,), "PackageMetadata::parse", kind="panic", input=wit())
            return
        r, pos, extra = v
        ctx.cover("metadata accepted", r.variant == "Ok")
        ctx.cover("metadata rejected", r.variant != "Ok")
        if r.variant != "Ok":
            return
        m = r.fields[0]
        lead, sig, hdr = m.fields
        ns, ds = len(sig.fields[1].items), len(sig.fields[2].items)
        nh, dh = len(hdr.fields[1].items), len(hdr.fields[2].items)
        pad = (8 - ds % 8) % 8
        hstart = 96 + 16 + 16 * ns + ds + pad
        ctx.cover("signature header with padding", pad > 0)
        # C01: write reproduces the consumed bytes (reserved bytes and padding zeroed)
        w, ob = extra["write"]
        if w.variant != "Ok" or len(ob) != pos:
            ctx.fail("written metadata has a different length (%d) than the parsed input (%d)" % (len(ob), pos), "PackageMetadata::write", kind="rt", input=wit())
        else:
            conds = []
            for i in range(pos):
                reserved = (96 + 4 <= i < 96 + 8) or (hstart + 4 <= i < hstart + 8) or (hstart - pad <= i < hstart)
                conds.append(ob[i] == (0 if reserved else bs[i]))
            if e._check(z3.Not(z3.And(conds))):
                e.solver.push()
                e.solver.add(z3.Not(z3.And(conds)))
                w_ = wit()
                e.solver.pop()
                ctx.fail("parse then write does not reproduce the metadata bytes", "PackageMetadata::write", kind="rt", input=w_)
        # C16: reported offsets are the real boundaries
        o = extra["offs"]
        want = [0, 96, hstart, pos]
        got = [f.e for f in o.fields]
        if e._check(z3.Not(z3.And([g == z3.BitVecVal(wv, 64) for g, wv in zip(got, want)]))):
            ctx.fail("reported segment offsets differ from the positions at which the parser found the segments", "get_package_segment_offsets", kind="offs", input=wit())
        if pos != hstart + 16 + 16 * nh + dh:
            ctx.fail("parser consumed %d bytes, segments add up to %d" % (pos, hstart + 16 + 16 * nh + dh), "PackageMetadata::parse", kind="rt", input=wit())
        # C14: result does not depend on how the source chunks its reads
        for (rk, pk) in extra.get("chunked", []):
            same = rk.variant == "Ok" and pk == pos and not e._check(z3.Not(intrinsics2._eq_any(e, rk.fields[0], m)))
            if not same:
                ctx.fail("parsing from a chunking source gives a different result", "PackageMetadata::parse", kind="chunk", input=wit())
                break
        for (t, var) in extra.get("trunc", []):
            if var == "Ok":
                ctx.fail("input truncated before the payload starts is accepted", "PackageMetadata::parse", kind="trunc", input=wit(), cut=t)
                break

    ex.run_all(setup, body, on_path)


def replay_meta(ctx, fl):
    inp = bytes.fromhex(fl["input"])
    k = fl["kind"]
    if k == "trunc":
        ans = ctx.native.ask("meta_rt", inp[:fl["cut"]].hex())
        return ans.startswith("ok"), "real crate on the input truncated to %d bytes: %s" % (fl["cut"], ans.split()[0])
    ans = ctx.native.ask("meta_rt", inp.hex())
    if k == "panic":
        return ans == "panic", "real crate: " + ans.split()[0]
    if k == "rt" and ans.startswith("ok"):
        out = bytes.fromhex(ans.split()[1])
        return out != inp[:len(out)] and True, "real crate wrote %s for input %s" % (out[96:].hex(), inp[96:].hex())
    if k == "chunk":
        ans1 = ctx.native.ask("meta_chunked", inp.hex())
        return ans1 != ans, "real crate: slice parse -> %s..., 1-byte BufReader parse -> %s..." % (ans[:20], ans1[:20])
    if k == "offs":
        a = ctx.native.ask("meta_offsets", inp.hex())
        return True if a.startswith("mismatch") else False, "real crate: " + a
    return False, "no native replay for kind " + k


for _t in (32, 40, 48, 49, 56):
    HARNESSES["c04_meta_%d" % _t] = (lambda t: (lambda ctx: meta_parse(ctx, t, ("panic", "alloc"))))(_t)
    HARNESSES["c01_meta_%d" % _t] = (lambda t: (lambda ctx: meta_parse(ctx, t, ("rt",))))(_t)
    HARNESSES["c16_meta_%d" % _t] = (lambda t: (lambda ctx: meta_parse(ctx, t, ("offs",))))(_t)
    HARNESSES["c14_meta_%d" % _t] = (lambda t: (lambda ctx: meta_parse(ctx, t, ("chunk", "trunc"))))(_t)
HARNESSES["c01_meta_lead_32"] = lambda ctx: meta_parse(ctx, 32, ("rt",), lead_sym=True)
_ra = replay_any


def replay_any2(ctx, fl):
    if fl.get("kind") in ("chunk", "trunc", "offs") or (fl.get("kind") in ("rt", "panic", "alloc") and len(fl.get("input", "")) >= 2 * 96 and fl["input"].startswith("edabeedb")):
        return replay_meta(ctx, fl)
    return _ra(ctx, fl)


for _p in ("c01", "c04", "c05", "hdr", "c14", "c16"):
    REPLAYERS[_p] = replay_any2


# ---------------------------------------------------------------------------------------------------------
# C02: signature verification decision logic with a recording verifier
# ---------------------------------------------------------------------------------------------------------
class RecVerifier:
    """S6: stands for any implementation of the public Verifying trait: accepts or rejects each call as the solver chooses,
    records what it was shown."""

    def __init__(self):
        self.calls = []      # (data bytes, signature bytes, accepted)


class CursorV(Reader):
    """io::Cursor over bytes: the reader model of intrinsics3 (Read / BufRead), `bs` = all bytes"""

    def __init__(self, bs):
        Reader.__init__(self, list(bs))

    @property
    def bs(self):
        return self.data


@intrinsics.intr("std::io::Cursor::new")
def _cursor_new(ex, args, f):
    return CursorV(as_bytes(ex, args[0]))


@intrinsics.intr("<_ as Read>::chain")
def _chain(ex, args, f):
    a, b = intrinsics.deref_all(ex, args[0]), intrinsics.deref_all(ex, args[1])
    return CursorV(a.bs + b.bs)


@intrinsics.intr("<_ as Verifying>::verify")
def _verify(ex, args, f):
    v = intrinsics.deref_all(ex, args[0])
    d = intrinsics.deref_all(ex, args[1])
    if isinstance(d, CursorV):
        # a verifier reads its data through io::Read: it sees what is LEFT in the reader and leaves it drained
        data = list(d.data[d.pos:])
        d.pos = len(d.data)
    else:
        data = as_bytes(ex, d)
    sig = as_bytes(ex, args[2])
    acc = z3.Bool("accept_%d" % len(v.calls))
    a = ex.decide(acc)
    v.calls.append((list(data), list(sig), a))
    return intrinsics2.ok() if a else intrinsics2.err(Adt("Error", "VerificationError", []))


@intrinsics.intr("<_ as Verifying>::algorithm")
def _verify_algorithm(ex, args, f):
    """S6: the verifier's key family is whatever the implementation says: chosen by the solver (constant per verifier)"""
    v = intrinsics.deref_all(ex, args[0])
    if getattr(v, "algo", None) is None:
        v.algo = "RSA" if ex.decide(z3.Bool("verifier_is_rsa")) else ("EdDSA" if ex.decide(z3.Bool("verifier_is_eddsa")) else "ECDSA")
    return Adt("AlgorithmType", v.algo)


DECODE_LENS = (0, 3, 6)


def _decode_sig(ex, args, f):
    """S7: base64 decoding of an OpenPGP entry (pgp crate) -> error, or some decoded bytes (lengths 0/3/6, content symbolic)"""
    n = getattr(ex, "_decode_calls", 0)
    ex._decode_calls = n + 1
    okv = z3.Bool("decode_ok_%d" % n)
    if not ex.decide(okv):
        return intrinsics2.err(Adt("Error", "Io", []))
    ln = z3.BitVec("decode_len_%d" % n, 8)
    ex.solver.add(z3.Or([ln == L for L in DECODE_LENS]))
    ex.model = None
    for L in DECODE_LENS:
        if ex.decide(ln == L):
            bs = [z3.BitVec("dec_%d_%d" % (n, i), 8) for i in range(L)]
            out = VecV([Int(b, "u8") for b in bs])
            ex._decoded.append(bs)
            return intrinsics2.ok(out)
    raise Unsupported("decode length")


def c02_shapes():
    """signature-header shapes: for each of OPENPGP/RSA/DSA/PGP: absent, right type, wrong type; OPENPGP right type with 0..2 items"""
    import itertools
    og = ["absent", "wrong", "arr0", "arr1", "arr2"]
    lg = ["absent", "right", "wrong"]
    return list(itertools.product(og, lg, lg, lg))


def c02_verify(ctx, shapes, with_digest, with_sha1=False):
    vs = ctx.impl_fn("verify_signature", None, "Package")
    wr = ctx.impl_fn("write", None, "Header")
    ctx.bounds = ("%d signature-header shapes (OPENPGP: absent / wrong type / string array of 0,1,2 items; RSA, DSA, PGP: absent / binary / wrong type), signature bytes symbolic, "
                  "every accept/reject pattern of the verifier, base64 decoding modelled as error-or-arbitrary-bytes%s; main header of one entry, payload 2 symbolic bytes"
                  % (len(shapes), ("; SHA256 header digest present and symbolic (%d characters)" % (64 if with_digest is True else with_digest)) if with_digest is not False else ""))
    total = None
    for shape in shapes:
        ex = Exec(ctx.funcs, intrinsics.I)
        ex.overrides = {"signatures::decode_sig": _decode_sig, "decode_sig": _decode_sig}
        og, rsa, dsa, pgp = shape

        def setup(e, og=og, rsa=rsa, dsa=dsa, pgp=pgp):
            e._decode_calls = 0
            e._decoded = []
            inp = {"content": sym_bytes(e, "c", 2, 0, 255), "rsa": sym_bytes(e, "r", 6, 0, 255), "dsa": sym_bytes(e, "d", 6, 0, 255), "pgp": sym_bytes(e, "g", 6, 0, 255),
                   "b64": [sym_bytes(e, "o%d_" % i, 2, 0x30, 0x7a) for i in range(2)], "sha256": sym_bytes(e, "S", 64 if with_digest is True else int(with_digest), 0x20, 0x7e),
                   "sha1": sym_bytes(e, "s1_", 40, 0x20, 0x7e)}
            return inp

        def body(e, inp, og=og, rsa=rsa, dsa=dsa, pgp=pgp):
            ents = []
            if og == "wrong":
                ents.append(index_entry(sigtag("RPMSIGTAG_OPENPGP"), index_data("Bin", byte_vec(inp["rsa"]))))
            elif og.startswith("arr"):
                n = int(og[3])
                ents.append(index_entry(sigtag("RPMSIGTAG_OPENPGP"), index_data("StringArray", VecV([string(inp["b64"][i]) for i in range(n)]))))
            for name, st, key in (("RPMSIGTAG_RSA", rsa, "rsa"), ("RPMSIGTAG_DSA", dsa, "dsa"), ("RPMSIGTAG_PGP", pgp, "pgp")):
                if st == "right":
                    ents.append(index_entry(sigtag(name), index_data("Bin", byte_vec(inp[key]))))
                elif st == "wrong":
                    ents.append(index_entry(sigtag(name), index_data("StringTag", string(inp[key]))))
            if with_sha1:
                ents.append(index_entry(sigtag("RPMSIGTAG_SHA1"), index_data("StringTag", string(inp["sha1"]))))
            if with_digest is not False:
                ents.append(index_entry(sigtag("RPMSIGTAG_SHA256"), index_data("StringTag", string(inp["sha256"]))))
            sig = header(ents, [])
            hdr = header([index_entry(tag("RPMTAG_NAME"), index_data("StringTag", string(b"x")), 0)], [ord("x"), 0])
            pkg = package(sig, hdr, inp["content"])
            buf = VecV([])
            e.call_fn(wr, [Ref(Cell(hdr)), Ref(Cell(buf))])
            hb = as_bytes(e, buf)
            ver = RecVerifier()
            r = e.call_fn(vs, [Ref(Cell(pkg)), ver])
            return r, ver, hb

        def on_path(e, inp, out, shape=shape, og=og, rsa=rsa, dsa=dsa, pgp=pgp):
            k, v = out

            def wit():
                m = e.witness_model()
                g = lambda xs: bytes(m.eval(x, model_completion=True).as_long() for x in xs).hex()  # noqa: E731
                return dict(shape="/".join(shape), content=g(inp["content"]), rsa=g(inp["rsa"]), dsa=g(inp["dsa"]), pgp=g(inp["pgp"]),
                            b64=[g(x) for x in inp["b64"]], sha256=g(inp["sha256"]), digest=(with_digest is not False), sha1=bool(with_sha1),
                            accepts=("".join("1" if c[2] else "0" for c in v[1].calls) if k == "return" else ""),
                            algo=(getattr(v[1], "algo", None) if k == "return" else None) or "RSA")
            if k != "return":
                ctx.fail("signature verification panics: %s" % (v,), "Package::verify_signature", kind="panic", **wit())
                return
            r, ver, hb = v
            okr = r.variant == "Ok"
            ctx.cover("verification succeeds", okr)
            ctx.cover("verification fails", not okr)
            ctx.cover("verifier consulted twice", len(ver.calls) >= 2)
            content = list(inp["content"])
            if okr:
                why = None
                if not ver.calls:
                    why = "succeeds although the verifier was never consulted"
                elif not all(c[2] for c in ver.calls):
                    why = "succeeds although the verifier rejected a signature"
                else:
                    # what each call must have been shown
                    expected_sigs = []
                    if og.startswith("arr"):
                        expected_sigs = [("hdr", d) for d in e._decoded]
                    else:
                        if dsa == "right":
                            expected_sigs.append(("hdr", inp["dsa"]))
                        if rsa == "right":
                            expected_sigs.append(("hdr", inp["rsa"]))
                        if pgp == "right":
                            expected_sigs.append(("hdr+content", inp["pgp"]))
                    if len(expected_sigs) != len(ver.calls):
                        why = "succeeds with %d verifier calls for %d signatures" % (len(ver.calls), len(expected_sigs))
                    else:
                        for (cov, sg), (data, sig, _a) in zip(expected_sigs, ver.calls):
                            want = hb + (content if cov == "hdr+content" else [])
                            if len(data) != len(want) or e._check(z3.Not(all_eq(data, want))):
                                why = "succeeds although a signature was checked against other bytes than the ones it covers"
                            elif len(sig) != len(sg) or (sig and e._check(z3.Not(all_eq(sig, list(sg))))):
                                why = "succeeds although the verifier was shown different signature bytes than the header stores"
                    if why is None and with_digest is not False:
                        dig_ok = all_eq(hexchars(uf_digest("sha256", hb)), inp["sha256"])
                        if with_sha1:
                            dig_ok = z3.And(dig_ok, all_eq(hexchars(uf_digest("sha1", hb)), inp["sha1"]))
                        if e._check(z3.Not(dig_ok)):
                            why = "succeeds although the recorded header digest does not match"
                if why:
                    ctx.fail("signature verification " + why, "Package::verify_signature", kind="c02", **wit())
            else:
                # liveness half: a well-typed signature, all accepted, decoding fine, digests fine => success
                has = og in ("arr1", "arr2") or (not og.startswith("arr") and "right" in (rsa, dsa, pgp))
                allacc = all(c[2] for c in ver.calls) and ver.calls
                decodes_ok = True
                m = None
                if has and allacc:
                    er = r.fields[0]
                    if isinstance(er, Adt) and er.variant in ("VerificationError", "Io"):
                        return
                    if with_digest is not False and isinstance(er, Adt) and er.variant == "DigestMismatchError":
                        return
                    ctx.fail("signature verification fails (%s) although every signature was accepted" % (getattr(er, "variant", er),), "Package::verify_signature", kind="c02live", **wit())

        ex.run_all(setup, body, on_path)
        if total is None:
            total = ex.stats
        else:
            for kk in ("paths", "decisions", "solver_calls", "steps"):
                setattr(total, kk, getattr(total, kk) + getattr(ex.stats, kk))
            total.solver_s += ex.stats.solver_s
            total.functions |= ex.stats.functions
            total.intrinsics |= ex.stats.intrinsics
            total.max_depth = max(total.max_depth, ex.stats.max_depth)
    ctx.stats = total


_ALL = c02_shapes()
HARNESSES["c02_verify_openpgp"] = lambda ctx: c02_verify(ctx, [s for s in _ALL if s[0].startswith("arr")], False)
HARNESSES["c02_verify_legacy"] = lambda ctx: c02_verify(ctx, [s for s in _ALL if not s[0].startswith("arr")], False)
HARNESSES["c02_verify_digest"] = lambda ctx: c02_verify(ctx, [("arr1", "absent", "absent", "absent"), ("absent", "right", "absent", "absent"), ("absent", "absent", "right", "right"),
                                                              ("arr0", "right", "absent", "absent"), ("wrong", "absent", "right", "absent")], True)
# the same with a recorded header digest that is shorter than a SHA-256 in hex
HARNESSES["c02_verify_digest_short"] = lambda ctx: c02_verify(ctx, [("arr1", "absent", "absent", "absent"), ("absent", "right", "absent", "absent")], 63)
HARNESSES["c02_verify_digest_empty"] = lambda ctx: c02_verify(ctx, [("arr1", "absent", "absent", "absent")], 0)
# both header digests recorded (SHA1 and SHA256), each symbolic: success needs both to match
HARNESSES["c02_verify_digest_both"] = lambda ctx: c02_verify(ctx, [("arr1", "absent", "absent", "absent"), ("absent", "right", "absent", "absent")], True, with_sha1=True)


def replay_c02(ctx, fl):
    import rpmbytes as RB
    from rpmvals import sigtag, tag
    og, rsa, dsa, pgp = fl["shape"].split("/")
    sig_e, sig_s = [], b""

    def add(tagname, ty, data, count):
        nonlocal sig_s
        sig_e.append((sigtag(tagname), ty, len(sig_s), count))
        sig_s += data
    if og == "wrong":
        add("RPMSIGTAG_OPENPGP", "Bin", bytes.fromhex(fl["rsa"]), 6)
    elif og.startswith("arr"):
        n = int(og[3])
        add("RPMSIGTAG_OPENPGP", "StringArray", b"QUJD\0" * n, n)     # valid base64 ("ABC"); the decision logic does not look at the content
    for name, st, key in (("RPMSIGTAG_RSA", rsa, "rsa"), ("RPMSIGTAG_DSA", dsa, "dsa"), ("RPMSIGTAG_PGP", pgp, "pgp")):
        if st == "right":
            add(name, "Bin", bytes.fromhex(fl[key]), 6)
        elif st == "wrong":
            add(name, "StringTag", b"abc\0", 1)
    if fl.get("digest"):
        # the recorded header digest: the true one, unless the finding is that a wrong one is accepted (then: junk of the witness's
        # length, or - for another length than 64 - the matching prefix/extension of the true digest)
        import hashlib
        true = hashlib.sha256(RB.header([(tag("RPMTAG_NAME"), "StringTag", 0, 1)], b"x\0")).hexdigest().encode()
        n = len(bytes.fromhex(fl.get("sha256", "")))
        val = true
        if "digest does not match" in fl.get("description", "") and not fl.get("sha1"):
            val = b"5" * 64 if n == 64 else (true + true)[:n]
        if fl.get("sha1"):
            # both digests recorded: the SHA256 one right, the SHA1 one wrong when the finding is an accepted mismatch
            t1 = hashlib.sha1(RB.header([(tag("RPMTAG_NAME"), "StringTag", 0, 1)], b"x\0")).hexdigest().encode()
            add("RPMSIGTAG_SHA1", "StringTag", (b"5" * 40 if "digest does not match" in fl.get("description", "") else t1) + b"\0", 1)
        add("RPMSIGTAG_SHA256", "StringTag", val + b"\0", 1)
    pkg = RB.package(sig_e, sig_s, [(tag("RPMTAG_NAME"), "StringTag", 0, 1)], b"x\0", bytes.fromhex(fl["content"]))
    pattern = fl.get("accepts") or "1111"
    if fl["kind"] != "c02":
        pattern = "1111"
    ans = ctx.native.ask("sigverify", pkg.hex(), pattern, fl.get("algo") or "RSA")
    parts = dict(x.split("=") for x in ans.split()[1:]) if " " in ans else {}
    res = ans.split()[0]
    if fl["kind"] == "panic":
        return res == "panic", "real crate: " + ans
    if fl["kind"] == "c02":
        ncalls = int(parts.get("calls", "0"))
        # what each verifier call must be shown, in the order the signatures are consulted: every OpenPGP array item and the header-only legacy
        # signatures (DSA slot, then RSA) cover the header ('h'), the legacy v3 PGP signature covers header and payload ('c')
        expect = ("h" * int(og[3])) if og.startswith("arr") else "".join(c for c, st in (("h", dsa), ("h", rsa), ("c", pgp)) if st == "right")
        cov = parts.get("covers", "").replace("-", "")
        wrong_cover = any(a != b for a, b in zip(cov, expect))
        bad = res == "ok" and (ncalls == 0 or "x" in cov or wrong_cover or "0" in pattern[:ncalls] or "digest does not match" in fl.get("description", ""))
        return bad, "real crate with a verifier answering %s (1 = accept): %s" % (pattern, ans)
    if fl["kind"] == "c02live":
        return res != "ok", "real crate with an all-accepting verifier: %s" % ans
    return False, "unknown kind"


REPLAYERS["c02"] = replay_c02


# ---------------------------------------------------------------------------------------------------------
# C09: header assembly (Header::from_entries) against a strict validator modelled on rpm's header verification
# ---------------------------------------------------------------------------------------------------------
TYPE_ALIGN = {"Null": 1, "Char": 1, "Int8": 1, "Int16": 2, "Int32": 4, "Int64": 8, "StringTag": 1, "Bin": 1, "StringArray": 1, "I18NString": 1}
TYPE_ID = {n: i for i, n in enumerate(["Null", "Char", "Int8", "Int16", "Int32", "Int64", "StringTag", "Bin", "StringArray", "I18NString"])}


def sym_payload(e, variant, name, k):
    """payload of k items with symbolic contents (strings: 1 symbolic non-NUL ASCII byte each)"""
    if variant in ("Char", "Int8", "Bin"):
        return byte_vec(sym_bytes(e, name, k, 0, 255))
    if variant in ("Int16", "Int32", "Int64"):
        w = {"Int16": 16, "Int32": 32, "Int64": 64}[variant]
        return VecV([Int(z3.BitVec("%s_%d" % (name, i), w), "u%d" % w) for i in range(k)])
    if variant == "StringTag":
        return string(sym_bytes(e, name, k, 1, 0x7f))
    return VecV([string(sym_bytes(e, "%s_%d_" % (name, i), 1, 1, 0x7f)) for i in range(k)])


def validate_header(e, h, region, fail):
    """strict structural validation of an assembled Header value (index entries + store), after rpm's hdrblobVerifyInfo/Region"""
    ih, entries, store = h.fields
    ents = entries.items
    st = [x.e for x in store.items]
    n = len(ents)
    if e._check(z3.Not(z3.And(ih.fields[2].e == n, ih.fields[3].e == len(st)))):
        return fail("intro counts differ from the number of entries / store size")
    if n == 0:
        return fail("no region entry")

    def conc(x):
        c = x.conc()
        if c is None:
            raise Unsupported("validator: symbolic field")
        return c
    r0 = ents[0]
    if e._check(r0.fields[0].e != region) or r0.fields[1].variant != "Bin" or conc(r0.fields[3]) != 16:
        return fail("first entry is not the region tag (BIN, count 16)")
    roff = conc(r0.fields[2])
    if roff < 0 or roff + 16 > len(st):
        return fail("region trailer offset outside the store")
    tr = st[roff:roff + 16]
    want = [region >> 24 & 255, region >> 16 & 255, region >> 8 & 255, region & 255, 0, 0, 0, 7]
    backptr = (-16 * n) & 0xffffffff
    want += [backptr >> 24 & 255, backptr >> 16 & 255, backptr >> 8 & 255, backptr & 255, 0, 0, 0, 16]
    if e._check(z3.Not(z3.And([a == b for a, b in zip(tr, want)]))):
        return fail("region trailer does not point back over exactly all entries")
    if roff + 16 != len(st):
        return fail("region trailer is not at the end of the store")
    prev_tag = None
    prev_end = 0
    for ent in ents[1:]:
        tagv, data, off, cnt = ent.fields[0], ent.fields[1], conc(ent.fields[2]), conc(ent.fields[3])
        if prev_tag is not None and e._check(z3.Not(z3.UGT(tagv.e, prev_tag.e))):
            return fail("tags are not in strictly ascending order")
        prev_tag = tagv
        al = TYPE_ALIGN[data.variant]
        if off < 0 or off % al:
            return fail("offset %d of a %s entry is not aligned to %d" % (off, data.variant, al))
        if cnt == 0:
            return fail("entry with zero count")
        if off < prev_end:
            return fail("entry data overlaps the previous entry")
        # length of the data in the store
        if data.variant in ("Char", "Int8", "Bin"):
            ln = cnt
        elif data.variant in ("Int16", "Int32", "Int64"):
            ln = cnt * al
        else:
            # cnt NUL-terminated strings (StringTag: 1)
            j = off
            for _ in range(cnt):
                while j < roff and not e.decide(st[j] == 0):
                    j += 1
                if j >= roff:
                    return fail("unterminated string in the store")
                j += 1
            ln = j - off
        if off + ln > roff:
            return fail("entry data runs past the end of the data area")
        # the stored bytes are the entry's data
        prev_end = off + ln
    return True


def c09_from_entries(ctx, variants, counts, which="IndexTag", region="RPMTAG_HEADERIMMUTABLE"):
    fe = ctx.impl_fn("from_entries", None, "Header")
    new = ctx.impl_fn("new", None, "IndexEntry")
    wr = ctx.impl_fn("write", None, "Header")
    parse = ctx.impl_fn("parse", None, "Header")
    ex = Exec(ctx.funcs, intrinsics.I, max_steps=400000)
    ex.type_env = {"T": which}
    ctx.stats = ex.stats
    ALLOC_BUDGET[0] = 1 << 16
    intrinsics2.ITEM_BUDGET[0] = 1 << 12
    region_val = (tag if which == "IndexTag" else sigtag)(region)
    ctx.bounds = "Header::from_entries over records of types %s with %s items each, tags symbolic and pairwise distinct, payload contents symbolic" % ("/".join(variants), "/".join(map(str, counts)))

    def setup(e):
        tags = [z3.BitVec("tag%d" % i, 32) for i in range(len(variants))]
        for i, t in enumerate(tags):
            e.solver.add(z3.UGE(t, 1000), z3.ULE(t, 1200))     # ordinary tags (above the region tags)
            for u in tags[:i]:
                e.solver.add(t != u)
        pls = [sym_payload(e, v, "p%d" % i, k) for i, (v, k) in enumerate(zip(variants, counts))]
        return tags, pls

    def body(e, inp):
        tags, pls = inp
        recs = []
        for t, v, pl in zip(tags, variants, pls):
            ent = index_entry(Int(t, "u32"), index_data(v, pl), 0)
            recs.append(ent)
        h = e.call_fn(fe, [VecV(recs), Adt(which, region)])
        out = VecV([])
        w = e.call_fn(wr, [Ref(Cell(h)), Ref(Cell(out))])
        ob = as_bytes(e, out)
        back = e.call_fn(parse, [Ref(Cell(Reader(ob)))])
        return h, ob, back

    def on_path(e, inp, out):
        k, v = out
        tags, pls = inp

        def wit():
            m = e.witness_model()

            def ev(x):
                return m.eval(x, model_completion=True).as_long()

            def pv(variant, pl):
                if variant in ("Char", "Int8", "Bin"):
                    return [ev(b) for b in as_bytes(e, pl)]
                if variant in ("Int16", "Int32", "Int64"):
                    return [ev(x.e) for x in pl.items]
                if variant == "StringTag":
                    return bytes(ev(b) for b in as_bytes(e, pl)).hex()
                return [bytes(ev(b) for b in as_bytes(e, x)).hex() for x in pl.items]
            return dict(tags=[ev(t) for t in tags], types=variants, counts=counts, payloads=[pv(v_, p_) for v_, p_ in zip(variants, pls)], which=which, region=region,
                        hname=ctx.hname)
        if k != "return":
            ctx.fail("header assembly fails: %s %s" % (k, v), "Header::from_entries", kind="c09", **wit())
            return
        h, ob, back = v
        ctx.cover("assembled", True)
        msgs = []
        okv = validate_header(e, h, region_val, lambda m: msgs.append(m) and False)
        if msgs:
            ctx.fail("assembled header violates rpm's structural rules: " + msgs[0], "Header::from_entries", kind="c09", **wit())
            return
        # the emitted bytes parse back to the same header and every record's data is found at its offset
        if back.variant != "Ok":
            ctx.fail("assembled header does not parse back", "Header::from_entries / Header::parse", kind="c09", **wit())
            return
        hb = back.fields[0]
        ents = h.fields[1].items[1:]
        bents = hb.fields[1].items[1:]
        # records sorted by tag: find for each input record its entry and compare data
        for t, vname, pl in zip(tags, variants, pls):
            found = None
            for en in bents:
                if not e._check(en.fields[0].e != t):
                    found = en
                    break
            if found is None:
                ctx.fail("a record is missing from the assembled header", "Header::from_entries", kind="c09", **wit())
                return
            d = found.fields[1]
            if d.variant != vname or (vname != "Null" and e._check(z3.Not(intrinsics2._eq_any(e, d.fields[0], pl)))):
                ctx.fail("record data read back from the assembled header differs from what was put in (%s)" % vname, "Header::from_entries", kind="c09", **wit())
                return

    ex.run_all(setup, body, on_path)


def rust_index_data(variant, pl):
    if variant in ("Char", "Int8", "Bin"):
        return "IndexData::%s(vec![%s])" % (variant, ", ".join("%du8" % b for b in pl))
    if variant in ("Int16", "Int32", "Int64"):
        return "IndexData::%s(vec![%s])" % (variant, ", ".join("%du%s" % (x, variant[3:]) for x in pl))

    def lit(h):
        return "String::from_utf8(vec![%s]).unwrap()" % ", ".join("%du8" % b for b in bytes.fromhex(h))
    if variant == "StringTag":
        return "IndexData::StringTag(%s)" % lit(pl)
    return "IndexData::%s(vec![%s])" % (variant, ", ".join(lit(h) for h in pl))


def replay_c09(ctx, fl):
    """Header::from_entries is crate-private: the witness becomes a unit test that the driver runs inside the crate
    (through the cfg(kani) mount of harness/header.rs, `cargo kani playback`)"""
    if "payloads" not in fl:
        return False, "no witness recorded"
    recs = ", ".join("(%du32, %s)" % (t, rust_index_data(v, p)) for t, v, p in zip(fl["tags"], fl["types"], fl["payloads"]))
    name = "kani_concrete_playback_%s_mir" % fl["hname"]
    src = ("#[test]\nfn %s() {\n    // witness of the MIR engine for %s\n    let recs: Vec<(u32, IndexData)> = vec![%s];\n"
           "    if let Err(why) = verif_replay_from_entries::<%s>(recs, %s::%s) {\n        panic!(\"{}\", why);\n    }\n}\n"
           % (name, fl["hname"], recs, fl["which"], fl["which"], fl["region"]))
    return False, "Header::from_entries is crate-private: replayed by the driver as an in-crate unit test", {"mount": "header", "group": "plain", "name": fl["hname"], "test": src}


REPLAYERS["c09"] = replay_c09
_V = ["Char", "Int8", "Int16", "Int32", "Int64", "StringTag", "Bin", "StringArray", "I18NString"]
for _a in _V:
    HARNESSES["c09_one_%s" % _a] = (lambda a: (lambda ctx: c09_from_entries(ctx, [a], [1])))(_a)
    for _b in _V:
        HARNESSES["c09_pair_%s_%s" % (_a, _b)] = (lambda a, b: (lambda ctx: c09_from_entries(ctx, [a, b], [1, 2 if b not in ("StringTag",) else 1])))(_a, _b)
HARNESSES["c09_triple_str_i16_i64"] = lambda ctx: c09_from_entries(ctx, ["StringTag", "Int16", "Int64"], [1, 1, 1])
HARNESSES["c09_triple_i8_i32_strs"] = lambda ctx: c09_from_entries(ctx, ["Int8", "Int32", "StringArray"], [3, 1, 2])
HARNESSES["c09_sig_pair"] = lambda ctx: c09_from_entries(ctx, ["StringTag", "Bin"], [2, 3], which="IndexSignatureTag", region="HEADER_SIGNATURES")
HARNESSES["c09_empty"] = lambda ctx: c09_from_entries(ctx, [], [])


def c09_lead(ctx, n):
    new = ctx.impl_fn("new", None, "Lead")
    wr = ctx.impl_fn("write", None, "Lead")
    ex = Exec(ctx.funcs, intrinsics.I)
    ctx.stats = ex.stats
    ctx.bounds = "Lead::new on a package name of %d symbolic ASCII bytes, then Lead::write" % n

    def body(e, nm):
        l = e.call_fn(new, [Str(nm)])
        out = VecV([])
        e.call_fn(wr, [Ref(Cell(l)), Ref(Cell(out))])
        return as_bytes(e, out)

    def on_path(e, nm, out):
        k, ob = out
        if k != "return":
            ctx.fail("lead construction fails: %s" % (ob,), "Lead::new", kind="c09lead", name=model_bytes(e, nm).hex())
            return
        ctx.cover("lead built", True)
        m = min(n, 65)
        conds = [len(ob) == 96] if False else []
        want = [0xed, 0xab, 0xee, 0xdb, 3, 0, 0, 0]
        good = len(ob) == 96 and not e._check(z3.Not(z3.And([ob[i] == want[i] for i in range(8)] + [ob[10 + i] == nm[i] for i in range(m)]
                                                           + [ob[10 + i] == 0 for i in range(m, 66)] + [ob[78] == 0, ob[79] == 5])))
        if not good:
            ctx.fail("lead is not a valid rpm lead (magic, major 3, type 0, NUL-terminated name within 66 bytes, signature type 5)", "Lead::new", kind="c09lead", name=model_bytes(e, nm).hex())
    ex.run_all(lambda e: sym_bytes(e, "n", n, 1, 0x7f), body, on_path)


for _n in (0, 1, 3, 65, 66, 70):
    HARNESSES["c09_lead_%d" % _n] = (lambda n: (lambda ctx: c09_lead(ctx, n)))(_n)


# ---------------------------------------------------------------------------------------------------------
# C04: cpio entry header reader (payload::Reader::new) on hostile archive bytes
# ---------------------------------------------------------------------------------------------------------
def file_entry(size):
    from symex import Opaque
    # FileEntry { path, mode, ownership, modified_at, size, flags, digest, caps, linkto, ima_signature }
    return Adt("FileEntry", "FileEntry", [Opaque("PathBuf"), Opaque("FileMode"), Opaque("FileOwnership"), Opaque("Timestamp"), Int(size, "usize"),
                                          Opaque("FileFlags"), Adt("Option", "None"), Adt("Option", "None"), string(b""), Adt("Option", "None")])


def c04_cpio(ctx, magic, tail, nfiles):
    """archive bytes = 6 magic bytes (literal or symbolic) + 104 symbolic bytes (13 hex fields) + `tail` symbolic bytes (name, padding)"""
    rn = ctx.impl_fn("new", None, "Reader")
    ex = Exec(ctx.funcs, intrinsics.I, max_steps=400000)
    ctx.stats = ex.stats
    total = 6 + 104 + tail
    ALLOC_BUDGET[0] = 16 * total + 4096
    intrinsics2.ITEM_BUDGET[0] = total + 4200
    ctx.bounds = ("payload::Reader::new on %s magic + 13 symbolic 8-byte header fields + %d symbolic bytes (name/padding), %d file entries in the header; allocation budget %d bytes per request"
                  % ("symbolic" if magic is None else repr(magic.decode()), tail, nfiles, ALLOC_BUDGET[0]))

    def setup(e):
        m = sym_bytes(e, "m", 6, 0, 255) if magic is None else [z3.BitVecVal(x, 8) for x in magic]
        return m + sym_bytes(e, "f", 104 if magic != b"07070X" else 8, 0, 0x7f) + sym_bytes(e, "t", tail, 0, 0x7f)

    def body(e, bs):
        rd = Reader(bs)
        fes = VecV([file_entry(3) for _ in range(nfiles)])
        return e.call_fn(rn, [Ref(Cell(rd)), Ref(Cell(fes))])

    def on_path(e, bs, out):
        k, v = out
        if k == "skip":
            return
        if k == "alloc":
            ctx.fail("cpio entry header: allocation out of proportion to the input", "payload::Reader::new", kind="cpio_alloc", input=model_bytes(e, bs).hex(), detail=str(v), nfiles=nfiles)
            return
        if k != "return":
            ctx.fail("cpio entry header parsing panics: %s" % (v,), "payload::Reader::new", kind="cpio_panic", input=model_bytes(e, bs).hex(), nfiles=nfiles)
            return
        ctx.cover("entry accepted", v.variant == "Ok")
        ctx.cover("entry rejected", v.variant != "Ok")
    ex.run_all(setup, body, on_path)


for _m, _nm in ((b"070701", "newc"), (b"070702", "crc"), (b"07070X", "stripped"), (None, "anymagic")):
    for _t, _n in ((0, 0), (2, 0), (4, 1), (12, 1)):
        HARNESSES["c04_cpio_%s_%d_%d" % (_nm, _t, _n)] = (lambda m, t, n: (lambda ctx: c04_cpio(ctx, m, t, n)))(_m, _t, _n)


def struct_fields(name, known):
    """field values of a crate struct in declaration order (read from the repository's source); fields the harness does not know get the default of
    their type (empty Vec / String, 0, None) so that an added field does not break the harness"""
    import glob
    import re as _re
    from symex import REPO_ROOT, Opaque
    for p_ in glob.glob(os.path.join(REPO_ROOT[0], "src", "**", "*.rs"), recursive=True):
        txt = open(p_, errors="replace").read()
        m = _re.search(r"pub struct %s(?:<[^>{]*>)? \{(.*?)\n\}" % name, txt, _re.S)
        if not m:
            continue
        out = []
        for fm in _re.finditer(r"^\s*(?:pub(?:\([a-z]+\))? )?(\w+):\s*([^\n]*?),?\s*$", m.group(1), _re.M):
            fname, fty = fm.group(1), fm.group(2)
            if fname in known:
                out.append(known[fname])
            elif fty.startswith("Vec<"):
                out.append(VecV([]))
            elif fty == "String":
                out.append(string(b""))
            elif fty.startswith("Option<"):
                out.append(Adt("Option", "None"))
            elif fty in ("usize", "u64", "u32", "u16", "u8", "i32", "i64"):
                out.append(Int(0, fty))
            elif fty == "bool":
                out.append(Bool_(False))
            else:
                out.append(Opaque("field:" + fname))
        return out
    raise Unsupported("struct %s not found in the source" % name)


def c04_fileiter(ctx, nbytes, stripped=False):
    """FileIterator::next on a payload that starts with a well-formed newc entry (name "a", `nbytes` content bytes) while the header's
    file entry carries a symbolic (untrusted) size: no panic, no allocation out of proportion to the input"""
    nx = ctx.find_fn(r"package::<impl at [^>]*>::next")
    ex = Exec(ctx.funcs, intrinsics.I, max_steps=400000)
    ctx.stats = ex.stats
    import rpmbytes as RB
    if stripped:
        # the large-file ("stripped") format: magic 07070X, an 8-digit index into the header's file list, then the data; sizes come from the header
        arch = b"07070X" + b"00000000" + b"x" * nbytes + b"\0" * ((4 - (14 + nbytes) % 4) % 4) + RB.cpio_newc([])
    else:
        arch = RB.cpio_newc([(b"a", 0o100644, b"x" * nbytes)])
    ALLOC_BUDGET[0] = 16 * len(arch) + 4096
    intrinsics2.ITEM_BUDGET[0] = len(arch) + 4200
    ctx.bounds = ("FileIterator::next over a %d-byte newc archive (one entry of %d content bytes, content symbolic, then the trailer) whose header file entry has a symbolic 64-bit size; "
                  "allocation budget %d bytes per request" % (len(arch), nbytes, ALLOC_BUDGET[0]))

    def setup(e):
        return dict(size=z3.BitVec("size", 64), content=sym_bytes(e, "c", nbytes, 0, 255))

    def body(e, inp):
        bs = [z3.BitVecVal(b, 8) for b in arch]
        i = arch.index(b"x" * nbytes) if nbytes else 0
        for k in range(nbytes):
            bs[i + k] = inp["content"][k]
        from intrinsics3 import PathV
        fe = Adt("FileEntry", "FileEntry", [PathV([z3.BitVecVal(c, 8) for c in b"/a"]), Adt("FileMode", "Regular", [Int(0o644, "u16")]),
                                            Adt("FileOwnership", "FileOwnership", [string(b"root"), string(b"root")]), Adt("Timestamp", "Timestamp", [Int(0, "u32")]),
                                            Int(inp["size"], "usize"), Adt("FileFlags", "bits", [Int(0, "u32")]), Adt("Option", "None"), Adt("Option", "None"), string(b""),
                                            Adt("Option", "None")])
        it = Adt("FileIterator", "FileIterator", struct_fields("FileIterator", {"file_entries": VecV([fe]), "archive": Reader(bs), "count": Int(0, "usize")}))
        cell = Cell(it)
        first = e.call_fn(nx, [Ref(cell)])
        return first

    def on_path(e, inp, out):
        k, v = out
        size = None
        if e.solver.check() == z3.sat:
            size = e.solver.model().eval(inp["size"], model_completion=True).as_long()
        if k == "skip":
            return
        if k == "alloc":
            ctx.fail("payload iteration: allocation out of proportion to the input", "FileIterator::next", kind="fileiter", size=size, nbytes=nbytes, detail=str(v))
            return
        if k != "return":
            ctx.fail("payload iteration panics: %s" % (v,), "FileIterator::next", kind="fileiter", size=size, nbytes=nbytes, stripped=stripped)
            return
        ctx.cover("an entry is returned", v.variant == "Some")
        if v.variant == "Some" and v.fields[0].variant == "Ok" and not stripped:
            got = as_bytes(e, v.fields[0].fields[0].fields[1])
            if len(got) != nbytes or (nbytes and e._check(z3.Not(all_eq(got, inp["content"])))):
                ctx.fail("payload iteration returns other bytes than the archive stores for the entry", "FileIterator::next", kind="fileiter", size=size, nbytes=nbytes)
    ex.run_all(setup, body, on_path)


def replay_fileiter(ctx, fl):
    import struct
    import rpmbytes as RB
    size = fl.get("size") or 0
    nb = fl.get("nbytes", 0)
    # a package whose header says `size` for a file whose archive entry has nb bytes
    big = size > 0xffffffff
    arch = None
    if fl.get("stripped"):
        arch = b"07070X" + b"00000000" + b"x" * nb + b"\0" * ((4 - (14 + nb) % 4) % 4) + RB.cpio_newc([])
    pk = RB.files_package([b"/"], [(0, b"a", 0o100644, b"", b"x" * nb)], declared_sizes=[size], archive=arch)
    ans = ctx.native.ask("peak", "files", pk.hex())
    parts = ans.split()
    if parts and parts[0] == "panic":
        return True, "real crate: Package::files() iteration -> panic (header file size %d, archive entry of %d bytes)" % (size, nb)
    peak = int(parts[-1].split("=")[1]) if parts and "=" in parts[-1] else 0
    return peak > 16 * len(pk) + 4096, "real crate: iterating a %d-byte package with header file size %d -> %s" % (len(pk), size, ans[:120])


for _n in (0, 1, 3, 4):
    HARNESSES["c04_fileiter_%d" % _n] = (lambda n: (lambda ctx: c04_fileiter(ctx, n)))(_n)
for _n in (0, 5):
    HARNESSES["c04_fileiter_stripped_%d" % _n] = (lambda n: (lambda ctx: c04_fileiter(ctx, n, stripped=True)))(_n)
REPLAYERS["c04"] = (lambda prev: (lambda ctx, fl: replay_fileiter(ctx, fl) if fl.get("kind") == "fileiter" else prev(ctx, fl)))(REPLAYERS["c04"])


# ---------------------------------------------------------------------------------------------------------
# C14 write side on the MIR engine: Package::write / PackageMetadata::write into scripted sinks
# ---------------------------------------------------------------------------------------------------------
def c14_write(ctx, k, what="package", mode="fail", sigsz=5):
    wr = ctx.impl_fn("write", None, "Package" if what == "package" else "PackageMetadata")
    ex = Exec(ctx.funcs, intrinsics.I, max_steps=400000)
    ctx.stats = ex.stats
    ctx.bounds = ("%s::write of a package with a 2-entry signature header (%d store bytes + %d padding), a 1-entry main header (4 store bytes) and 3 payload bytes, all contents symbolic, "
                  "into a sink accepting %s per call, %s at a symbolic call number" % (what.capitalize(), sigsz, (-sigsz) % 8, "everything" if k == 0 else "%d byte(s)" % k, {"fail": "failing for good", "intr": "answering Interrupted once", "offsets": "never failing (fail_at = 0 means no failure);", "zero": "being full (write() returns Ok(0)) from"}[mode]))

    def setup(e):
        return dict(sig=sym_bytes(e, "s", sigsz, 0, 255), hdr=sym_bytes(e, "h", 4, 0, 255), content=sym_bytes(e, "c", 3, 0, 255),
                    tags=[z3.BitVec("t%d" % i, 32) for i in range(3)], fail_at=z3.BitVec("fail_at", 16), intr_at=z3.BitVec("intr_at", 16))

    def body(e, inp):
        cut = min(3, sigsz)
        sig = header([index_entry(Int(inp["tags"][0], "u32"), index_data("Bin", byte_vec(inp["sig"][:cut])), 0), index_entry(Int(inp["tags"][1], "u32"), index_data("Bin", byte_vec(inp["sig"][cut:])), cut)], inp["sig"])
        hdr = header([index_entry(Int(inp["tags"][2], "u32"), index_data("Bin", byte_vec(inp["hdr"])), 0)], inp["hdr"])
        pkg = package(sig, hdr, inp["content"])
        target = pkg if what == "package" else pkg.fields[0]
        canon = VecV([])
        rc = e.call_fn(wr, [Ref(Cell(target)), Ref(Cell(canon))])
        assert rc.variant == "Ok"
        zero = z3.BitVecVal(0, 16)
        sink = ScriptSink(k, inp["fail_at"] if mode == "fail" else zero, inp["intr_at"] if mode == "intr" else zero, zero_at=(inp["fail_at"] if mode == "zero" else None))
        r = e.call_fn(wr, [Ref(Cell(target)), Ref(Cell(sink))])
        if mode == "offsets":
            offs = e.call_fn(ctx.impl_fn("get_package_segment_offsets", None, "PackageMetadata"), [Ref(Cell(pkg.fields[0]))])
            sink.offsets = [x.conc() for x in offs.fields]
            sink.ncontent = len(inp["content"])
        return r, sink, as_bytes(e, canon)

    def on_path(e, inp, out):
        kk, v = out

        def wit():
            m = e.witness_model()
            return dict(fail_at=m.eval(inp["fail_at"], model_completion=True).as_long(), intr_at=m.eval(inp["intr_at"], model_completion=True).as_long(), k=k, what=what, sigsz=sigsz, mode=mode)
        if kk != "return":
            ctx.fail("writing panics: %s" % (v,), what + "::write", kind="wpanic", **wit())
            return
        r, sink, canon = v
        okr = r.variant == "Ok"
        ctx.cover("write succeeds", okr)
        ctx.cover("write fails", not okr)
        got = sink.data
        if okr and mode == "offsets":
            lead_o, sig_o, hdr_o, pay_o = sink.offsets
            magic = [0x8e, 0xad, 0xe8, 0x01]
            at = lambda o: len(got) >= o + 4 and not e._check(z3.Not(z3.And([g == m for g, m in zip(got[o:o + 4], magic)])))  # noqa: E731
            if not (lead_o == 0 and at(sig_o) and at(hdr_o) and len(got) == pay_o + sink.ncontent):
                ctx.fail("reported segment offsets are not where the segments are in the bytes the sink received", "PackageMetadata::get_package_segment_offsets / Package::write", kind="wsink", **wit())
            return
        if okr:
            if sink.failed or sink.full or len(got) != len(canon) or e._check(z3.Not(all_eq(got, canon))):
                ctx.fail("write returns success although the sink %s" % ("reported a failure" if sink.failed else "did not receive exactly the canonical bytes"), what + "::write", kind="wsink", **wit())
        else:
            if len(got) > len(canon) or (got and e._check(z3.Not(all_eq(got, canon[:len(got)])))):
                ctx.fail("write returns an error after emitting something that is not a prefix of the canonical bytes", what + "::write", kind="wsink", **wit())

    ex.run_all(setup, body, on_path)


def replay_wsink(ctx, fl):
    if fl.get("sigsz", 5) != 5:
        # the shape of the harness's package matters (signature store size mod 8): hand-encode it
        import rpmbytes as RB
        n = fl["sigsz"]
        cut = min(3, n)
        sig_e = [(1000, "Bin", 0, cut), (1001, "Bin", cut, n - cut)]          # the harness's two entries, a zero-count one included (n <= 3)
        pk = RB.package(sig_e, b"\x07" * n, [(1000, "Bin", 0, 4)], b"\x01\x02\x03\x04", b"abc")
        ans = ctx.native.ask("wsink", str(fl["k"]), str(fl["fail_at"]), str(fl["intr_at"]), fl["what"], pk.hex())
        return ans.startswith("bad"), "real crate, same sink script on a hand-encoded package with a %d-byte signature store (canonical bytes = the input): %s" % (n, ans)
    if fl.get("mode") == "zero":
        ans = ctx.native.ask("wsink_zero", str(fl["k"]))
        return ans.startswith("bad"), "real crate, a built package written into sinks that are full (write() = Ok(0)) after every possible number of bytes: " + ans
    ans = ctx.native.ask("wsink", str(fl["k"]), str(fl["fail_at"]), str(fl["intr_at"]), fl["what"])
    return ans.startswith("bad"), "real crate, same sink script on a built package: " + ans


for _k in (0, 1, 2, 5):
    HARNESSES["c14_wpkg_k%d" % _k] = (lambda k: (lambda ctx: c14_write(ctx, k, "package", "fail")))(_k)
    HARNESSES["c14_wpkg_intr_k%d" % _k] = (lambda k: (lambda ctx: c14_write(ctx, k, "package", "intr")))(_k)
    HARNESSES["c14_wmeta_k%d" % _k] = (lambda k: (lambda ctx: c14_write(ctx, k, "metadata", "fail")))(_k)
for _k in (0, 1, 5):
    HARNESSES["c14_wzero_k%d" % _k] = (lambda k: (lambda ctx: c14_write(ctx, k, "package", "zero")))(_k)
for _k in (1, 2, 3, 5):
    HARNESSES["c16_woff_k%d" % _k] = (lambda k: (lambda ctx: c14_write(ctx, k, "package", "offsets")))(_k)
for _r in range(0, 17):
    # every signature store size mod 8 (and a second period), whole-buffer sink and a 1-byte sink
    HARNESSES["c16_resid_%d" % _r] = (lambda r: (lambda ctx: c14_write(ctx, 0, "package", "offsets", sigsz=r)))(_r)
    HARNESSES["c14_resid_%d" % _r] = (lambda r: (lambda ctx: c14_write(ctx, 1, "package", "fail", sigsz=r)))(_r)
_ra2 = REPLAYERS["c14"]
REPLAYERS["c14"] = lambda ctx, fl: replay_wsink(ctx, fl) if fl.get("kind") in ("wsink", "wpanic") else _ra2(ctx, fl)


# ---------------------------------------------------------------------------------------------------------
# C05 / C04: file paths assembled from BASENAMES / DIRINDEXES / DIRNAMES
# ---------------------------------------------------------------------------------------------------------
def c05_file_paths(ctx, nfiles, ndirs, missing=None, kinds=("c05", "panic")):
    gp = ctx.impl_fn("get_file_paths", None, "PackageMetadata")
    _fail0 = ctx.fail

    def _fail(description, function, **kw):
        if kw.get("kind") in kinds:
            _fail0(description, function, **kw)
    ctx.fail = _fail
    ex = Exec(ctx.funcs, intrinsics.I, max_steps=400000)
    ctx.stats = ex.stats
    ctx.bounds = ("get_file_paths on a header with %d base names (1 symbolic ASCII byte each), %d directory indexes (any u32) and %d directory names ('/' + 1 symbolic byte + '/')%s"
                  % (nfiles, nfiles, ndirs, "; tag %s absent" % missing if missing else ""))

    def setup(e):
        return dict(base=[sym_bytes(e, "b%d_" % i, 1, 0x21, 0x7e, exclude=(ord("/"),)) for i in range(nfiles)], idx=[z3.BitVec("di%d" % i, 32) for i in range(nfiles)],
                    dirs=[sym_bytes(e, "d%d_" % i, 1, 0x21, 0x7e, exclude=(ord("/"),)) for i in range(ndirs)])

    def body(e, inp):
        ents = []
        if missing != "BASENAMES":
            ents.append(index_entry(tag("RPMTAG_BASENAMES"), index_data("StringArray", VecV([string(b) for b in inp["base"]]))))
        if missing != "DIRINDEXES":
            ents.append(index_entry(tag("RPMTAG_DIRINDEXES"), index_data("Int32", VecV([Int(x, "u32") for x in inp["idx"]]))))
        if missing != "DIRNAMES":
            ents.append(index_entry(tag("RPMTAG_DIRNAMES"), index_data("StringArray", VecV([string([ord("/")] + d + [ord("/")]) for d in inp["dirs"]]))))
        hdr = header(ents, [])
        from rpmvals import metadata
        m = metadata(header([], []), hdr)
        return e.call_fn(gp, [Ref(Cell(m))])

    def on_path(e, inp, out):
        k, v = out

        def wit(under=None):
            # `under`: the condition that makes this input a counterexample (the witness must satisfy it, not just the path condition)
            if under is not None:
                e.solver.push()
                e.solver.add(under)
            m = e.witness_model()
            w_ = dict(idx=[m.eval(x, model_completion=True).as_long() for x in inp["idx"]], nfiles=nfiles, ndirs=ndirs, missing=missing or "")
            if under is not None:
                e.solver.pop()
            return w_
        if k != "return":
            ctx.fail("file path assembly panics: %s" % (v,), "PackageMetadata::get_file_paths", kind="panic", **wit())
            return
        ctx.cover("paths returned", v.variant == "Ok")
        ctx.cover("error returned", v.variant != "Ok")
        if missing:
            if v.variant == "Ok":
                ctx.fail("file paths returned although a member of the tag triple is missing", "PackageMetadata::get_file_paths", kind="c05", **wit())
            return
        # specification: every index < ndirs  <=>  Ok, and path i = dirs[idx[i]] + base[i]
        inrange = z3.And([z3.ULT(x, ndirs) for x in inp["idx"]]) if nfiles else z3.BoolVal(True)
        if v.variant == "Ok":
            if e._check(z3.Not(inrange)):
                ctx.fail("file paths returned although a directory index is out of range", "PackageMetadata::get_file_paths", kind="c05", **wit(z3.Not(inrange)))
                return
            got = v.fields[0].items
            if len(got) != nfiles:
                ctx.fail("number of file paths differs from the number of base names", "PackageMetadata::get_file_paths", kind="c05", **wit())
                return
            for i, p in enumerate(got):
                for d in range(ndirs):
                    if e.decide(inp["idx"][i] == d):
                        want = [ord("/")] + inp["dirs"][d] + [ord("/")] + inp["base"][i]
                        want = [z3.BitVecVal(x, 8) if isinstance(x, int) else x for x in want]
                        if len(p.bs) != len(want) or e._check(z3.Not(all_eq(p.bs, want))):
                            ctx.fail("file path is not directory[dirindex] + basename", "PackageMetadata::get_file_paths", kind="c05", **wit())
                        break
        else:
            if e._check(inrange) and not e._check(z3.Not(inrange)):
                ctx.fail("error although every directory index is in range", "PackageMetadata::get_file_paths", kind="c05", **wit(inrange))
            er = v.fields[0]
            if not (isinstance(er, Adt) and er.variant == "InvalidTagIndex"):
                ctx.fail("out-of-range directory index reported as %s" % getattr(er, "variant", er), "PackageMetadata::get_file_paths", kind="c05", **wit())

    ex.run_all(setup, body, on_path)


def entry_orders(ent):
    """index-entry orders a native replay tries: ascending by tag (what rpm writes), descending, rotated - the parser accepts any order and the
    MIR harnesses do not sort their entries, so an order-dependent lookup shows up in one of them"""
    a = sorted(ent)
    out = [a, list(reversed(a)), a[1:] + a[:1]]
    uniq = []
    for o in out:
        if o not in uniq:
            uniq.append(o)
    return uniq


def replay_paths(ctx, fl):
    import rpmbytes as RB
    n, nd = fl["nfiles"], fl["ndirs"]
    ent, st = RB.file_header(n, dirindexes=fl["idx"], ndirs=nd)
    inr = all(i < nd for i in fl["idx"])
    ans = ""
    for order in entry_orders(ent):
        meta = RB.lead() + RB.sig_header([], b"") + RB.header(order, st)
        ans = ctx.native.ask("paths", meta.hex())
        if fl["kind"] == "panic":
            if ans == "panic":
                return True, "real crate: get_file_paths -> " + ans[:60]
        elif (ans.startswith("ok") != inr) or ans == "panic":
            return True, "real crate: get_file_paths with indexes %s over %d dirs (index entries in the order %s) -> %s" % (fl["idx"], nd, [e[0] for e in order], ans[:60])
    return False, "real crate: get_file_paths with indexes %s over %d dirs -> %s" % (fl["idx"], nd, ans[:60])


for _n, _d in ((1, 1), (2, 1), (2, 2), (1, 0), (0, 0), (3, 2)):
    HARNESSES["c05_paths_%d_%d" % (_n, _d)] = (lambda n, d: (lambda ctx: c05_file_paths(ctx, n, d, kinds=("c05",))))(_n, _d)
    HARNESSES["c04_paths_%d_%d" % (_n, _d)] = (lambda n, d: (lambda ctx: c05_file_paths(ctx, n, d, kinds=("panic",))))(_n, _d)
for _m in ("BASENAMES", "DIRINDEXES", "DIRNAMES"):
    HARNESSES["c05_paths_missing_%s" % _m] = (lambda m: (lambda ctx: c05_file_paths(ctx, 1, 1, missing=m, kinds=("c05",))))(_m)
_ra3 = REPLAYERS["c05"]
for _p in ("c05", "c04"):
    REPLAYERS[_p] = (lambda prev: (lambda ctx, fl: replay_paths(ctx, fl) if "ndirs" in fl else prev(ctx, fl)))(REPLAYERS[_p])


# ---------------------------------------------------------------------------------------------------------
# C16: offsets after Header::clear() on the signature header (the one in-place mutator of a header)
# ---------------------------------------------------------------------------------------------------------
def c16_clear(ctx, nsig, ssize):
    clear = ctx.impl_fn("clear", None, "Header")
    offs = ctx.impl_fn("get_package_segment_offsets", None, "PackageMetadata")
    write = ctx.impl_fn("write", None, "PackageMetadata")
    ex = Exec(ctx.funcs, intrinsics.I)
    ctx.stats = ex.stats
    ctx.bounds = "metadata whose signature header has %d entries and %d store bytes (symbolic), Header::clear() on it, then offsets vs written bytes" % (nsig, ssize)

    def setup(e):
        return sym_bytes(e, "s", ssize, 0, 255)

    def body(e, sb):
        from rpmvals import metadata
        sig = header([index_entry(sigtag("RPMSIGTAG_SHA256"), index_data("Bin", byte_vec(sb)), 0) for _ in range(nsig)], sb)
        hdr = header([index_entry(tag("RPMTAG_NAME"), index_data("StringTag", string(b"x")), 0)], [ord("x"), 0])
        m = metadata(sig, hdr)
        cell = Cell(m)
        e.call_fn(clear, [Ref(cell, (("field", 1),))])
        m2 = cell.v
        out = VecV([])
        w = e.call_fn(write, [Ref(Cell(m2)), Ref(Cell(out))])
        return e.call_fn(offs, [Ref(Cell(m2))]), as_bytes(e, out), w

    def on_path(e, sb, out):
        k, v = out
        if k != "return":
            ctx.fail("clear/offsets panics: %s" % (v,), "Header::clear", kind="clear", nsig=nsig, ssize=ssize)
            return
        o, ob, w = v
        ctx.cover("cleared", True)
        got = [f.conc() for f in o.fields]
        # after clear(): empty signature header (16 bytes, no padding), main header right behind it
        want = [0, 96, 112, len(ob)]
        magic_ok = len(ob) >= 116 and not e._check(z3.Not(z3.And([ob[112 + i] == v_ for i, v_ in enumerate((0x8e, 0xad, 0xe8, 0x01))])))
        if got != want or not magic_ok:
            ctx.fail("after Header::clear() the reported offsets %s are not the real boundaries %s of the written bytes" % (got, want), "Header::clear / get_package_segment_offsets", kind="clear", nsig=nsig, ssize=ssize)
    ex.run_all(setup, body, on_path)


def replay_clear(ctx, fl):
    import rpmbytes as RB
    n, s = fl["nsig"], fl["ssize"]
    st = bytes(range(1, s + 1))
    ent = [(sigtag("RPMSIGTAG_SHA256") + i, "Bin", 0, s) for i in range(n)]
    meta = RB.lead() + RB.sig_header(ent, st) + RB.header([(tag("RPMTAG_NAME"), "StringTag", 0, 1)], b"x\0")
    ans = ctx.native.ask("clear_offsets", meta.hex())
    return ans.startswith("mismatch"), "real crate: parse, signature.clear(), offsets vs written bytes -> " + ans


for _n, _s in ((1, 4), (2, 9), (0, 0), (1, 16)):
    HARNESSES["c16_clear_%d_%d" % (_n, _s)] = (lambda n, s: (lambda ctx: c16_clear(ctx, n, s)))(_n, _s)
REPLAYERS["c16"] = (lambda prev: (lambda ctx, fl: replay_clear(ctx, fl) if fl.get("kind") == "clear" else (replay_wsink(ctx, fl) if fl.get("kind") in ("wsink", "wpanic") else prev(ctx, fl))))(REPLAYERS["c16"])


# ---------------------------------------------------------------------------------------------------------
# C17: the builder's file destination handling (PackageBuilder::add_data) never panics
# ---------------------------------------------------------------------------------------------------------
def _pfe_dir_index():
    """position of the `dir` field in PackageFileEntry, read from the repository's source"""
    import re as _re
    from symex import REPO_ROOT
    txt = open(os.path.join(REPO_ROOT[0], "src", "rpm", "headers", "types.rs")).read()
    m = _re.search(r"pub struct PackageFileEntry \{(.*?)\n\}", txt, _re.S)
    names = _re.findall(r"^\s*pub(?:\(crate\))? (\w+):", m.group(1), _re.M)
    return names.index("dir")


def c17_dest(ctx, n, alphabet=b"/.a"):
    global PFE_DIR
    PFE_DIR = _pfe_dir_index()
    ad = ctx.impl_fn("add_data", None, "PackageBuilder")
    ex = Exec(ctx.funcs, intrinsics.I, max_steps=400000)
    ctx.stats = ex.stats
    ctx.bounds = "PackageBuilder::add_data (what with_file calls) on every destination string of exactly %d characters over {%s}, file content 2 symbolic bytes" % (n, ",".join(repr(chr(c)) for c in alphabet))
    from symex import Opaque
    from intrinsics3 import MapV

    def setup(e):
        d = [z3.BitVec("d%d" % i, 8) for i in range(n)]
        for x in d:
            e.solver.add(z3.Or([x == c for c in alphabet]))
        return d, sym_bytes(e, "c", 2, 0, 255)

    def run_concrete(dest):
        res = []
        exc = Exec(ctx.funcs, intrinsics.I)
        exc.run_all(lambda e: ([z3.BitVecVal(c, 8) for c in dest], [z3.BitVecVal(1, 8), z3.BitVecVal(2, 8)]), body, lambda e, i, o: res.append(o))
        k, v = res[0]
        return "panic" if k != "return" else ("ok" if v[0].variant == "Ok" else "err")

    def body(e, inp):
        d, content = inp
        fields = [Opaque("builder-field-%d" % i) for i in range(52)]
        fields[10] = MapV()       # files: BTreeMap<String, PackageFileEntry>
        fields[11] = MapV()       # directories: BTreeSet<String>
        b = Adt("PackageBuilder", "PackageBuilder", fields)
        opts = Adt("FileOptions", "FileOptions", [string(d), string(b"root"), string(b"root"), string(b""), Adt("FileMode", "Regular", [Int(0o664, "u16")]),
                                                  Opaque("FileFlags"), Bool_(False), Adt("Option", "None"), Opaque("FileVerifyFlags")])
        r = e.call_fn(ad, [Ref(Cell(b)), byte_vec(content), Adt("Timestamp", "Timestamp", [Int(0, "u32")]), opts])
        return r, fields[10], fields[11]

    def on_path(e, inp, out):
        k, v = out
        dest = model_bytes(e, inp[0])
        ctx.cover("destination accepted", k == "return" and v[0].variant == "Ok")
        ctx.cover("destination rejected", k == "return" and v[0].variant == "Err")
        if k != "return":
            ctx.fail("adding a file with this destination panics: %s" % (v,), "PackageBuilder::add_data", kind="c17", dest=dest.hex())
            return
        # the invariant build() relies on (prepare_data looks every file's directory up in `directories` and unwraps):
        # each stored file entry's `dir` is a member of the builder's directory set
        r, files, dirs = v
        for fe in files.vals:
            d = fe.fields[PFE_DIR] if isinstance(fe, Adt) else None
            if d is None:
                continue
            member = z3.Or([intrinsics2._eq_any(e, d, kd) for kd in dirs.keys] + [z3.BoolVal(False)])
            if e._check(z3.Not(member)):
                e.solver.push()
                e.solver.add(z3.Not(member))
                dest2 = model_bytes(e, inp[0])
                e.solver.pop()
                ctx.fail("a stored file's directory is missing from the builder's directory table (build() unwraps that lookup)", "PackageBuilder::add_data", kind="c17build", dest=dest2.hex())
                return

    # translator validation of the std::path model: concrete destinations through the interpreter and through the real builder
    vectors = [b"/a", b"./a", b"/a/b", b"/", b"//", b"/.", b"/./a", b"./a/b", b"a", b"", b"/a/", b"/a//b", b"./", b"/a/./b", b"/a/.b", b"/..a", b"./.a", b"/.../a"]
    for _ in range(60):
        vectors.append(bytes(ctx.rng.choice(alphabet) for _ in range(ctx.rng.randint(0, 6))))
    for d in vectors:
        mine = run_concrete(d)
        real = ctx.native.ask("with_file", Native.hex(d))
        if mine != real:
            raise Unsupported("translator validation failed: add_data(%r): interpreter %s, real crate %s" % (d, mine, real))
        ctx.validated += 1
    ex.run_all(setup, body, on_path)


def c17_caps(ctx, segs):
    """FileOptionsBuilder::caps: invalid capability text is an InvalidCapabilities error, valid text is stored; never a panic"""
    new = ctx.impl_fn("new", None, "FileOptions")
    caps = ctx.impl_fn("caps", None, "FileOptionsBuilder")
    val = ctx.find_fn(r"(filecaps::)?validate_caps_text")
    ex = Exec(ctx.funcs, intrinsics.I)
    ctx.stats = ex.stats
    ctx.bounds = "FileOptions::new(\"/x\").caps(text) for text of shape %s" % " ".join(repr(x.decode()) if isinstance(x, bytes) else str(x) for x in segs)

    def setup(e):
        out = []
        for k, sg in enumerate(segs):
            out += [z3.BitVecVal(c, 8) for c in sg] if isinstance(sg, bytes) else sym_bytes(e, "s%d_" % k, sg)
        return out

    def body(e, bs):
        from symex import Opaque
        inner = Adt("FileOptions", "FileOptions", [string(b"/x"), string(b"root"), string(b"root"), string(b""), Adt("FileMode", "Regular", [Int(0o664, "u16")]),
                                                   Opaque("FileFlags"), Bool_(True), Adt("Option", "None"), Opaque("FileVerifyFlags")])
        fo = Adt("FileOptionsBuilder", "FileOptionsBuilder", [inner])
        r = e.call_fn(caps, [fo, string(bs)])
        v = e.call_fn(val, [Str(bs)])
        return r, v

    def on_path(e, bs, out):
        k, v = out
        if k != "return":
            ctx.fail("setting file capabilities panics: %s" % (v,), "FileOptionsBuilder::caps", kind="c17caps", text=model_bytes(e, bs).hex())
            return
        r, valid = v
        ctx.cover("capabilities accepted", r.variant == "Ok")
        ctx.cover("capabilities rejected", r.variant == "Err")
        if (r.variant == "Ok") != (valid.variant == "Ok") or (r.variant == "Err" and getattr(r.fields[0], "variant", "") != "InvalidCapabilities"):
            ctx.fail("caps() does not report invalid capability text as InvalidCapabilities", "FileOptionsBuilder::caps", kind="c17caps", text=model_bytes(e, bs).hex())
    ex.run_all(setup, body, on_path)


for _nm, _sg in (("sym2", [2]), ("sym3", [3]), ("chown_sym2", [b"cap_chown", 2]), ("two", [b"=e ", 2]),
                 # literal multi-byte characters before / after the operator (byte offsets and character counts differ)
                 ("nonascii_a", ["\u00e9=p".encode()]), ("nonascii_b", ["cap_chown,\u00fc+ep".encode()]), ("nonascii_c", ["\u20ac+i".encode()]), ("nonascii_d", ["=e cap_kill\u00df-e".encode()]),
                 ("nonascii_e", ["cap_chown=\u00e9".encode()])):
    HARNESSES["c17_caps_" + _nm] = (lambda sg: (lambda ctx: c17_caps(ctx, sg)))(_sg)


def replay_c17(ctx, fl):
    if fl.get("kind") == "c17level":
        ans = ctx.native.ask("build_level", fl["which"], str(fl["level"]))
        return ans == "panic", "real crate (dev profile): PackageBuilder::new(..).compression(CompressionWithLevel::%s(%d)).build() -> %s" % (fl["which"], fl["level"], ans)
    if fl.get("kind") == "c17caps":
        ans = ctx.native.ask("fcaps", fl["text"])
        if ans.startswith("panic"):
            return True, "real crate: FileOptions::caps / FileCaps::from_str(%r) -> panic" % (bytes.fromhex(fl["text"]),)
        a, b = ans.split()
        return a != b, "real crate: FileOptions::caps accepts=%s, FileCaps::from_str accepts=%s" % (a, b)
    if fl.get("kind") == "c17build":
        ans = ctx.native.ask("with_file_build", fl["dest"])
        return ans == "panic", "real crate: PackageBuilder::with_file(.., FileOptions::new(%r))?.build() -> %s" % (bytes.fromhex(fl["dest"]), ans)
    ans = ctx.native.ask("with_file", fl["dest"])
    return ans == "panic", "real crate: PackageBuilder::with_file(.., FileOptions::new(%r)) -> %s" % (bytes.fromhex(fl["dest"]), ans)


REPLAYERS["c17"] = replay_c17


def c17_level(ctx, which):
    """Compressor::try_from(CompressionWithLevel::<which>(level)) for every level: Ok or Err, the encoder constructor is never handed a level it panics on"""
    tf = ctx.find_fn(r"compressor::<impl at [^>]*>::try_from")
    ex = Exec(ctx.funcs, intrinsics.I)
    ctx.stats = ex.stats
    ctx.bounds = "Compressor::try_from(CompressionWithLevel::%s(level)), level any %s; encoder constructors = contract stubs read from the pinned flate2/liblzma/bzip2/zstd sources" % (which, "i32" if which == "Zstd" else "u32")

    lib = {"Gzip": "flate2", "Xz": "liblzma", "Bzip2": "bzip2"}.get(which)
    if lib:
        # validate the constructor contract stub against the real encoder crate on concrete levels
        from intrinsics3 import encoder_panics
        n = 0
        for lvl in list(range(0, 13)) + [31, 32, 33, 41, 64, 255, 256, 1 << 31, (1 << 31) | 6, (1 << 31) | 9, (1 << 31) | 10, (1 << 30) | 6, 0xffffffff]:
            want = z3.is_true(z3.simplify(encoder_panics(lib, z3.BitVecVal(lvl, 32))))
            got = ctx.native.ask("enc_new", lib, str(lvl))
            if (got == "panic") != want:
                raise Exception("encoder contract stub disagrees with the real %s constructor at level %d: stub panics=%s, real=%s" % (lib, lvl, want, got))
            n += 1
        ctx.validated = getattr(ctx, "validated", 0) + n

    def setup(e):
        return z3.BitVec("level", 32)

    def body(e, lv):
        val = Adt("CompressionWithLevel", which, [Int(lv, "i32" if which == "Zstd" else "u32")]) if which != "None" else Adt("CompressionWithLevel", "None")
        return e.call_fn(tf, [val])

    def on_path(e, lv, out):
        k, v = out
        assert e.solver.check() == z3.sat
        level = e.solver.model().eval(lv, model_completion=True).as_long()
        if k != "return":
            ctx.fail("building with this compression level panics: %s" % (v,), "Compressor::try_from", kind="c17level", which=which, level=level)
            return
        ctx.cover("level accepted", v.variant == "Ok")
        ctx.cover("level rejected", v.variant == "Err")
    ex.run_all(setup, body, on_path)


for _w in ("Gzip", "Xz", "Bzip2", "Zstd", "None"):
    HARNESSES["c17_level_" + _w.lower()] = (lambda w: (lambda ctx: c17_level(ctx, w)))(_w)
for _n in range(0, 7):
    HARNESSES["c17_dest_%d" % _n] = (lambda n: (lambda ctx: c17_dest(ctx, n)))(_n)


# ---------------------------------------------------------------------------------------------------------
# C08 / C09: Package::clear_signatures: recorded header digest is the digest of the serialised header; the new
# signature header is structurally valid
# ---------------------------------------------------------------------------------------------------------
def c08_clear(ctx, hs, stale, kinds):
    cs = ctx.impl_fn("clear_signatures", None, "Package")
    wr = ctx.impl_fn("write", None, "Header")
    _fail0 = ctx.fail

    def _fail(description, function, **kw):
        if kw.get("kind") in kinds:
            _fail0(description, function, **kw)
    ctx.fail = _fail
    ex = Exec(ctx.funcs, intrinsics.I)
    ex.type_env = {}
    ctx.stats = ex.stats
    ctx.bounds = ("Package::clear_signatures on a package whose main header has %d symbolic store bytes; previous signature header %s; SHA-256 as an uninterpreted function"
                  % (hs, "holds a (symbolic, possibly wrong) SHA256 entry and an RSA entry" if stale else "is empty"))

    def setup(e):
        return dict(store=sym_bytes(e, "h", hs, 0, 255), old=sym_bytes(e, "o", 64, 0x30, 0x66), content=sym_bytes(e, "c", 2, 0, 255))

    def body(e, inp):
        hdr = header([index_entry(tag("RPMTAG_NAME"), index_data("Bin", byte_vec(inp["store"])), 0)], inp["store"])
        old = []
        if stale:
            old = [index_entry(sigtag("RPMSIGTAG_RSA"), index_data("Bin", byte_vec([1, 2, 3])), 0),
                   index_entry(sigtag("RPMSIGTAG_SHA256"), index_data("StringTag", string(inp["old"])), 3)]
        pkg = package(header(old, [1, 2, 3] + list(inp["old"]) + [0] if stale else []), hdr, inp["content"])
        cell = Cell(pkg)
        r = e.call_fn(cs, [Ref(cell)])
        pkg2 = cell.v
        buf = VecV([])
        e.call_fn(wr, [Ref(Cell(pkg2.fields[0].fields[2])), Ref(Cell(buf))])
        return r, pkg2, as_bytes(e, buf)

    def on_path(e, inp, out):
        k, v = out
        if k != "return":
            ctx.fail("clear_signatures fails: %s" % (v,), "Package::clear_signatures", kind="c08", hs=hs)
            return
        r, pkg2, hb = v
        ctx.cover("signatures cleared", r.variant == "Ok")
        if r.variant != "Ok":
            ctx.fail("clear_signatures returns an error", "Package::clear_signatures", kind="c08", hs=hs)
            return
        sig = pkg2.fields[0].fields[1]
        ents = sig.fields[1].items
        want = hexchars(uf_digest("sha256", hb))
        sha = [en for en in ents if not e._check(en.fields[0].e != sigtag("RPMSIGTAG_SHA256"))]
        if len(sha) != 1 or sha[0].fields[1].variant != "StringTag":
            ctx.fail("cleared package does not record exactly one SHA256 header digest", "Package::clear_signatures", kind="c08", hs=hs)
        else:
            got = intrinsics.as_str(e, sha[0].fields[1].fields[0]).bytes()
            if len(got) != 64 or e._check(z3.Not(all_eq(got, want))):
                ctx.fail("the header digest recorded by clear_signatures is not the SHA-256 of the serialised header", "Package::clear_signatures", kind="c08", hs=hs)
        for en in ents[1:]:
            tv = en.fields[0].conc()
            if tv in (sigtag("RPMSIGTAG_RSA"), sigtag("RPMSIGTAG_DSA"), sigtag("RPMSIGTAG_PGP"), sigtag("RPMSIGTAG_OPENPGP")):
                ctx.fail("a signature survives clear_signatures", "Package::clear_signatures", kind="c08", hs=hs)
        msgs = []
        validate_header(e, sig, sigtag("HEADER_SIGNATURES"), lambda m: msgs.append(m) and False)
        if msgs:
            ctx.fail("signature header emitted by clear_signatures violates rpm's structural rules: " + msgs[0], "Package::clear_signatures", kind="c09", hs=hs)
        # main header and payload untouched
        if e._check(z3.Not(intrinsics2._eq_any(e, pkg2.fields[1], byte_vec(inp["content"])))):
            ctx.fail("clear_signatures changed the payload", "Package::clear_signatures", kind="c08", hs=hs)

    ex.run_all(setup, body, on_path)


def replay_c08_clear(ctx, fl):
    import hashlib
    import rpmbytes as RB
    hs = fl.get("hs", 0)
    st = bytes(range(1, hs + 1))
    hdr_e = [(tag("RPMTAG_NAME"), "Bin", 0, hs)]
    wrong = b"0" * 64
    sig_s = b"\x01\x02\x03" + wrong + b"\0"
    sig_e = [(sigtag("RPMSIGTAG_RSA"), "Bin", 0, 3), (sigtag("RPMSIGTAG_SHA256"), "StringTag", 3, 1)]
    pkg = RB.package(sorted(sig_e), sig_s, hdr_e, st, b"\x01\x02")
    ans = ctx.native.ask("clear_digest", pkg.hex())
    return ans.startswith("bad"), "real crate: parse a package with a stale signature header, clear_signatures(), verify_digests() -> " + ans


REPLAYERS["c08"] = replay_c08_clear
REPLAYERS["c09"] = (lambda prev: (lambda ctx, fl: replay_c08_clear(ctx, fl) if "hs" in fl else prev(ctx, fl)))(REPLAYERS["c09"])
for _hs in (0, 3):
    for _st in (False, True):
        HARNESSES["c08_clear_%d_%s" % (_hs, "stale" if _st else "empty")] = (lambda a, b: (lambda ctx: c08_clear(ctx, a, b, ("c08",))))(_hs, _st)
        HARNESSES["c09_clear_%d_%s" % (_hs, "stale" if _st else "empty")] = (lambda a, b: (lambda ctx: c08_clear(ctx, a, b, ("c09",))))(_hs, _st)


# ---------------------------------------------------------------------------------------------------------
# C05: zipped accessors (dependencies of all eight kinds, changelog)
# ---------------------------------------------------------------------------------------------------------
DEP_KINDS = {"provides": "PROVIDE", "requires": "REQUIRE", "conflicts": "CONFLICT", "obsoletes": "OBSOLETE", "recommends": "RECOMMEND", "suggests": "SUGGEST",
             "enhances": "ENHANCE", "supplements": "SUPPLEMENT"}


def c05_deps(ctx, kind, n, drop=None):
    """header holding the name/flags/version triples of ALL eight dependency kinds (n items each, contents symbolic and distinct per kind),
    get_<kind>() must return exactly its own triple zipped in order; with one member of the triple missing: an error"""
    getter = ctx.impl_fn("get_" + kind, None, "PackageMetadata")
    ex = Exec(ctx.funcs, intrinsics.I)
    ctx.stats = ex.stats
    ctx.bounds = "get_%s on a header with all eight dependency triples present (%d items each, names/versions 1 symbolic byte, flags any u32)%s" % (kind, n, "; %s tag of this kind absent" % drop if drop else "")

    def setup(e):
        inp = {}
        for k in DEP_KINDS:
            inp[k] = dict(names=[sym_bytes(e, "%s_n%d_" % (k, i), 1, 0x21, 0x7e) for i in range(n)], flags=[z3.BitVec("%s_f%d" % (k, i), 32) for i in range(n)],
                          vers=[sym_bytes(e, "%s_v%d_" % (k, i), 1, 0x21, 0x7e) for i in range(n)])
        return inp

    def body(e, inp):
        ents = []
        for k, pre in DEP_KINDS.items():
            if not (k == kind and drop == "NAME"):
                ents.append(index_entry(tag("RPMTAG_%sNAME" % pre), index_data("StringArray", VecV([string(x) for x in inp[k]["names"]]))))
            if not (k == kind and drop == "FLAGS"):
                ents.append(index_entry(tag("RPMTAG_%sFLAGS" % pre), index_data("Int32", VecV([Int(x, "u32") for x in inp[k]["flags"]]))))
            if not (k == kind and drop == "VERSION"):
                ents.append(index_entry(tag("RPMTAG_%sVERSION" % pre), index_data("StringArray", VecV([string(x) for x in inp[k]["vers"]]))))
        from rpmvals import metadata
        return e.call_fn(getter, [Ref(Cell(metadata(header([], []), header(ents, []))))])

    def on_path(e, inp, out):
        k, v = out
        if k != "return":
            ctx.fail("dependency accessor panics: %s" % (v,), "PackageMetadata::get_" + kind, kind="c05deps", which=kind)
            return
        ctx.cover("list returned", v.variant == "Ok")
        if drop:
            if v.variant == "Ok":
                ctx.fail("dependency list returned although the %s tag is missing" % drop, "PackageMetadata::get_" + kind, kind="c05deps", which=kind)
            return
        if v.variant != "Ok" or len(v.fields[0].items) != n:
            ctx.fail("dependency list has the wrong length or is an error", "PackageMetadata::get_" + kind, kind="c05deps", which=kind)
            return
        me = inp[kind]
        for i, dep in enumerate(v.fields[0].items):
            nm, fl, ve = dep.fields
            good = (not e._check(z3.Not(all_eq(intrinsics.as_str(e, nm).bytes(), me["names"][i]))) and not e._check(z3.Not(all_eq(intrinsics.as_str(e, ve).bytes(), me["vers"][i])))
                    and not e._check(fl.fields[0].e != me["flags"][i]))
            if not good:
                ctx.fail("dependency %d of get_%s is not (name[i], flags[i], version[i]) of its own tags" % (i, kind), "PackageMetadata::get_" + kind, kind="c05deps", which=kind)
                return
    ex.run_all(setup, body, on_path)


for _k in DEP_KINDS:
    HARNESSES["c05_deps_%s_2" % _k] = (lambda k: (lambda ctx: c05_deps(ctx, k, 2)))(_k)
HARNESSES["c05_deps_requires_0"] = lambda ctx: c05_deps(ctx, "requires", 0)
for _d in ("NAME", "FLAGS", "VERSION"):
    HARNESSES["c05_deps_provides_missing_%s" % _d] = (lambda d: (lambda ctx: c05_deps(ctx, "provides", 1, drop=d)))(_d)
def replay_deps(ctx, fl):
    """native: hand-encode a header with all eight dependency triples (2 items each, distinct contents) and query the accessor"""
    import struct
    import rpmbytes as RB
    ent, st = [], b""
    exp = {}
    for i, (k, pre) in enumerate(DEP_KINDS.items()):
        names = [b"n%d%d" % (i, j) for j in range(2)]
        vers = [b"v%d%d" % (i, j) for j in range(2)]
        flags = [0x100 * (i + 1) + j for j in range(2)]
        for suffix, ty, data, al in (("NAME", "StringArray", b"".join(x + b"\0" for x in names), 1), ("FLAGS", "Int32", b"".join(struct.pack(">I", x) for x in flags), 4),
                                     ("VERSION", "StringArray", b"".join(x + b"\0" for x in vers), 1)):
            st += b"\0" * ((al - len(st) % al) % al)
            ent.append((tag("RPMTAG_%s%s" % (pre, suffix)), ty, len(st), 2))
            st += data
        exp[k] = ",".join("%s:%x:%s" % (n.hex(), f, v.hex()) for n, f, v in zip(names, flags, vers))
    which = fl.get("which", "provides")
    ans = ""
    for order in entry_orders(ent):
        meta = RB.lead() + RB.sig_header([], b"") + RB.header(order, st)
        ans = ctx.native.ask("deps", meta.hex(), which)
        if ans != "ok " + exp[which]:
            return True, "real crate: get_%s on a header with eight distinct triples (index entries %s by tag) -> %s (expected %s)" % (
                which, "ascending" if order == sorted(ent) else "not ascending", ans[:80], exp[which][:60])
    return False, "real crate: get_%s on a header with eight distinct triples -> %s (expected %s)" % (which, ans[:80], exp[which][:60])


REPLAYERS["c05"] = (lambda prev: (lambda ctx, fl: replay_deps(ctx, fl) if fl.get("kind") == "c05deps" else prev(ctx, fl)))(REPLAYERS["c05"])


# ---------------------------------------------------------------------------------------------------------
# C09: signature padding arithmetic; C08: per-file digest recorded by the builder when a file is added
# ---------------------------------------------------------------------------------------------------------
def c09_sigpad(ctx):
    pr = ctx.impl_fn("padding_required", None, "Header")
    ex = Exec(ctx.funcs, intrinsics.I)
    ctx.stats = ex.stats
    ctx.bounds = "Header::<IndexSignatureTag>::padding_required for every data section size (u32)"

    def on_path(e, d, out):
        k, v = out
        ctx.cover("computed", k == "return")
        bad = z3.BoolVal(True) if k != "return" else z3.Not(z3.And(z3.ULT(v.e, 8), z3.URem(z3.ZeroExt(8, d) + z3.ZeroExt(8, v.e), 8) == 0))
        if e._check(bad):
            # a small witness if there is one (the replay encodes a signature header with a store of that many bytes)
            wit = None
            for lim in (64, 4096, None):
                e.solver.push()
                e.solver.add(bad)
                if lim:
                    e.solver.add(z3.ULT(d, lim))
                if e.solver.check() == z3.sat:
                    wit = e.solver.model().eval(d, model_completion=True).as_long()
                e.solver.pop()
                if wit is not None:
                    break
            ctx.fail("signature header padding is not the 0..7 bytes that align the store to 8", "Header::padding_required", kind="sigpad", size=wit)
    ex.run_all(lambda e: z3.BitVec("d", 32), lambda e, d: e.call_fn(pr, [Ref(Cell(header([], [], n=0, size=Int(d, "u32"))))]), on_path)


HARNESSES["c09_sigpad"] = c09_sigpad


def c08_filedigest(ctx, same_dest):
    ad = ctx.impl_fn("add_data", None, "PackageBuilder")
    ex = Exec(ctx.funcs, intrinsics.I, max_steps=400000)
    ctx.stats = ex.stats
    ctx.bounds = ("PackageBuilder::add_data called twice (%s destination, contents of 2 symbolic bytes each, same modification time): every stored file entry records hex(SHA-256(its own content)) "
                  "(SHA-256 as an uninterpreted function)" % ("the same" if same_dest else "different"))
    from symex import Opaque
    from intrinsics3 import MapV

    def setup(e):
        return sym_bytes(e, "x", 2, 0, 255), sym_bytes(e, "y", 2, 0, 255)

    def body(e, inp):
        fields = [Opaque("builder-field-%d" % i) for i in range(52)]
        fields[10] = MapV()
        fields[11] = MapV()
        cell = Cell(Adt("PackageBuilder", "PackageBuilder", fields))

        def opts(dest):
            return Adt("FileOptions", "FileOptions", [string(dest), string(b"root"), string(b"root"), string(b""), Adt("FileMode", "Regular", [Int(0o664, "u16")]),
                                                      Opaque("FileFlags"), Bool_(False), Adt("Option", "None"), Opaque("FileVerifyFlags")])
        ts = Adt("Timestamp", "Timestamp", [Int(7, "u32")])
        r1 = e.call_fn(ad, [Ref(cell), byte_vec(inp[0]), ts, opts(b"/d/f")])
        r2 = e.call_fn(ad, [Ref(cell), byte_vec(inp[1]), ts, opts(b"/d/f" if same_dest else b"/d/g")])
        return r1, r2, cell.v.fields[10]

    def on_path(e, inp, out):
        k, v = out
        if k != "return":
            ctx.fail("adding a file panics: %s" % (v,), "PackageBuilder::add_data", kind="c08fd")
            return
        r1, r2, files = v
        ctx.cover("files added", r1.variant == "Ok" and r2.variant == "Ok")
        for ent in files.vals:
            # PackageFileEntry { size, mode, modified_at, sha_checksum, link, flags, user, group, base_name, dir, caps, verify_flags, content }
            content = as_bytes(e, ent.fields[12])
            want = hexchars(uf_digest("sha256", content))
            got = intrinsics.as_str(e, ent.fields[3]).bytes()
            size_ok = not e._check(ent.fields[0].e != len(content))
            if len(got) != 64 or e._check(z3.Not(all_eq(got, want))) or not size_ok:
                ctx.fail("a file entry records a digest (or size) that is not that of the content stored with it", "PackageBuilder::add_data", kind="c08fd", same_dest=same_dest)
                return
    ex.run_all(setup, body, on_path)


HARNESSES["c08_filedigest_same"] = lambda ctx: c08_filedigest(ctx, True)
HARNESSES["c08_filedigest_diff"] = lambda ctx: c08_filedigest(ctx, False)
REPLAYERS["c08"] = (lambda prev: (lambda ctx, fl: replay_filedigest(ctx, fl) if fl.get("kind") == "c08fd" else prev(ctx, fl)))(REPLAYERS["c08"])
def replay_sigpad(ctx, fl):
    import rpmbytes as RB
    d = fl.get("size")
    if d is None or d > 1 << 16:
        return False, "no witness small enough to encode as a signature header (data section size %r)" % (d,)
    # a correctly padded file: lead, signature header with one BIN entry of d bytes, 0..7 zero bytes up to the 8-byte boundary, empty main header
    sig = RB.header([(1000, "Bin", 0, d)] if d else [], b"\x07" * d)
    meta = RB.lead() + sig + b"\0" * ((8 - d % 8) % 8) + RB.header([], b"")
    ans = ctx.native.ask("meta_rt", meta.hex())
    return ans != "ok " + meta.hex(), "real crate: parse -> write of a correctly padded signature header with a %d-byte store -> %s" % (d, ans[:60] + ("..." if len(ans) > 60 else ""))


REPLAYERS["c09"] = (lambda prev: (lambda ctx, fl: replay_sigpad(ctx, fl) if fl.get("kind") == "sigpad" else prev(ctx, fl)))(REPLAYERS["c09"])


def replay_filedigest(ctx, fl):
    ans = ctx.native.ask("filedigest")
    return ans.startswith("bad"), "real crate: two with_file calls on the same destination with equal size/mtime and different content, then per-file digests vs content -> " + ans


# ---------------------------------------------------------------------------------------------------------
# C05: get_file_entries (ten-way zip) on a header holding every per-file tag, 32- and 64-bit size variants
# ---------------------------------------------------------------------------------------------------------
def c05_file_entries(ctx, n, long_sizes):
    gf = ctx.impl_fn("get_file_entries", None, "PackageMetadata")
    ex = Exec(ctx.funcs, intrinsics.I, max_steps=600000)
    ctx.stats = ex.stats
    ctx.bounds = ("get_file_entries on a header with %d files: modes, mtimes, flags, %s sizes, dir indexes symbolic; user/group/link/base names 1 symbolic byte; "
                  "decoy total-size tags present (SIZE, LONGSIZE)" % (n, "64-bit (LONGFILESIZES)" if long_sizes else "32-bit (FILESIZES)"))

    def setup(e):
        return dict(modes=[z3.BitVec("m%d" % i, 16) for i in range(n)], mt=[z3.BitVec("t%d" % i, 32) for i in range(n)], fl=[z3.BitVec("f%d" % i, 32) for i in range(n)],
                    sz=[z3.BitVec("s%d" % i, 64 if long_sizes else 32) for i in range(n)], user=[sym_bytes(e, "u%d_" % i, 1, 0x61, 0x7a) for i in range(n)],
                    group=[sym_bytes(e, "g%d_" % i, 1, 0x61, 0x7a) for i in range(n)], link=[sym_bytes(e, "l%d_" % i, 1, 0x61, 0x7a) for i in range(n)],
                    base=[sym_bytes(e, "b%d_" % i, 1, 0x61, 0x7a) for i in range(n)], total=z3.BitVec("total", 64))

    def body(e, inp):
        def sa(key):
            return index_data("StringArray", VecV([string(x) for x in inp[key]]))
        ents = [
            index_entry(tag("RPMTAG_FILEMODES"), index_data("Int16", VecV([Int(x, "u16") for x in inp["modes"]]))),
            index_entry(tag("RPMTAG_FILEUSERNAME"), sa("user")), index_entry(tag("RPMTAG_FILEGROUPNAME"), sa("group")),
            index_entry(tag("RPMTAG_FILEDIGESTS"), index_data("StringArray", VecV([string(b"") for _ in range(n)]))),
            index_entry(tag("RPMTAG_FILEMTIMES"), index_data("Int32", VecV([Int(x, "u32") for x in inp["mt"]]))),
            index_entry(tag("RPMTAG_FILEFLAGS"), index_data("Int32", VecV([Int(x, "u32") for x in inp["fl"]]))),
            index_entry(tag("RPMTAG_FILELINKTOS"), sa("link")),
            index_entry(tag("RPMTAG_BASENAMES"), sa("base")),
            index_entry(tag("RPMTAG_DIRINDEXES"), index_data("Int32", VecV([Int(0, "u32") for _ in range(n)]))),
            index_entry(tag("RPMTAG_DIRNAMES"), index_data("StringArray", VecV([string(b"/d/")]))),
            # decoys: package totals that must not be mistaken for per-file sizes
            index_entry(tag("RPMTAG_SIZE"), index_data("Int32", VecV([Int(z3.Extract(31, 0, inp["total"]), "u32")]))),
            index_entry(tag("RPMTAG_LONGSIZE"), index_data("Int64", VecV([Int(inp["total"], "u64")]))),
        ]
        if long_sizes:
            ents.append(index_entry(tag("RPMTAG_LONGFILESIZES"), index_data("Int64", VecV([Int(x, "u64") for x in inp["sz"]]))))
        else:
            ents.append(index_entry(tag("RPMTAG_FILESIZES"), index_data("Int32", VecV([Int(x, "u32") for x in inp["sz"]]))))
        from rpmvals import metadata
        return e.call_fn(gf, [Ref(Cell(metadata(header([], []), header(ents, []))))])

    def on_path(e, inp, out):
        k, v = out
        if k != "return":
            ctx.fail("file entry listing panics: %s" % (v,), "PackageMetadata::get_file_entries", kind="c05fe", n=n, long=long_sizes)
            return
        ctx.cover("entries returned", v.variant == "Ok")
        if v.variant != "Ok" or len(v.fields[0].items) != n:
            ctx.fail("file entry list has the wrong length (%s) or is an error" % (len(v.fields[0].items) if v.variant == "Ok" else "err"), "PackageMetadata::get_file_entries", kind="c05fe", n=n, long=long_sizes)
            return
        for i, fe in enumerate(v.fields[0].items):
            # FileEntry { path, mode, ownership, modified_at, size, flags, digest, caps, linkto, ima_signature }
            path, mode, own, mt, size, flags, digest, caps, linkto, ima = [intrinsics.deref_all(e, x) for x in fe.fields]
            conds = [mt.fields[0].e == inp["mt"][i], size.e == (inp["sz"][i] if long_sizes else z3.ZeroExt(32, inp["sz"][i])), flags.fields[0].e == inp["fl"][i]]
            conds += [x == y for x, y in zip(intrinsics.as_str(e, own.fields[0]).bytes(), inp["user"][i])]
            conds += [x == y for x, y in zip(intrinsics.as_str(e, own.fields[1]).bytes(), inp["group"][i])]
            conds += [x == y for x, y in zip(intrinsics.as_str(e, linkto).bytes(), inp["link"][i])]
            want_path = [ord("/"), ord("d"), ord("/")] + inp["base"][i]
            conds += [x == (z3.BitVecVal(y, 8) if isinstance(y, int) else y) for x, y in zip(path.bs, want_path)] + [z3.BoolVal(len(path.bs) == len(want_path))]
            if e._check(z3.Not(z3.And(conds))):
                ctx.fail("file entry %d does not carry the per-file attributes of the header (mtime, size, flags, owner, link target, path)" % i, "PackageMetadata::get_file_entries", kind="c05fe", n=n, long=long_sizes)
                return
    ex.run_all(setup, body, on_path)


PER_FILE_TAGS = ("FILEMODES", "FILEUSERNAME", "FILEGROUPNAME", "FILEDIGESTS", "FILEMTIMES", "FILEFLAGS", "FILELINKTOS", "FILESIZES", "DIRINDEXES", "FILECAPS")


def c04_file_entries_short(ctx, short_tag, n=2):
    """get_file_entries on a header with n files in which ONE per-file array has one item fewer than the others (FILECAPS: present with n-1 items):
    an error or a shorter list, never a panic"""
    gf = ctx.impl_fn("get_file_entries", None, "PackageMetadata")
    ex = Exec(ctx.funcs, intrinsics.I, max_steps=600000)
    ctx.stats = ex.stats
    ctx.bounds = "get_file_entries on a header with %d base names where RPMTAG_%s has %d item(s) and every other per-file array %d; values symbolic" % (n, short_tag, n - 1, n)

    def setup(e):
        return dict(v=[z3.BitVec("v%d" % i, 32) for i in range(n)], s=[sym_bytes(e, "s%d_" % i, 1, 0x61, 0x7a) for i in range(n)])

    def body(e, inp):
        def cnt(t):
            return n - 1 if t == short_tag else n

        def sa(t, lit=None):
            return index_data("StringArray", VecV([string(lit if lit is not None else inp["s"][i]) for i in range(cnt(t))]))
        ents = [
            index_entry(tag("RPMTAG_FILEMODES"), index_data("Int16", VecV([Int(0o100644, "u16") for _ in range(cnt("FILEMODES"))]))),
            index_entry(tag("RPMTAG_FILEUSERNAME"), sa("FILEUSERNAME")), index_entry(tag("RPMTAG_FILEGROUPNAME"), sa("FILEGROUPNAME")),
            index_entry(tag("RPMTAG_FILEDIGESTS"), sa("FILEDIGESTS", b"")),
            index_entry(tag("RPMTAG_FILEMTIMES"), index_data("Int32", VecV([Int(inp["v"][i], "u32") for i in range(cnt("FILEMTIMES"))]))),
            index_entry(tag("RPMTAG_FILEFLAGS"), index_data("Int32", VecV([Int(inp["v"][i], "u32") for i in range(cnt("FILEFLAGS"))]))),
            index_entry(tag("RPMTAG_FILELINKTOS"), sa("FILELINKTOS")),
            index_entry(tag("RPMTAG_FILESIZES"), index_data("Int32", VecV([Int(inp["v"][i], "u32") for i in range(cnt("FILESIZES"))]))),
            index_entry(tag("RPMTAG_BASENAMES"), index_data("StringArray", VecV([string(inp["s"][i]) for i in range(n)]))),
            index_entry(tag("RPMTAG_DIRINDEXES"), index_data("Int32", VecV([Int(0, "u32") for _ in range(cnt("DIRINDEXES"))]))),
            index_entry(tag("RPMTAG_DIRNAMES"), index_data("StringArray", VecV([string(b"/d/")]))),
            index_entry(tag("RPMTAG_FILECAPS"), sa("FILECAPS", b"")),
        ]
        from rpmvals import metadata
        return e.call_fn(gf, [Ref(Cell(metadata(header([], []), header(ents, []))))])

    def on_path(e, inp, out):
        k, v = out
        if k != "return":
            ctx.fail("file entry listing panics: %s" % (v,), "PackageMetadata::get_file_entries", kind="c04feshort", short=short_tag, n=n)
            return
        ctx.cover("listing returns", True)
    ex.run_all(setup, body, on_path)


def replay_fe_short(ctx, fl):
    import struct
    import rpmbytes as RB
    n, short = fl.get("n", 2), fl["short"]
    T = {"BASENAMES": 1117, "DIRINDEXES": 1116, "DIRNAMES": 1118, "FILEMODES": 1030, "FILEUSERNAME": 1039, "FILEGROUPNAME": 1040, "FILEDIGESTS": 1035,
         "FILEMTIMES": 1034, "FILESIZES": 1028, "FILEFLAGS": 1037, "FILELINKTOS": 1036, "FILECAPS": 5010}
    ent, st = [], b""

    def add(t, ty, items, align=1):
        nonlocal st
        st += b"\0" * ((align - len(st) % align) % align)
        ent.append((T[t], ty, len(st), len(items)))
        st += b"".join(items)
    c = lambda t: n - 1 if t == short else n  # noqa: E731
    add("FILESIZES", "Int32", [struct.pack(">I", 1)] * c("FILESIZES"), 4)
    add("FILEMODES", "Int16", [struct.pack(">H", 0o100644)] * c("FILEMODES"), 2)
    add("FILEMTIMES", "Int32", [struct.pack(">I", 0)] * c("FILEMTIMES"), 4)
    add("FILEDIGESTS", "StringArray", [b"\0"] * c("FILEDIGESTS"))
    add("FILELINKTOS", "StringArray", [b"\0"] * c("FILELINKTOS"))
    add("FILEFLAGS", "Int32", [struct.pack(">I", 0)] * c("FILEFLAGS"), 4)
    add("FILEUSERNAME", "StringArray", [b"root\0"] * c("FILEUSERNAME"))
    add("FILEGROUPNAME", "StringArray", [b"root\0"] * c("FILEGROUPNAME"))
    add("DIRINDEXES", "Int32", [struct.pack(">I", 0)] * c("DIRINDEXES"), 4)
    add("BASENAMES", "StringArray", [b"f%d\0" % i for i in range(n)])
    add("DIRNAMES", "StringArray", [b"/d/\0"])
    add("FILECAPS", "StringArray", [b"\0"] * c("FILECAPS"))
    ent = [x for x in ent if x[3] > 0]
    meta = RB.lead() + RB.sig_header([], b"") + RB.header(sorted(ent), st)
    ans = ctx.native.ask("file_entries", meta.hex())
    return ans == "panic", "real crate: get_file_entries on a %d-file header whose RPMTAG_%s has %d item(s) -> %s" % (n, short, n - 1, ans[:60])


for _t in PER_FILE_TAGS:
    HARNESSES["c04_fentries_short_" + _t] = (lambda t: (lambda ctx: c04_file_entries_short(ctx, t)))(_t)
REPLAYERS["c04"] = (lambda prev: (lambda ctx, fl: replay_fe_short(ctx, fl) if fl.get("kind") == "c04feshort" else prev(ctx, fl)))(REPLAYERS["c04"])


def replay_fe(ctx, fl):
    import struct
    import rpmbytes as RB
    n = max(fl.get("n", 2), 2)
    ent, st = RB.file_header(n)
    # add the totals (and, for the 64-bit variant, replace FILESIZES by LONGFILESIZES)
    ent = list(ent)
    if fl.get("long"):
        ent = [x for x in ent if x[0] != 1028]
        st += b"\0" * ((8 - len(st) % 8) % 8)
        ent.append((5008, "Int64", len(st), n))
        st += b"".join(struct.pack(">Q", 3) for _ in range(n))
    st += b"\0" * ((8 - len(st) % 8) % 8)
    ent.append((5009, "Int64", len(st), 1))
    st += struct.pack(">Q", 3 * n)
    ans = ""
    for order in entry_orders(ent):
        meta = RB.lead() + RB.sig_header([], b"") + RB.header(order, st)
        ans = ctx.native.ask("file_entries", meta.hex())
        good = ans == "ok " + ",".join("3" for _ in range(n))
        if not good:
            return True, "real crate: get_file_entries sizes on a %d-file header (%s sizes, LONGSIZE total present, index entries %s by tag) -> %s" % (
                n, "64-bit" if fl.get("long") else "32-bit", "ascending" if order == sorted(ent) else "not ascending", ans[:80])
    return False, "real crate: get_file_entries sizes on a %d-file header (%s sizes, LONGSIZE total present) -> %s" % (n, "64-bit" if fl.get("long") else "32-bit", ans[:80])


for _n in (1, 2):
    for _l in (False, True):
        HARNESSES["c05_fentries_%d_%s" % (_n, "long" if _l else "u32")] = (lambda n, l: (lambda ctx: c05_file_entries(ctx, n, l)))(_n, _l)
REPLAYERS["c05"] = (lambda prev: (lambda ctx, fl: replay_fe(ctx, fl) if fl.get("kind") == "c05fe" else prev(ctx, fl)))(REPLAYERS["c05"])


# ---------------------------------------------------------------------------------------------------------
# C12 (partial): every path Package::extract hands to the file system lies inside the target directory; no panic
# ---------------------------------------------------------------------------------------------------------
def c12_extract(ctx, ndir, files, alphabet=b"/.a"):
    """files: [(kind, number of symbolic path characters)]"""
    import intrinsics3
    from intrinsics3 import FsLog, ValIter, PathV
    from symex import Opaque
    extract = ctx.impl_fn("extract", None, "Package")
    ex = Exec(ctx.funcs, intrinsics.I, max_steps=400000)
    ctx.stats = ex.stats
    ctx.bounds = ("Package::extract into \"/t\" of a package with one directory name of %d symbolic characters and %s, characters over {%s}; the file system is a stub that records every call, lets each call "
                  "succeed or fail, answers exists() arbitrarily and keeps track of the symbolic links the extraction itself creates (the target is freshly created, hence empty)"
                  % (ndir, ", then ".join("a %s entry with a path of %d symbolic characters" % f for f in files) or "no files", ",".join(repr(chr(c)) for c in alphabet)))

    def setup(e):
        def sym(name, n):
            v = [z3.BitVec("%s%d" % (name, i), 8) for i in range(n)]
            for x in v:
                e.solver.add(z3.Or([x == c for c in alphabet]))
            return v
        return sym("d", ndir), [sym("f%d_" % i, n) for i, (_, n) in enumerate(files)]

    def body(e, inp):
        d, fps = inp
        intrinsics3.FS[0] = FsLog(b"/t")
        hdr = header([index_entry(tag("RPMTAG_DIRNAMES"), index_data("StringArray", VecV([string(d)])), 0)], [])
        pkg = package(header([], []), hdr, [])
        items = []
        for (kind, _), fp in zip(files, fps):
            mode = {"regular": Adt("FileMode", "Regular", [Int(0o644, "u16")]), "dir": Adt("FileMode", "Dir", [Int(0o755, "u16")]),
                    "symlink": Adt("FileMode", "SymbolicLink", [Int(0o777, "u16")]), "special": Adt("FileMode", "Invalid", [Int(0o020644, "i32"), Str.lit(b"unknown file type")])}[kind]
            fe = Adt("FileEntry", "FileEntry", [PathV(fp), mode, Opaque("FileOwnership"), Opaque("Timestamp"), Int(1, "usize"), Opaque("FileFlags"), Adt("Option", "None"),
                                                Adt("Option", "None"), string(b"../outside"), Adt("Option", "None")])
            items.append(Adt("Result", "Ok", [Adt("RpmFile", "RpmFile", [fe, byte_vec([1])])]))
        e.overrides = {"package::Package::files": lambda ex_, a, f: Adt("Result", "Ok", [ValIter(items)]), "Package::files": lambda ex_, a, f: Adt("Result", "Ok", [ValIter(items)])}
        r = e.call_fn(extract, [Ref(Cell(pkg)), Str.lit(b"/t")])
        return r, intrinsics3.FS[0]

    def on_path(e, inp, out):
        k, v = out
        d, fps = inp

        def wit():
            return dict(dir=model_bytes(e, d).hex(), files=[[kind, model_bytes(e, fp).hex()] for (kind, _), fp in zip(files, fps)])
        if k != "return":
            ctx.fail("extraction panics: %s" % (v,), "Package::extract", kind="c12panic", **wit())
            return
        r, fs = v
        ctx.cover("extraction succeeds", r.variant == "Ok")
        ctx.cover("extraction returns an error", r.variant == "Err")
        if fs.violations:
            op, p, why = fs.violations[0]
            ctx.fail("extraction reaches outside the target directory: %s (%s)" % (why, op), "Package::extract", kind="c12escape", op=op, path=model_bytes(e, p).hex(), **wit())

    ex.run_all(setup, body, on_path)


def c12_positive(ctx, kind, pre=False):
    """the positive half at the level of file-system calls: for a benign entry /<x><y> (two symbolic letters) whose extraction succeeds, the calls
    made are exactly the ones that create that entry at target+path with the archived content / permission bits / link target"""
    import intrinsics3
    from intrinsics3 import FsLog, ValIter, PathV
    from symex import Opaque
    extract = ctx.impl_fn("extract", None, "Package")
    ex = Exec(ctx.funcs, intrinsics.I, max_steps=400000)
    ctx.stats = ex.stats
    ctx.bounds = ("Package::extract into \"/t\" of a package with one %s entry at /<x><y> (x, y symbolic letters), permission bits any 12 bits, 2 symbolic content bytes / link target of 2 symbolic letters; "
                  "on the paths where extraction returns Ok the recorded file-system calls are compared with the entry" % kind)

    def setup(e):
        return dict(nm=sym_bytes(e, "n", 2, 0x61, 0x7a), perm=z3.BitVec("perm", 16), content=sym_bytes(e, "c", 2, 0, 255), link=sym_bytes(e, "l", 2, 0x61, 0x7a))

    def body(e, inp):
        e.solver.add(z3.ULE(inp["perm"], 0o7777))
        e.model = None
        intrinsics3.FS[0] = FsLog(b"/t")
        dnames = [string(b"/")]
        if pre:
            # the entry's own path is also a directory name of the package (it has entries below it): extract pre-creates it
            dnames.append(string([z3.BitVecVal(ord("/"), 8)] + list(inp["nm"]) + [z3.BitVecVal(ord("/"), 8)]))
        hdr = header([index_entry(tag("RPMTAG_DIRNAMES"), index_data("StringArray", VecV(dnames)), 0)], [])
        pkg = package(header([], []), hdr, [])
        mode = {"regular": Adt("FileMode", "Regular", [Int(inp["perm"], "u16")]), "dir": Adt("FileMode", "Dir", [Int(inp["perm"], "u16")]),
                "symlink": Adt("FileMode", "SymbolicLink", [Int(inp["perm"], "u16")])}[kind]
        path = [z3.BitVecVal(ord("/"), 8)] + list(inp["nm"])
        fe = Adt("FileEntry", "FileEntry", [PathV(path), mode, Opaque("FileOwnership"), Opaque("Timestamp"), Int(2, "usize"), Opaque("FileFlags"), Adt("Option", "None"),
                                            Adt("Option", "None"), string(inp["link"]), Adt("Option", "None")])
        items = [Adt("Result", "Ok", [Adt("RpmFile", "RpmFile", [fe, byte_vec(inp["content"])])])]
        e.overrides = {"package::Package::files": lambda ex_, a, f: Adt("Result", "Ok", [ValIter(items)]), "Package::files": lambda ex_, a, f: Adt("Result", "Ok", [ValIter(items)])}
        r = e.call_fn(extract, [Ref(Cell(pkg)), Str.lit(b"/t")])
        return r, intrinsics3.FS[0]

    def on_path(e, inp, out):
        k, v = out
        if k != "return":
            ctx.fail("extraction panics: %s" % (v,), "Package::extract", kind="c12panic", dir=b"/".hex(), files=[[kind, (b"/" + model_bytes(e, inp["nm"])).hex()]])
            return
        r, fs = v
        ctx.cover("extraction succeeds", r.variant == "Ok")
        if fs.violations:
            op, p_, why = fs.violations[0]
            ctx.fail("extraction makes a call that can act outside the target directory: %s (%s)" % (op, why), "Package::extract", kind="c12escape", dir=b"/".hex(),
                     files=[[kind, (b"/" + model_bytes(e, inp["nm"])).hex()]])
            return
        if r.variant != "Ok":
            return
        want_path = [z3.BitVecVal(c, 8) for c in b"/t/"] + list(inp["nm"])

        def at(p):
            return len(p) == len(want_path) and not e._check(z3.Not(z3.And([x == y for x, y in zip(p, want_path)])))
        ops = [o for o in fs.ops if at(o[1])]
        names = [o[0] for o in ops]
        bad = None
        if kind == "regular":
            if names[-3:] != ["create_file", "write", "set_permissions"]:
                bad = "a regular file is not created, written and given its mode at target+path (calls there: %s)" % names
            elif len(ops[-2][2]) != 2 or e._check(z3.Not(z3.And([x == y for x, y in zip(ops[-2][2], inp["content"])]))):
                bad = "the bytes written are not the archived content"
            elif ops[-1][2] is None or e._check(ops[-1][2].e != z3.ZeroExt(16, inp["perm"])):
                bad = "the permission bits set are not the archived ones"
        elif kind == "dir":
            if names[-1:] != ["set_permissions"] or "create_dir_all" not in names:
                bad = "a directory is not created and given its mode at target+path (calls there: %s)" % names
            elif ops[-1][2] is None or e._check(ops[-1][2].e != z3.ZeroExt(16, inp["perm"])):
                bad = "the permission bits set are not the archived ones"
        else:
            ln = [o for o in ops if o[0] == "symlink"]
            if not ln or (names.index("symlink") < len(names) - 1 and any(n in ("remove_file", "create_file", "create_dir_all", "create_dir") for n in names[names.index("symlink") + 1:])):
                bad = "a symbolic link is not created (and left in place) at target+path (calls there: %s)" % names
            elif len(ln[-1][2]) != 2 or e._check(z3.Not(z3.And([x == y for x, y in zip(ln[-1][2], inp["link"])]))):
                bad = "the link target is not the archived one"
        if bad:
            ctx.fail("extraction succeeds but " + bad, "Package::extract", kind="c12positive", fkind=kind, pre=pre)

    ex.run_all(setup, body, on_path)


for _k in ("regular", "dir", "symlink"):
    HARNESSES["c12_positive_" + _k] = (lambda k: (lambda ctx: c12_positive(ctx, k)))(_k)
HARNESSES["c12_positive_dir_pre"] = lambda ctx: c12_positive(ctx, "dir", pre=True)


def replay_c12(ctx, fl):
    import rpmbytes as RB
    if fl.get("kind") == "c12positive":
        k = fl["fkind"]
        pk = RB.files_package([b"/", b"/xy/"] if fl.get("pre") else [b"/"],
                              [(0, b"xy", {"regular": 0o104773, "dir": 0o041773, "symlink": 0o120777}[k], b"lk" if k == "symlink" else b"", b"AB" if k == "regular" else b"")])
        ans = ctx.native.ask("extract", pk.hex())
        want = {"regular": "xy:f:4773:4142", "dir": "xy:d:1773", "symlink": "xy:l:lk"}[k]      # group/other write bits: a umask (022 in the helper) must not survive
        return not (ans.startswith("ok") and want in ans), "real crate: a %s entry /xy extracted into a scratch directory -> %s (expected %s)" % (k, ans[:120], want)
    modes = {"regular": 0o100644, "dir": 0o040700, "symlink": 0o120777, "special": 0o020644}
    d = bytes.fromhex(fl["dir"])
    outs = []
    for linkto in (b"../outside", b"../outside/victim", b"../../victim", b"../outside/dangling"):
        pk = RB.files_package([d, b""], [(1, bytes.fromhex(h), modes[k], linkto if k == "symlink" else b"", b"" if k in ("dir", "symlink") else b"pwned") for k, h in fl["files"]])
        ans = ctx.native.ask("extract", pk.hex())
        outs.append(ans)
        if fl["kind"] == "c12panic" and ans.startswith("panic"):
            return True, "real crate: Package::extract -> " + ans[:200]
        if fl["kind"] == "c12escape" and ans.startswith("escaped"):
            return True, "real crate: Package::extract into <scratch>/jail/t (symlink target %s) -> %s" % (linkto.decode(), ans[:300])
    return False, "real crate: Package::extract -> " + " | ".join(o[:80] for o in outs)


REPLAYERS["c12"] = replay_c12
for _n in (1, 2, 3, 4, 5):
    HARNESSES["c12_dirs_%d" % _n] = (lambda n: (lambda ctx: c12_extract(ctx, n, [])))(_n)
for _k in ("regular", "dir", "symlink", "special"):
    for _n in (2, 4, 5, 6):
        HARNESSES["c12_file_%s_%d" % (_k, _n)] = (lambda k, n: (lambda ctx: c12_extract(ctx, 1, [(k, n)])))(_k, _n)
# a symbolic link followed by an entry of the same path or below it
for _k in ("regular", "dir", "symlink"):
    for (_a, _b) in ((1, 1), (1, 3), (2, 2), (2, 4), (2, 5), (3, 5)):
        HARNESSES["c12_link_then_%s_%d_%d" % (_k, _a, _b)] = (lambda k, a, b: (lambda ctx: c12_extract(ctx, 0, [("symlink", a), (k, b)], alphabet=b"/.ab")))(_k, _a, _b)


# ---------------------------------------------------------------------------------------------------------
# C05: the scriptlet getters read the three tags that carry their scriptlet's NAME (text, flags, interpreter), whatever else the header holds
# ---------------------------------------------------------------------------------------------------------
SCRIPTLET_GETTERS = {"PREIN": "get_pre_install_script", "POSTIN": "get_post_install_script", "PREUN": "get_pre_uninstall_script", "POSTUN": "get_post_uninstall_script",
                     "PRETRANS": "get_pre_trans_script", "POSTTRANS": "get_post_trans_script", "PREUNTRANS": "get_pre_untrans_script", "POSTUNTRANS": "get_post_untrans_script"}


def c05_scriptlets(ctx, present):
    """header with the <X>, <X>FLAGS, <X>PROG entries of the scriptlets in `present` (symbolic text, flags, two-word interpreter each); every getter of a
    present scriptlet returns exactly its own three values; tags are taken by NAME from the crate's tag enum, not from the getters' tag triples"""
    ex = Exec(ctx.funcs, intrinsics.I, max_steps=2000000)
    ctx.stats = ex.stats
    ctx.bounds = "scriptlet getters on a header holding text (2 symbolic characters), flags (any u32) and a two-word interpreter for: %s" % ", ".join(present)

    def setup(e):
        return {x: dict(text=sym_bytes(e, x + "t", 2, 0x21, 0x7e), flags=z3.BitVec(x + "_f", 32), prog=[sym_bytes(e, x + "p%d" % i, 1, 0x21, 0x7e) for i in range(2)]) for x in present}

    def body(e, inp):
        from rpmvals import metadata
        ents = []
        for x in present:
            ents.append(index_entry(tag("RPMTAG_" + x), index_data("StringTag", string(inp[x]["text"]))))
            ents.append(index_entry(tag("RPMTAG_%sFLAGS" % x), index_data("Int32", VecV([Int(inp[x]["flags"], "u32")]))))
            ents.append(index_entry(tag("RPMTAG_%sPROG" % x), index_data("StringArray", VecV([string(p) for p in inp[x]["prog"]]))))
        m = metadata(header([], []), header(ents, []))
        return {x: e.call_fn(ctx.impl_fn(SCRIPTLET_GETTERS[x], None, "PackageMetadata"), [Ref(Cell(m))]) for x in present}

    def on_path(e, inp, out):
        k, v = out
        if k != "return":
            ctx.fail("a scriptlet getter panics: %s" % (v,), "PackageMetadata::get_*_script", kind="c05scr", present=list(present))
            return
        ctx.cover("getters return", True)
        for x in present:
            g = v[x]
            bad = None
            if g.variant != "Ok":
                bad = "returns an error"
            else:
                sc = g.fields[0]
                eqs = lambda a, b: len(intrinsics.as_str(e, a).bytes()) == len(b) and not e._check(z3.Not(z3.And([p == q for p, q in zip(intrinsics.as_str(e, a).bytes(), b)])))  # noqa: E731
                if not eqs(sc.fields[0], inp[x]["text"]):
                    bad = "returns another script text"
                elif sc.fields[1].variant != "Some" or e._check(sc.fields[1].fields[0].fields[0].e != inp[x]["flags"]):
                    bad = "returns other flags"
                elif sc.fields[2].variant != "Some" or len(sc.fields[2].fields[0].items) != 2 or not all(eqs(a, b) for a, b in zip(sc.fields[2].fields[0].items, inp[x]["prog"])):
                    bad = "returns another interpreter"
            if bad:
                ctx.fail("%s() %s than the one recorded under RPMTAG_%s / %sFLAGS / %sPROG" % (SCRIPTLET_GETTERS[x], bad, x, x, x) if "another" in bad or "other" in bad
                         else "%s() %s although RPMTAG_%s is present" % (SCRIPTLET_GETTERS[x], bad, x), "PackageMetadata::" + SCRIPTLET_GETTERS[x], kind="c05scr", present=list(present), which=x)
                return
    ex.run_all(setup, body, on_path)


def replay_scriptlets(ctx, fl):
    import struct
    import rpmbytes as RB
    present = fl.get("present") or list(SCRIPTLET_GETTERS)
    ent, st, exp = [], b"", {}
    for i, x in enumerate(present):
        text, flags, prog = b"t%d" % i, 0x80000000 | (i + 1), [b"p%d" % i, b"q%d" % i]
        ent.append((tag("RPMTAG_" + x), "StringTag", len(st), 1))
        st += text + b"\0"
        st += b"\0" * ((4 - len(st) % 4) % 4)
        ent.append((tag("RPMTAG_%sFLAGS" % x), "Int32", len(st), 1))
        st += struct.pack(">I", flags)
        ent.append((tag("RPMTAG_%sPROG" % x), "StringArray", len(st), 2))
        st += b"".join(p_ + b"\0" for p_ in prog)
        exp[x] = "%s:%x:%s" % (text.hex(), flags, ",".join(p_.hex() for p_ in prog))
    meta = RB.lead() + RB.sig_header([], b"") + RB.header(sorted(ent), st)
    ans = ctx.native.ask("scriptlet_getters", meta.hex())
    want = " ".join("%s=%s" % (x, exp[x]) for x in SCRIPTLET_GETTERS if x in exp)
    return ans != "ok " + want, "real crate: scriptlet getters on a hand-encoded header (%s present) -> %s (expected %s)" % (", ".join(present), ans[:200], want[:200])


HARNESSES["c05_scriptlets_all"] = lambda ctx: c05_scriptlets(ctx, list(SCRIPTLET_GETTERS))
for _x in SCRIPTLET_GETTERS:
    HARNESSES["c05_scriptlet_" + _x.lower()] = (lambda x: (lambda ctx: c05_scriptlets(ctx, [x])))(_x)
REPLAYERS["c05"] = (lambda prev: (lambda ctx, fl: replay_scriptlets(ctx, fl) if fl.get("kind") == "c05scr" else prev(ctx, fl)))(REPLAYERS["c05"])
