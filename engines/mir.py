"""Parser for rustc's textual MIR (`-Zunpretty=mir`), restricted to what the functions under
verification use. Produces Function objects with basic blocks of parsed statements/terminators.
Anything the parser does not understand is kept as an `Unsupported` node and only becomes an error
if execution reaches it (so unrelated functions of the crate never matter)."""
import re


class ParseError(Exception):
    pass


class Function:
    def __init__(self, name, params, ret_ty, locals_, blocks, src_line):
        self.name = name
        self.params = params          # list of (local_index, type_text)
        self.ret_ty = ret_ty
        self.locals = locals_         # index -> type text
        self.blocks = blocks          # index -> Block
        self.src_line = src_line


class Block:
    def __init__(self, idx, stmts, term, cleanup):
        self.idx = idx
        self.stmts = stmts
        self.term = term
        self.cleanup = cleanup


# ---- expression AST -----------------------------------------------------------------------------
class Place:
    def __init__(self, local, proj=()):
        self.local = local
        self.proj = tuple(proj)   # ('deref',) ('field', n) ('downcast', name) ('index', local) ('constindex', n, fromend)

    def __repr__(self):
        return "Place(_%d%s)" % (self.local, "".join("/" + ":".join(map(str, p)) for p in self.proj))


class Operand:
    def __init__(self, kind, val, ty=None):
        self.kind = kind   # 'copy' 'move' 'const'
        self.val = val     # Place or Const
        self.ty = ty


class Const:
    def __init__(self, kind, val, ty=None):
        self.kind = kind   # int bool char str bytes unit zst named
        self.val = val
        self.ty = ty

    def __repr__(self):
        return "Const(%s,%r,%s)" % (self.kind, self.val, self.ty)


class Rvalue:
    def __init__(self, kind, **kw):
        self.kind = kind
        self.__dict__.update(kw)


class Stmt:
    def __init__(self, kind, **kw):
        self.kind = kind
        self.__dict__.update(kw)


class Term:
    def __init__(self, kind, **kw):
        self.kind = kind
        self.__dict__.update(kw)


BINOPS = {"Eq", "Ne", "Lt", "Le", "Gt", "Ge", "Add", "Sub", "Mul", "Div", "Rem", "BitAnd", "BitOr", "BitXor", "Shl", "Shr",
          "AddWithOverflow", "SubWithOverflow", "MulWithOverflow", "AddUnchecked", "SubUnchecked", "MulUnchecked",
          "ShlUnchecked", "ShrUnchecked", "Offset", "Cmp"}
UNOPS = {"Not", "Neg", "PtrMetadata"}


def split_top(s, sep=","):
    """split on sep at nesting depth 0 of () [] {} <> and outside string/char literals"""
    out = []
    depth = 0
    cur = []
    i = 0
    n = len(s)
    while i < n:
        c = s[i]
        if c == '"':
            j = i + 1
            while j < n and s[j] != '"':
                if s[j] == "\\":
                    j += 1
                j += 1
            cur.append(s[i:j + 1])
            i = j + 1
            continue
        if c == "'" and i + 2 < n:
            # char literal 'x' or '\x'
            m = re.match(r"'(\\.[^']*|[^'\\])'", s[i:])
            if m:
                cur.append(m.group(0))
                i += len(m.group(0))
                continue
        if c in "([{":
            depth += 1
        elif c in ")]}":
            depth -= 1
        elif c == "<" and i + 1 < n and s[i + 1] not in "=< ":
            depth += 1
        elif c == ">" and i > 0 and s[i - 1] not in "-=" and depth > 0 and s[i - 1] != " ":
            depth -= 1
        if c == sep and depth == 0:
            out.append("".join(cur).strip())
            cur = []
        else:
            cur.append(c)
        i += 1
    last = "".join(cur).strip()
    if last or out:
        out.append(last)
    return out


def match_paren(s, i):
    """s[i] is an opening ( [ or {; return index of the matching close (strings/chars skipped)"""
    op = s[i]
    cl = {"(": ")", "[": "]", "{": "}"}[op]
    depth = 0
    n = len(s)
    j = i
    while j < n:
        c = s[j]
        if c == '"':
            j += 1
            while j < n and s[j] != '"':
                if s[j] == "\\":
                    j += 1
                j += 1
        elif c == "'":
            m = re.match(r"'(\\.[^']*|[^'\\])'", s[j:])
            if m:
                j += len(m.group(0)) - 1
        elif c == op:
            depth += 1
        elif c == cl:
            depth -= 1
            if depth == 0:
                return j
        j += 1
    raise ParseError("unbalanced: " + s[i:i + 60])


def parse_place(s):
    s = s.strip()
    m = re.fullmatch(r"_(\d+)", s)
    if m:
        return Place(int(m.group(1)))
    if s.startswith("(*") and match_paren(s, 0) == len(s) - 1:
        inner = parse_place(s[2:-1])
        return Place(inner.local, inner.proj + (("deref",),))
    if s.startswith("(") and match_paren(s, 0) == len(s) - 1:
        body = s[1:-1]
        # (P as Variant)
        m = re.match(r"^(.*) as ([A-Za-z_][A-Za-z0-9_]*)$", body)
        if m and _balanced(m.group(1)):
            inner = parse_place(m.group(1))
            return Place(inner.local, inner.proj + (("downcast", m.group(2)),))
        # (P.N: Type)  -- P may itself be parenthesised
        k = _find_field_colon(body)
        if k is not None:
            left = body[:k]
            dot = left.rfind(".")
            inner = parse_place(left[:dot])
            return Place(inner.local, inner.proj + (("field", int(left[dot + 1:])),))
    # P[_i] / P[N of M] / P[-N of M]
    if s.endswith("]"):
        # find the matching [
        depth = 0
        for j in range(len(s) - 1, -1, -1):
            if s[j] == "]":
                depth += 1
            elif s[j] == "[":
                depth -= 1
                if depth == 0:
                    break
        inner = parse_place(s[:j])
        idx = s[j + 1:-1].strip()
        m = re.fullmatch(r"_(\d+)", idx)
        if m:
            return Place(inner.local, inner.proj + (("index", int(m.group(1))),))
        m = re.fullmatch(r"(-?)(\d+) of (\d+)", idx)
        if m:
            return Place(inner.local, inner.proj + (("constindex", int(m.group(2)), m.group(1) == "-"),))
    raise ParseError("place: " + s)


def _balanced(s):
    d = 0
    for c in s:
        if c in "([{":
            d += 1
        elif c in ")]}":
            d -= 1
            if d < 0:
                return False
    return d == 0


def _find_field_colon(body):
    """index of the ': ' that separates `P.N` from the type in `(P.N: Type)`"""
    depth = 0
    for i, c in enumerate(body):
        if c in "([{":
            depth += 1
        elif c in ")]}":
            depth -= 1
        elif c == ":" and depth == 0 and body[i + 1:i + 2] == " ":
            left = body[:i]
            if re.search(r"\.\d+$", left):
                return i
            return None
    return None


def parse_const(s):
    s = s.strip()
    if s in ("true", "false"):
        return Const("bool", s == "true")
    if s == "()":
        return Const("unit", None)
    m = re.fullmatch(r"(-?\d+)_([iu](?:8|16|32|64|128|size))", s)
    if m:
        return Const("int", int(m.group(1)), m.group(2))
    m = re.fullmatch(r"(-?[\d.eE+-]+)_?(f32|f64)", s)
    if m:
        return Const("float", m.group(1), m.group(2))
    if s.startswith("'"):
        return Const("char", _unescape_char(s[1:-1]), "char")
    if s.startswith('b"'):
        return Const("bytes", _unescape_bytes(s[2:-1]))
    if s.startswith('"'):
        return Const("str", _unescape_bytes(s[1:-1]))
    if s.startswith("ZeroSized: "):
        return Const("zst", s[len("ZeroSized: "):])
    return Const("named", s)


def _unescape_char(body):
    b = _unescape_bytes(body)
    return ord(b.decode("utf-8"))


def _unescape_bytes(body):
    out = bytearray()
    i = 0
    n = len(body)
    while i < n:
        c = body[i]
        if c == "\\":
            d = body[i + 1]
            if d == "x":
                out.append(int(body[i + 2:i + 4], 16))
                i += 4
                continue
            if d == "u":
                j = body.index("}", i)
                out += chr(int(body[i + 3:j], 16)).encode("utf-8")
                i = j + 1
                continue
            out += {"n": b"\n", "t": b"\t", "r": b"\r", "0": b"\0", "\\": b"\\", "'": b"'", '"': b'"'}[d]
            i += 2
            continue
        out += c.encode("utf-8")
        i += 1
    return bytes(out)


def parse_operand(s):
    s = s.strip()
    if s.startswith("no_retag "):
        s = s[len("no_retag "):]
    if s.startswith("copy "):
        return Operand("copy", parse_place(s[5:]))
    if s.startswith("move "):
        return Operand("move", parse_place(s[5:]))
    if s.startswith("const "):
        return Operand("const", parse_const(s[6:]))
    if re.match(r"^[A-Za-z_<]", s) and "::" in s:
        # bare function item used as a value (e.g. a parser function passed as an argument)
        return Operand("const", Const("fnitem", s))
    raise ParseError("operand: " + s)


def parse_rvalue(s):
    s = s.strip()
    if s.startswith("no_retag "):
        s = s[len("no_retag "):]
    if s.startswith("&mut "):
        return Rvalue("ref", place=parse_place(s[5:]), mut=True)
    if s.startswith("&raw const ") or s.startswith("&raw mut "):
        rest = s.split(" ", 2)[2]
        if rest.startswith("(fake) "):          # `&raw const (fake) (*_p)`: pointer taken only for PtrMetadata (bounds checks)
            rest = rest[len("(fake) "):]
        return Rvalue("ref", place=parse_place(rest), mut=True)
    if s.startswith("&"):
        return Rvalue("ref", place=parse_place(s[1:]), mut=False)
    if s.startswith("discriminant("):
        return Rvalue("discriminant", place=parse_place(s[len("discriminant("):-1]))
    if s.startswith("Len("):
        return Rvalue("len", place=parse_place(s[4:-1]))
    m = re.match(r"^([A-Za-z]+)\(", s)
    if m and m.group(1) in BINOPS and match_paren(s, len(m.group(1))) == len(s) - 1:
        a, b = split_top(s[len(m.group(1)) + 1:-1])
        return Rvalue("binop", op=m.group(1), a=parse_operand(a), b=parse_operand(b))
    if m and m.group(1) in UNOPS and match_paren(s, len(m.group(1))) == len(s) - 1:
        return Rvalue("unop", op=m.group(1), a=parse_operand(s[len(m.group(1)) + 1:-1]))
    # cast: `<operand> as <ty> (Kind)`
    m = re.match(r"^((?:copy|move|const) .*) as (.+) \(([A-Za-z]+(?:\([^)]*\))?)\)$", s)
    if m:
        return Rvalue("cast", a=parse_operand(m.group(1)), ty=m.group(2), cast=m.group(3))
    if s.startswith(("copy ", "move ", "const ")):
        return Rvalue("use", a=parse_operand(s))
    if s.startswith("(") and match_paren(s, 0) == len(s) - 1:
        items = split_top(s[1:-1])
        items = [i for i in items if i != ""]
        return Rvalue("tuple", items=[parse_operand(i) for i in items])
    if s.startswith("[") and match_paren(s, 0) == len(s) - 1:
        body = s[1:-1]
        parts = split_top(body, ";")
        if len(parts) == 2:
            return Rvalue("repeat", a=parse_operand(parts[0]), count=parts[1].strip())
        return Rvalue("array", items=[parse_operand(i) for i in split_top(body) if i != ""])
    # closure aggregate: {closure@...} { a: move _9, .. }
    if s.startswith("{closure@") or s.startswith("{coroutine@"):
        e = match_paren(s, 0)
        name = s[:e + 1]
        rest = s[e + 1:].strip()
        caps = []
        if rest.startswith("{"):
            for it in split_top(rest[1:-1]):
                if it:
                    k = it.index(":")
                    caps.append((it[:k].strip(), parse_operand(it[k + 1:])))
        return Rvalue("closure", name=name, captures=caps)
    # ADT aggregate: Path::Variant(ops) | Path::Variant | Path { f: op, .. }
    if s.endswith(")"):
        # find the opening paren that matches the final one
        depth = 0
        for j in range(len(s) - 1, -1, -1):
            if s[j] == ")":
                depth += 1
            elif s[j] == "(":
                depth -= 1
                if depth == 0:
                    break
        path = s[:j].strip()
        items = [i for i in split_top(s[j + 1:-1]) if i != ""]
        return Rvalue("adt", path=path, items=[parse_operand(i) for i in items], named=None)
    if s.endswith("}"):
        j = s.index("{") if not s.startswith("{") else None
        if j is not None:
            path = s[:j].strip()
            fields = []
            for it in split_top(s[j + 1:-1]):
                if it:
                    k = it.index(":")
                    fields.append((it[:k].strip(), parse_operand(it[k + 1:])))
            return Rvalue("adt", path=path, items=[f[1] for f in fields], named=[f[0] for f in fields])
    if re.fullmatch(r"[A-Za-z_<][^ ]*", s) or "::" in s:
        return Rvalue("adt", path=s, items=[], named=None)
    raise ParseError("rvalue: " + s)


def parse_targets(s):
    """`[0: bb3, otherwise: bb2]` -> list of (value|None, bb)"""
    out = []
    for it in split_top(s.strip()[1:-1]):
        k, v = it.split(":")
        v = int(v.strip()[2:])
        k = k.strip()
        out.append((None if k == "otherwise" else int(k), v))
    return out


def parse_line(line):
    """returns ('stmt', Stmt) or ('term', Term)"""
    s = line.strip()
    if s.endswith(";"):
        s = s[:-1]
    if s == "return":
        return "term", Term("return")
    if s == "unreachable":
        return "term", Term("unreachable")
    if s.startswith("resume") or s.startswith("terminate"):
        return "term", Term("resume")
    if s == "nop" or s.startswith(("StorageLive", "StorageDead", "FakeRead", "PlaceMention", "Retag", "AscribeUserType", "Coverage", "ConstEvalCounter", "BackwardIncompatibleDropHint")):
        return "stmt", Stmt("nop")
    m = re.fullmatch(r"goto -> bb(\d+)", s)
    if m:
        return "term", Term("goto", target=int(m.group(1)))
    if s.startswith("switchInt("):
        e = match_paren(s, len("switchInt"))
        op = parse_operand(s[len("switchInt("):e])
        tg = s[e + 1:].strip()
        assert tg.startswith("->")
        return "term", Term("switch", op=op, targets=parse_targets(tg[2:].strip()))
    if s.startswith("drop("):
        e = match_paren(s, 4)
        m = re.search(r"return: bb(\d+)", s[e:])
        return "term", Term("drop", place=s[5:e], target=int(m.group(1)))
    if s.startswith("assert("):
        e = match_paren(s, 6)
        args = split_top(s[7:e])
        cond = args[0].strip()
        neg = cond.startswith("!")
        m = re.search(r"success: bb(\d+)", s[e:])
        return "term", Term("assert", cond=parse_operand(cond[1:] if neg else cond), neg=neg, msg=args[1] if len(args) > 1 else "", target=int(m.group(1)))
    if s.startswith("deinit(") or s.startswith("assume("):
        return "stmt", Stmt("nop")
    if s.startswith("discriminant("):
        e = match_paren(s, len("discriminant"))
        m = re.match(r"\s*=\s*(\d+)", s[e + 1:])
        return "stmt", Stmt("setdiscr", place=parse_place(s[len("discriminant("):e]), idx=int(m.group(1)))
    # assignment or call
    k = _find_assign(s)
    if k is None:
        return "stmt", Stmt("unsupported", text=s)
    lhs = s[:k].strip()
    rhs = s[k + 1:].strip()
    m = re.search(r"\) -> (\[return: bb(\d+), unwind[^\]]*\]|unwind [a-z]+(?:\([a-z]+\))?|\[return: bb(\d+)\]|unwind: bb\d+|bb\d+)$", rhs)
    if m:
        callpart = rhs[:m.start() + 1]
        # find the paren that matches the last ')'
        depth = 0
        for j in range(len(callpart) - 1, -1, -1):
            if callpart[j] == ")":
                depth += 1
            elif callpart[j] == "(":
                depth -= 1
                if depth == 0:
                    break
        func = callpart[:j].strip()
        args = [a for a in split_top(callpart[j + 1:-1]) if a != ""]
        tm = re.search(r"return: bb(\d+)", m.group(1))
        try:
            pargs = [parse_operand(a) for a in args]
        except ParseError as e:
            return "term", Term("unsupported", text=s, why=str(e))
        fop = None
        if func.startswith(("move ", "copy ")):
            fop = parse_operand(func)
        return "term", Term("call", dest=parse_place(lhs), func=func, fop=fop, args=pargs, target=int(tm.group(1)) if tm else None)
    try:
        return "stmt", Stmt("assign", place=parse_place(lhs), rv=parse_rvalue(rhs))
    except ParseError as e:
        return "stmt", Stmt("unsupported", text=s, why=str(e))


def _find_assign(s):
    depth = 0
    for i, c in enumerate(s):
        if c in "([{":
            depth += 1
        elif c in ")]}":
            depth -= 1
        elif c == "=" and depth == 0 and s[i - 1] == " " and s[i + 1:i + 2] == " ":
            return i
    return None


FN_RE = re.compile(r"^(?:fn|const|static(?: mut)?) (.+?)(\(.*\))? (?:->|:) (.+?) (?:= )?\{$")


def parse_mir(text):
    """returns dict name -> list[Function] (names are not always unique: trait impls at the same span)"""
    funcs = {}
    lines = text.split("\n")
    i = 0
    n = len(lines)
    while i < n:
        line = lines[i]
        m1 = re.match(r"^(?:const|static(?: mut)?) (.+?): ([^=]+) = (const .+);$", line)
        if m1:
            try:
                st = Stmt("assign", place=Place(0), rv=Rvalue("use", a=parse_operand(m1.group(3))))
                f = Function(m1.group(1).strip(), [], m1.group(2).strip(), {}, {0: Block(0, [st], Term("return"), False)}, i + 1)
                funcs.setdefault(f.name, []).append(f)
            except ParseError:
                pass
            i += 1
            continue
        if (line.startswith("fn ") or line.startswith("const ") or line.startswith("static ")) and line.endswith("{"):
            hdr = line
            m = re.match(r"^fn (.+)$", hdr)
            start = i
            # header: fn NAME(PARAMS) -> RET {   (params may contain parens)
            if hdr.startswith("fn "):
                body = hdr[3:-1].rstrip()
                # name ends at the '(' that opens the param list: find first '(' at angle-depth 0 not part of `<impl at ...>`
                k = _param_open(body)
                name = body[:k]
                pe = match_paren(body, k)
                params_txt = body[k + 1:pe]
                ret = body[pe + 1:].strip()
                ret = ret[2:].strip() if ret.startswith("->") else "()"
                params = []
                for p in split_top(params_txt):
                    if p:
                        pm = re.match(r"_(\d+): (.*)$", p)
                        params.append((int(pm.group(1)), pm.group(2)))
            else:
                m = re.match(r"^(?:const|static(?: mut)?) (.+) = \{$", hdr)
                if not m:
                    i += 1
                    continue
                body = m.group(1)
                depth = 0
                cut = None
                for k, c in enumerate(body):
                    if c == "<":
                        depth += 1
                    elif c == ">" and body[k - 1] != "-":
                        depth -= 1
                    elif c == ":" and depth == 0 and body[k + 1:k + 2] == " " and body[k - 1] != ":":
                        cut = k
                        break
                if cut is None:
                    i += 1
                    continue
                name, ret, params = body[:cut], body[cut + 2:], []
            i += 1
            locals_ = {}
            blocks = {}
            cur = None
            while i < n and lines[i] != "}":
                l = lines[i]
                ls = l.strip()
                lm = re.match(r"^let (?:mut )?_(\d+): (.*);$", ls)
                if lm:
                    locals_[int(lm.group(1))] = lm.group(2)
                else:
                    bm = re.match(r"^bb(\d+)( \(cleanup\))?: \{$", ls)
                    if bm:
                        cur = Block(int(bm.group(1)), [], None, bool(bm.group(2)))
                        blocks[cur.idx] = cur
                    elif cur is not None and ls == "}":
                        cur = None
                    elif cur is not None and ls:
                        if cur.cleanup:
                            pass
                        else:
                            try:
                                kind, node = parse_line(ls)
                            except (ParseError, AssertionError, ValueError, IndexError, KeyError, AttributeError) as e:
                                kind, node = "stmt", Stmt("unsupported", text=ls, why=repr(e))
                            if kind == "stmt":
                                cur.stmts.append(node)
                            else:
                                cur.term = node
                i += 1
            for pi, pt in params:
                locals_[pi] = pt
            f = Function(name.strip(), params, ret, locals_, blocks, start + 1)
            funcs.setdefault(f.name, []).append(f)
        i += 1
    return funcs


def _param_open(body):
    depth = 0
    i = 0
    n = len(body)
    while i < n:
        c = body[i]
        if c == "<":
            depth += 1
        elif c == ">" and body[i - 1] != "-":
            depth -= 1
        elif c == "{":
            i = match_paren(body, i)
        elif c == "(" and depth == 0:
            return i
        i += 1
    raise ParseError("fn header: " + body)
