"""Bounded symbolic executor for the MIR subset parsed by mir.py, on top of z3.

Design (see DESIGN.md §9):
  * integers, chars and bools are z3 terms; strings are views (base byte list, start, end) with
    CONCRETE bounds and symbolic byte contents; enums always have a concrete variant.
  * every data-dependent branch (switchInt on a non-constant, a string primitive that has to know
    whether a byte matches a pattern, an assert) is a `decide(cond)`: the solver is asked whether
    cond / not cond are satisfiable under the current path condition; feasible sides are explored
    (depth-first, by re-execution from the entry with the recorded decision prefix).
  * a path ends in Return(value) or Panic(msg); the harness then asks the solver whether the
    property can be violated under that path's condition (unsat = holds for every input on the path).
  * calls are resolved to MIR bodies of the crate when they exist, to the closure bodies for
    `Fn::call`, and otherwise to the intrinsics (hand-written models of std functions, listed in
    INTRINSICS and reported in the evidence as trusted base).
"""
import os
import re
import time

import z3

import mir as M


class Unsupported(Exception):
    pass


NAMED_CONST_HOOKS = []     # functions (executor, const path) -> value or None; the intrinsics register models of associated constants here


class PathEnd(Exception):
    def __init__(self, kind, val):
        self.kind = kind    # 'panic'
        self.val = val


class Redo(Exception):
    pass


# ---------------------------------------------------------------------------------------------------
# values
# ---------------------------------------------------------------------------------------------------
WIDTH = {"u8": 8, "i8": 8, "u16": 16, "i16": 16, "u32": 32, "i32": 32, "u64": 64, "i64": 64, "u128": 128, "i128": 128,
         "usize": 64, "isize": 64, "char": 32, "bool": 1}


class Int:
    __slots__ = ("e", "ty")

    def __init__(self, e, ty):
        if isinstance(e, int):
            e = z3.BitVecVal(e, WIDTH[ty])
        self.e = e
        self.ty = ty

    @property
    def signed(self):
        return self.ty.startswith("i")

    def conc(self):
        s = z3.simplify(self.e)
        if z3.is_bv_value(s):
            v = s.as_long()
            if self.signed and v >= 1 << (WIDTH[self.ty] - 1):
                v -= 1 << WIDTH[self.ty]
            return v
        return None

    def __repr__(self):
        return "Int(%s:%s)" % (z3.simplify(self.e), self.ty)


class Bool:
    __slots__ = ("e",)

    def __init__(self, e):
        if isinstance(e, bool):
            e = z3.BoolVal(e)
        self.e = e

    def conc(self):
        s = z3.simplify(self.e)
        if z3.is_true(s):
            return True
        if z3.is_false(s):
            return False
        return None

    def __repr__(self):
        return "Bool(%s)" % z3.simplify(self.e)


class Unit:
    def __repr__(self):
        return "()"


UNIT = Unit()


class Tup:
    __slots__ = ("items",)

    def __init__(self, items):
        self.items = list(items)

    def __repr__(self):
        return "Tup%r" % (self.items,)


class Adt:
    """enum or struct value with a concrete variant"""
    __slots__ = ("ty", "variant", "fields")

    def __init__(self, ty, variant, fields=()):
        self.ty = ty
        self.variant = variant
        self.fields = list(fields)

    def __repr__(self):
        return "%s::%s%r" % (self.ty, self.variant, self.fields)


class Str:
    """&str / String / &[u8] over a base list of z3 8-bit terms, concrete bounds"""
    __slots__ = ("base", "start", "end", "owned")

    def __init__(self, base, start=0, end=None, owned=False):
        self.base = base
        self.start = start
        self.end = len(base) if end is None else end
        self.owned = owned

    def __len__(self):
        return self.end - self.start

    def byte(self, i):
        return self.base[self.start + i]

    def bytes(self):
        return self.base[self.start:self.end]

    def sub(self, a, b=None):
        b = len(self) if b is None else b
        assert 0 <= a <= b <= len(self)
        return Str(self.base, self.start + a, self.start + b)

    @staticmethod
    def lit(bs):
        return Str([z3.BitVecVal(b, 8) for b in bs])

    def __repr__(self):
        return "Str[%s]" % ",".join(str(z3.simplify(b)) for b in self.bytes())


class Arr:
    __slots__ = ("items",)

    def __init__(self, items):
        self.items = list(items)

    def __repr__(self):
        return "Arr%r" % (self.items,)


class VecV:
    """Vec<T> / owned buffer: python list of values, mutated in place through &mut (each path re-executes from scratch)"""
    __slots__ = ("items",)

    def __init__(self, items=()):
        self.items = list(items)

    def __repr__(self):
        return "Vec%r" % (self.items,)


class Cell:
    __slots__ = ("v",)

    def __init__(self, v=None):
        self.v = v


class Ref:
    __slots__ = ("cell", "proj")

    def __init__(self, cell, proj=()):
        self.cell = cell
        self.proj = tuple(proj)

    def __repr__(self):
        return "Ref(%r%s)" % (self.cell.v, self.proj if self.proj else "")


class Closure:
    __slots__ = ("name", "caps")

    def __init__(self, name, caps=()):
        self.name = name
        self.caps = list(caps)

    def __repr__(self):
        return "Closure(%s)" % self.name


class FnItem:
    """a function used as a value"""
    __slots__ = ("name",)

    def __init__(self, name):
        self.name = name

    def __repr__(self):
        return "FnItem(%s)" % self.name


class Opaque:
    """value whose content the properties never look at (fmt::Arguments, error message Strings...)"""
    __slots__ = ("tag", "payload")

    def __init__(self, tag, payload=None):
        self.tag = tag
        self.payload = payload

    def __repr__(self):
        return "Opaque(%s)" % self.tag


# enum discriminants that switchInt may look at
DISCR = {
    "Option": {"None": 0, "Some": 1},
    "Result": {"Ok": 0, "Err": 1},
    "ControlFlow": {"Continue": 0, "Break": 1},
    "Ordering": {"Less": -1, "Equal": 0, "Greater": 1},
    "Cow": {"Borrowed": 0, "Owned": 1},
    "Entry": {"Vacant": 0, "Occupied": 1},
    "Component": {"Prefix": 0, "RootDir": 1, "CurDir": 2, "ParentDir": 3, "Normal": 4},
}


_ENUMS = {}
_CONSTS = {}


def _crate_consts():
    """integer `const NAME: ty = literal;` items of the repository (for enum discriminant expressions)"""
    if not _CONSTS:
        import glob
        for p in glob.glob(os.path.join(REPO_ROOT[0], "src", "**", "*.rs"), recursive=True):
            try:
                txt = open(p).read()
            except OSError:
                continue
            for m in re.finditer(r"\bconst\s+(\w+)\s*:\s*[iu](?:8|16|32|64|size)\s*=\s*([0-9xXa-fA-F_o]+)\s*;", txt):
                try:
                    _CONSTS[m.group(1)] = int(m.group(2).replace("_", ""), 0)
                except ValueError:
                    pass
        _CONSTS.setdefault("_", 0)
    return _CONSTS


def crate_enum_discr(ty):
    """variant -> discriminant for an enum declared in the repository (parsed from the source)"""
    if not _ENUMS:
        import glob
        deferred = []
        for p in glob.glob(os.path.join(REPO_ROOT[0], "src", "**", "*.rs"), recursive=True):
            try:
                txt = open(p).read()
            except OSError:
                continue
            for m in re.finditer(r"\benum\s+(\w+)\s*(?:<[^>]*>)?\s*\{", txt):
                i = m.end()
                depth = 1
                j = i
                while j < len(txt) and depth:
                    if txt[j] == "{":
                        depth += 1
                    elif txt[j] == "}":
                        depth -= 1
                    j += 1
                body = txt[i:j - 1]
                body = re.sub(r"//[^\n]*", "", body)
                body = re.sub(r"#\[[^\]]*\]", "", body)
                variants = {}
                nxt = 0
                ok = True
                d = 0
                cur = ""
                items = []
                for ch in body:
                    if ch in "({[":
                        d += 1
                    elif ch in ")}]":
                        d -= 1
                    if ch == "," and d == 0:
                        items.append(cur)
                        cur = ""
                    else:
                        cur += ch
                items.append(cur)
                for it in items:
                    it = it.strip()
                    if not it:
                        continue
                    vm = re.match(r"(\w+)\s*(?:\(.*\)|\{.*\})?\s*(?:=\s*(.+))?$", it, re.S)
                    if not vm:
                        ok = False
                        break
                    if vm.group(2):
                        try:
                            nxt = int(vm.group(2).strip().replace("_", ""), 0)
                        except ValueError:
                            try:
                                nxt = int(eval(vm.group(2).strip(), {"__builtins__": {}}, _crate_consts()))
                            except Exception:  # noqa: BLE001
                                deferred.append((m.group(1), vm.group(1), vm.group(2).strip()))
                                nxt = 0
                                continue
                    variants[vm.group(1)] = nxt
                    nxt += 1
                if ok and variants:
                    _ENUMS.setdefault(m.group(1), variants)
        for en, var, expr in deferred:
            mm = re.match(r"^(\w+)::(\w+)\s+as\s+\w+$", expr)
            if mm and en in _ENUMS and mm.group(1) in _ENUMS and mm.group(2) in _ENUMS[mm.group(1)]:
                _ENUMS[en][var] = _ENUMS[mm.group(1)][mm.group(2)]
    return _ENUMS.get(ty)


def short_ty(path):
    """'std::option::Option::<usize>' -> 'Option'"""
    p = re.sub(r"::<.*$", "", path)
    p = re.sub(r"<.*>", "", p)
    return p.split("::")[-1]


def ordering(name):
    return Adt("Ordering", name)


def some(v):
    return Adt("Option", "Some", [v])


NONE = Adt("Option", "None")


def usize(n):
    return Int(n, "usize")


# ---------------------------------------------------------------------------------------------------
# executor
# ---------------------------------------------------------------------------------------------------
class Stats:
    def __init__(self):
        self.paths = 0
        self.decisions = 0
        self.solver_calls = 0
        self.solver_s = 0.0
        self.steps = 0
        self.functions = set()
        self.intrinsics = set()
        self.max_depth = 0


IMPL_RE = re.compile(r"<impl at ([^:>]+):(\d+):(\d+): (\d+):(\d+)>")
_SRC_CACHE = {}
REPO_ROOT = ["/repo"]


def impl_info(name):
    """(trait|None, self_type) of the impl block a MIR function name like `m::<impl at FILE:L:C: L:C>::f` belongs to,
    read from the source text at that span."""
    m = IMPL_RE.search(name)
    if not m:
        return None
    key = m.group(0)
    if key in _SRC_CACHE:
        return _SRC_CACHE[key]
    path = os.path.join(REPO_ROOT[0], m.group(1))
    try:
        lines = open(path).read().split("\n")
    except OSError:
        _SRC_CACHE[key] = None
        return None
    l0, c0, l1, c1 = (int(m.group(i)) for i in range(2, 6))
    text = lines[l0 - 1][c0 - 1:] if l0 != l1 else lines[l0 - 1][c0 - 1:c1 - 1]
    info = None
    mm = re.match(r"impl\s*(?:<[^>]*>)?\s*(?:(.+?)\s+for\s+)?(.+)$", text.strip())
    if mm:
        tr = mm.group(1)
        ty = mm.group(2)
        info = (base_name(tr) if tr else None, base_name(ty))
    else:
        # derive(...) span: the trait name is the span text, the type is the next struct/enum declaration
        tr = text.strip()
        for k in range(l0 - 1, min(len(lines), l0 + 40)):
            dm = re.match(r"\s*(?:pub(?:\([a-z]+\))?\s+)?(?:struct|enum)\s+(\w+)", lines[k])
            if dm:
                info = ("derive:" + base_name(tr), dm.group(1))
                break
    _SRC_CACHE[key] = info
    return info


def impl_generics(name):
    """type parameter names of the impl block of a MIR function (from the source text `impl<'a, T: Bound> ...`)"""
    m = IMPL_RE.search(name)
    if not m:
        return []
    path = os.path.join(REPO_ROOT[0], m.group(1))
    try:
        line = open(path).read().split("\n")[int(m.group(2)) - 1][int(m.group(3)) - 1:]
    except (OSError, IndexError):
        return []
    mm = re.match(r"impl\s*<([^>]*)>", line.strip())
    if not mm:
        return []
    out = []
    for p in mm.group(1).split(","):
        p = p.strip()
        if p and not p.startswith("'"):
            out.append(p.split(":")[0].strip())
    return out


def base_name(t):
    """`std::fmt::Display` -> Display ; `Evr<'a>` -> Evr ; `&'a str` -> str ; `(&str, &str)` -> tuple"""
    t = t.strip()
    t = re.sub(r"^&\s*('\w+\s+)?(mut\s+)?", "", t)
    if t.startswith("("):
        return "tuple"
    t = re.sub(r"<.*$", "", t)
    return t.split("::")[-1].strip()


class Exec:
    def __init__(self, funcs, intrinsics, max_steps=200000):
        self.funcs = funcs
        self.by_method = {}
        for name, fl in funcs.items():
            if "<impl at " in name and "{closure" not in name:
                meth = name.split("::")[-1]
                for f in fl:
                    self.by_method.setdefault(meth, []).append(f)
        self.intr = intrinsics
        self.max_steps = max_steps
        self.stats = Stats()
        self.closure_map = {}
        for name, fl in funcs.items():
            for f in fl:
                if "{closure#" in name and f.params:
                    t = f.params[0][1]
                    m = re.search(r"\{closure@[^}]*\}", t)
                    if m:
                        self.closure_map[m.group(0)] = f
        # per-path state
        self.solver = None
        self.prefix = []
        self.trace = []
        self.worklist = []
        self.steps = 0
        self.promoted_cache = {}
        self.overrides = {}    # stubs that take precedence over the crate's own MIR bodies (listed in the evidence as override:<name>)
        self.type_env = {}     # bindings for generic type parameters of the entry function (e.g. {"T": "IndexTag"})

    # ---- solver / forking -------------------------------------------------------------------------
    def _check(self, *extra):
        t = time.time()
        self.solver.push()
        for e in extra:
            self.solver.add(e)
        r = self.solver.check()
        if r == z3.sat:
            self.last_model = self.solver.model()
        # the model of the most recent satisfiable query: a harness that has just asked "can the property fail here?" takes its witness from it
        self.check_model = self.last_model if r == z3.sat else None
        self.solver.pop()
        self.stats.solver_calls += 1
        self.stats.solver_s += time.time() - t
        if r == z3.unknown:
            raise Unsupported("solver returned unknown")
        return r == z3.sat

    def witness_model(self):
        """an input of this path; if the last query the harness made was satisfiable, the input that satisfied it"""
        m = getattr(self, "check_model", None)
        if m is not None:
            return m
        assert self.solver.check() == z3.sat
        return self.solver.model()

    def decide(self, cond):
        """cond: z3 Bool. Returns the branch taken on this path (python bool)."""
        if isinstance(cond, bool):
            return cond
        c = z3.simplify(cond)
        if z3.is_true(c):
            return True
        if z3.is_false(c):
            return False
        i = len(self.trace)
        if i < len(self.prefix):
            choice = self.prefix[i]
            if self.model is not None:
                mv = self.model.eval(c, model_completion=True)
                if not ((z3.is_true(mv) and choice) or (z3.is_false(mv) and not choice)):
                    self.model = None
        else:
            # model-guided: the cached model of the current path condition already witnesses one side
            self.stats.decisions += 1
            side = None
            if self.model is None:
                if not self._check():
                    raise Unsupported("infeasible path condition")
                self.model = self.last_model
            if self.model is not None:
                mv = self.model.eval(c, model_completion=True)
                if z3.is_true(mv):
                    side = True
                elif z3.is_false(mv):
                    side = False
            if side is None:
                t_ok = self._check(c)
                f_ok = self._check(z3.Not(c))
            elif side:
                t_ok = True
                f_ok = self._check(z3.Not(c))
            else:
                f_ok = True
                t_ok = self._check(c)
            if t_ok and f_ok:
                choice = True
                self.worklist.append(self.trace + [False])
            elif t_ok:
                choice = True
            elif f_ok:
                choice = False
            else:
                raise Unsupported("infeasible path condition")
            if side is not None and choice != side:
                self.model = self.last_model
        self.trace.append(choice)
        self.solver.add(c if choice else z3.Not(c))
        return choice

    def run_all(self, setup, body, on_path):
        """setup(ex) -> adds input constraints to ex.solver and returns inputs;
        body(ex, inputs) -> result;  on_path(ex, inputs, outcome) is called at the end of each path."""
        self.worklist = [[]]
        while self.worklist:
            self.prefix = self.worklist.pop()
            self.trace = []
            self.steps = 0
            self.solver = z3.Solver()
            self.model = None
            self.last_model = None
            inputs = setup(self)
            if self.solver.check() != z3.sat:
                raise Unsupported("input constraints unsatisfiable")
            self.model = self.solver.model()
            try:
                out = ("return", body(self, inputs))
            except PathEnd as pe:
                out = (pe.kind, pe.val)
            self.stats.paths += 1
            self.stats.max_depth = max(self.stats.max_depth, len(self.trace))
            on_path(self, inputs, out)

    # ---- function calls -----------------------------------------------------------------------------
    def call_fn(self, f, args):
        self.stats.functions.add(f.name)
        cells = {}
        for (pi, _pt), a in zip(f.params, args):
            cells[pi] = Cell(a)
        frame = cells
        bb = 0
        while True:
            blk = f.blocks[bb]
            for st in blk.stmts:
                self.steps += 1
                try:
                    self.exec_stmt(f, frame, st)
                except Unsupported as u:
                    if " [in " not in str(u):
                        raise Unsupported("%s [in %s bb%d: %s = %s]" % (u, f.name[-60:], bb, getattr(st, "place", ""), getattr(getattr(st, "rv", None), "kind", "")))
                    raise
            self.steps += 1
            self.stats.steps += 1
            if self.steps > self.max_steps:
                raise Unsupported("step bound exceeded")
            t = blk.term
            k = t.kind
            if k == "goto":
                bb = t.target
            elif k == "return":
                c = frame.get(0)
                return c.v if c is not None and c.v is not None else UNIT
            elif k == "switch":
                v = self.eval_operand(frame, t.op)
                bb = self.do_switch(v, t.targets)
            elif k == "call":
                args2 = [self.eval_operand(frame, a) for a in t.args]
                fval = self.eval_operand(frame, t.fop) if t.fop is not None else None
                r = self.do_call(t.func, args2, fval)
                self.write_place(frame, t.dest, r)
                if t.target is None:
                    raise Unsupported("diverging call returned: " + t.func)
                bb = t.target
            elif k == "drop":
                # Drop impls that matter are modelled on the python objects standing for std types (e.g. BufWriter flushes on drop)
                try:
                    dv = self.read_place(frame, M.parse_place(t.place))
                    if hasattr(dv, "on_drop"):
                        dv.on_drop(self)
                except Unsupported:
                    pass
                bb = t.target
            elif k == "assert":
                v = self.eval_operand(frame, t.cond)
                ok = z3.Not(v.e) if t.neg else v.e
                if self.decide(ok):
                    bb = t.target
                else:
                    raise PathEnd("panic", "assert: " + t.msg)
            elif k == "unreachable":
                raise Unsupported("reached `unreachable` terminator in " + f.name)
            else:
                raise Unsupported("terminator %s in %s: %s" % (k, f.name, getattr(t, "text", "")))

    def do_switch(self, v, targets):
        if isinstance(v, Bool):
            e = z3.If(v.e, z3.BitVecVal(1, 8), z3.BitVecVal(0, 8))
            w = 8
        else:
            e = v.e
            w = e.size()
        other = None
        for val, bb in targets:
            if val is None:
                other = bb
                continue
            if self.decide(e == z3.BitVecVal(val, w)):
                return bb
        if other is None:
            raise Unsupported("switchInt fell through")
        return other

    def do_call(self, func, args, fval=None):
        name = norm_fn(func)
        if fval is not None:
            raise Unsupported("indirect call")
        # closure call through the Fn traits
        if re.search(r" as Fn(Mut|Once)?<.*>>::call(_mut|_once)?$", func):
            clo = args[0]
            while isinstance(clo, Ref):
                clo = self.read_ref(clo)
            tup = args[1]
            if isinstance(clo, FnItem):
                return self.do_call(clo.name, list(tup.items))
            if hasattr(clo, "call"):
                return clo.call(self, list(tup.items))
            if not isinstance(clo, Closure):
                raise Unsupported("Fn::call on non-closure %r" % (clo,))
            return self.call_closure(clo, tup.items)
        if name in self.overrides:
            self.stats.intrinsics.add("override:" + name)
            return self.overrides[name](self, args, func)
        if name in ("panic", "core::panicking::panic", "std::rt::begin_panic", "panic_fmt", "core::panicking::panic_fmt"):
            raise PathEnd("panic", args[0] if args else "")
        if name in self.funcs and not name.startswith("<"):
            cands = self.funcs[name]
            if len(cands) == 1:
                return self.call_fn(cands[0], args)
        # methods of the crate's own impl blocks: `<X as Trait>::m`, `Type::m`
        m = re.match(r"^<(.*) as (.*)>::([A-Za-z_0-9]+)$", name)
        if m:
            selfn, traitn, meth = base_name(m.group(1)), base_name(m.group(2)), m.group(3)
            f = self.find_impl(meth, traitn, selfn)
            if f is None and traitn in ("From", "TryFrom"):
                # several `impl From<T> for X`: pick the one whose parameter type is the T of this call
                ga = re.search(r"From<(.*)>$", m.group(2).strip())
                if ga:
                    want = base_name(ga.group(1))
                    cands = [c for c in self.by_method.get(meth, []) if (impl_info(c.name) or (None, None))[1] == selfn and (impl_info(c.name)[0] or "").endswith(traitn)
                             and c.params and base_name(c.params[0][1]) == want]
                    if len(cands) == 1:
                        f = cands[0]
            if f is not None and args:
                # a receiver that is one of the harness/intrinsic model objects (scripted iterator, sink, ...) is served by its model
                rv0 = args[0]
                while isinstance(rv0, Ref):
                    rv0 = self.read_ref(rv0)
                if not isinstance(rv0, (Adt, Tup, Int, Bool, Str, Arr, VecV, Closure, Unit, Opaque, FnItem)):
                    f = None
            if f is None and selfn in self.type_env:
                f = self.find_impl(meth, traitn, self.type_env[selfn])
            if f is None and args:
                # generic self type (`<T as Trait>::m`): dispatch on the runtime type of the receiver
                rv = args[0]
                while isinstance(rv, Ref):
                    rv = self.read_ref(rv)
                if isinstance(rv, Adt):
                    f = self.find_impl(meth, traitn, rv.ty)
            if f is None and traitn == "Into":
                # blanket Into -> the crate's From impl for the target type
                tgt = re.search(r"Into<(.*)>$", m.group(2))
                if tgt and base_name(tgt.group(1)) == selfn:
                    return args[0]                      # reflexive impl<T> From<T> for T
                if tgt and args:
                    rv = args[0]
                    while isinstance(rv, Ref):
                        rv = self.read_ref(rv)
                    if isinstance(rv, Adt) and rv.ty == base_name(tgt.group(1)):
                        return args[0]                  # generic caller (`impl Into<X>`) instantiated with X itself
                if tgt:
                    f = self.find_impl("from", "From", base_name(tgt.group(1)))
            if f is not None:
                # std's forwarding impls (`impl<W: Write> Write for &mut W`, `impl<R: Read> Read for &mut R`, ...): a receiver that is a
                # reference to a reference is peeled down to one reference before the crate's impl on the underlying type runs
                if args and f.params and f.params[0][1].startswith("&") and isinstance(args[0], Ref):
                    a0 = args[0]
                    while isinstance(a0, Ref) and isinstance(self.read_ref(a0), Ref):
                        a0 = self.read_ref(a0)
                    args = [a0] + list(args[1:])
                return self.call_fn(f, args)
        else:
            parts = name.split("::")
            if len(parts) >= 2:
                f = self.find_impl(parts[-1], None, base_name(parts[-2]))
                if f is not None:
                    # bind the impl's generic type parameters from the turbofish on the type: `Header::<IndexTag>::parse`
                    tm = re.search(r"\b%s::<([^<>]*)>::%s\b" % (re.escape(parts[-2]), re.escape(parts[-1])), func)
                    gp = impl_generics(f.name)
                    if tm and gp:
                        targs = [base_name(a) for a in tm.group(1).split(",") if not a.strip().startswith("'")]
                        if len(targs) == len(gp) and not any(len(a) == 1 for a in targs):
                            saved = self.type_env
                            self.type_env = dict(saved)
                            self.type_env.update(dict(zip(gp, targs)))
                            try:
                                return self.call_fn(f, args)
                            finally:
                                self.type_env = saved
                    return self.call_fn(f, args)
        if name in self.intr:
            self.stats.intrinsics.add(name)
            return self.intr[name](self, args, func)
        # trait-qualified: dispatch on method name
        if m:
            key = "<_ as %s>::%s" % (base_name(m.group(2)), m.group(3))
            if key in self.intr:
                self.stats.intrinsics.add(key)
                return self.intr[key](self, args, func)
        # tuple-struct / variant constructor functions such as `errors::Error::InvalidFileCaps`
        raise Unsupported("no model for call: " + func + "  [" + name + "]")

    def find_impl(self, meth, traitn, selfn):
        out = []
        for f in self.by_method.get(meth, []):
            info = impl_info(f.name)
            if info and info[1] == selfn:
                tr = info[0]
                if tr == traitn or (traitn is not None and tr is not None and (tr.endswith(traitn) or (tr.startswith("derive:") and traitn is not None))):
                    out.append(f)
        if len(out) > 1 and traitn is not None:
            exact = [f for f in out if (impl_info(f.name)[0] or "").endswith(traitn)]
            if len(exact) == 1:
                out = exact
        return out[0] if len(out) == 1 else None

    def call_closure(self, clo, args):
        if isinstance(clo, FnItem):           # a function (path or trait method) used where a closure is expected
            return self.do_call(clo.name, list(args))
        if hasattr(clo, "call") and not isinstance(clo, Closure):
            return clo.call(self, list(args))
        f = self.closure_map.get(clo.name)
        if f is None:
            raise Unsupported("closure body not found: " + clo.name)
        self_ty = f.params[0][1]
        selfarg = clo if not self_ty.startswith("&") else Ref(Cell(clo))
        return self.call_fn(f, [selfarg] + list(args))

    def call_pattern(self, pat, ch):
        """does char `ch` (Int char) match pattern `pat`? -> z3 Bool"""
        if isinstance(pat, Ref):
            pat = self.read_ref(pat)
        if isinstance(pat, Closure):
            r = self.call_closure(pat, [ch])
            return r.e
        if isinstance(pat, Int):
            return ch.e == pat.e
        if isinstance(pat, Arr):
            return z3.Or([ch.e == p.e for p in pat.items])
        raise Unsupported("pattern %r" % (pat,))

    # ---- statements ---------------------------------------------------------------------------------
    def exec_stmt(self, f, frame, st):
        if st.kind == "nop":
            return
        if st.kind == "assign":
            v = self.eval_rvalue(f, frame, st.rv)
            if st.rv.kind == "discriminant" and not st.place.proj:
                ty = f.locals.get(st.place.local)
                if ty in WIDTH and WIDTH[ty] != 64:
                    v = Int(z3.Extract(WIDTH[ty] - 1, 0, v.e), ty)
                elif ty in WIDTH:
                    v = Int(v.e, ty)
            self.write_place(frame, st.place, v)
            return
        raise Unsupported("statement in %s: %s (%s)" % (f.name, getattr(st, "text", st.kind), getattr(st, "why", "")))

    def eval_operand(self, frame, op):
        if op.kind in ("copy", "move"):
            return self.read_place(frame, op.val)
        return self.eval_const(op.val)

    def eval_const(self, c):
        if c.kind == "int":
            return Int(c.val & ((1 << WIDTH[c.ty]) - 1), c.ty)
        if c.kind == "bool":
            return Bool(c.val)
        if c.kind == "char":
            return Int(c.val, "char")
        if c.kind == "unit":
            return UNIT
        if c.kind in ("str", "bytes"):
            return Str.lit(c.val)
        if c.kind == "zst":
            m = re.search(r"\{closure@[^}]*\}", c.val)
            if m:
                return Closure(m.group(0))
            return Opaque("zst:" + c.val)
        if c.kind == "fnitem":
            return FnItem(c.val)
        if c.kind == "named":
            return self.eval_named_const(c.val)
        raise Unsupported("const " + repr(c))

    def eval_named_const(self, name):
        # promoted constants and crate constants: run their MIR body
        if name in self.promoted_cache:
            return self.promoted_cache[name]
        cands = self.funcs.get(name) or self.funcs.get(re.sub(r"^[a-z_]+::", "", name))
        if cands is None:
            # `version::compare_version_string::promoted[1]` is printed as `compare_version_string::promoted[1]` in its header
            parts = name.split("::")
            for k in range(1, len(parts)):
                cands = self.funcs.get("::".join(parts[k:]))
                if cands:
                    break
        if not cands:
            pm = re.match(r"^<(.*) as (.*)>::(\w+)::(promoted\[\d+\])$", name)
            if pm:
                f = self.find_impl(pm.group(3), base_name(pm.group(2)), base_name(pm.group(1)))
                if f is not None:
                    cands = self.funcs.get(f.name + "::" + pm.group(4))
            # `f::<impl Trait>::promoted[0]`: the `impl Trait` argument of the enclosing function is not part of the const's own name
            name_np = re.sub(r"::<impl [^<>]*>(?=::(?:promoted\[|[A-Z][A-Z_0-9]*$))", "", name)
            segs = strip_generics(name_np).split("::") if not cands else []
            if len(segs) >= 3 and not name.startswith("<"):
                f = self.find_impl(segs[-2], None, segs[-3])
                if f is not None:
                    cands = self.funcs.get(f.name + "::" + segs[-1])
            if not cands and len(segs) >= 2 and not name.startswith("<"):
                # associated constant of a type: `Type::NAME` is dumped as `module::<impl at ..>::NAME`
                hits = [k for k in self.funcs if k.endswith(">::" + segs[-1]) and (impl_info(k) or (None, None))[1] == segs[-2]]
                if len(hits) == 1:
                    cands = self.funcs.get(hits[0])
        if not cands:
            km = re.fullmatch(r"(?:core::num::<impl )?([iu](?:8|16|32|64|128|size))>?::(MAX|MIN|BITS)", name.strip())
            if km:
                ty, what = km.group(1), km.group(2)
                w = WIDTH[ty]
                if what == "BITS":
                    return Int(w, "u32")
                if ty.startswith("u"):
                    return Int((1 << w) - 1 if what == "MAX" else 0, ty)
                return Int(((1 << (w - 1)) - 1) if what == "MAX" else (1 << (w - 1)), ty)
        if not cands:
            m = re.fullmatch(r"Option::<.*>::None", name)
            if m:
                return NONE
            for hook in NAMED_CONST_HOOKS:
                hv = hook(self, name)
                if hv is not None:
                    return hv
            return Opaque("const:" + name)
        v = self.call_fn(cands[0], [])
        self.promoted_cache[name] = v
        return v

    def eval_rvalue(self, f, frame, rv):
        k = rv.kind
        if k == "use":
            return self.eval_operand(frame, rv.a)
        if k == "ref":
            return self.make_ref(frame, rv.place)
        if k == "tuple":
            return Tup([self.eval_operand(frame, o) for o in rv.items])
        if k == "array":
            return Arr([self.eval_operand(frame, o) for o in rv.items])
        if k == "discriminant":
            v = self.read_place(frame, rv.place)
            if isinstance(v, Adt):
                tbl = DISCR.get(v.ty) or crate_enum_discr(v.ty)
                if tbl is None or v.variant not in tbl:
                    raise Unsupported("discriminant of %s::%s" % (v.ty, v.variant))
                return Int(tbl[v.variant] & ((1 << 64) - 1), "isize")
            raise Unsupported("discriminant of %r" % (v,))
        if k == "binop":
            return self.binop(rv.op, self.eval_operand(frame, rv.a), self.eval_operand(frame, rv.b))
        if k == "unop":
            a = self.eval_operand(frame, rv.a)
            if rv.op == "Not":
                if isinstance(a, Bool):
                    return Bool(z3.Not(a.e))
                return Int(~a.e, a.ty)
            if rv.op == "Neg":
                return Int(-a.e, a.ty)
            if rv.op == "PtrMetadata":
                t = a
                while isinstance(t, Ref):
                    t = self.read_ref(t)
                if isinstance(t, Str):
                    return usize(len(t))
                if isinstance(t, (Arr, VecV)):
                    return usize(len(t.items))
                if hasattr(t, "lo") and hasattr(t, "hi"):        # a mutable sub-slice view (buf[a..b])
                    return usize(t.hi - t.lo)
            raise Unsupported("unop " + rv.op)
        if k == "cast":
            a = self.eval_operand(frame, rv.a)
            return self.cast(a, rv.ty, rv.cast)
        if k == "closure":
            return Closure(rv.name, [self.eval_operand(frame, o) for _n, o in rv.captures])
        if k == "adt":
            items = [self.eval_operand(frame, o) for o in rv.items]
            path = rv.path
            ty_variant = re.sub(r"::<[^()]*?>(?=::|$)", "", path)
            parts = strip_generics(path).split("::")
            if len(parts) >= 2 and parts[-2][:1].isupper():
                return Adt(parts[-2], parts[-1], items)
            return Adt(parts[-1], parts[-1], items)   # struct
        if k == "len":
            v = self.read_place(frame, rv.place)
            if isinstance(v, Str):
                return usize(len(v))
            if isinstance(v, (Arr, VecV)):
                return usize(len(v.items))
        if k == "repeat":
            a = self.eval_operand(frame, rv.a)
            n = int(re.sub(r"_usize$", "", rv.count.replace("const ", "").strip()))
            return Arr([a] * n)
        raise Unsupported("rvalue " + k)

    def cast(self, a, ty, kind):
        while isinstance(a, Ref) and isinstance(self.read_ref(a), (Int, Bool, Ref)):
            a = self.read_ref(a)      # items of an owning iterator are modelled as references to the elements
        if kind in ("IntToInt",) and isinstance(a, Int) and ty in WIDTH:
            w0 = a.e.size()
            w1 = WIDTH[ty]
            if w1 == w0:
                return Int(a.e, ty)
            if w1 < w0:
                return Int(z3.Extract(w1 - 1, 0, a.e), ty)
            return Int(z3.SignExt(w1 - w0, a.e) if a.signed else z3.ZeroExt(w1 - w0, a.e), ty)
        if kind == "IntToInt" and isinstance(a, Bool) and ty in WIDTH:
            return Int(z3.If(a.e, z3.BitVecVal(1, WIDTH[ty]), z3.BitVecVal(0, WIDTH[ty])), ty)
        if kind.startswith("PointerCoercion") or kind in ("PtrToPtr", "Transmute"):
            return a
        raise Unsupported("cast %s to %s (%s)" % (a, ty, kind))

    def binop(self, op, a, b):
        while isinstance(a, Ref) and isinstance(self.read_ref(a), (Int, Bool, Ref)):
            a = self.read_ref(a)
        while isinstance(b, Ref) and isinstance(self.read_ref(b), (Int, Bool, Ref)):
            b = self.read_ref(b)
        if isinstance(a, Bool) and isinstance(b, Bool):
            if op == "Eq":
                return Bool(a.e == b.e)
            if op == "Ne":
                return Bool(a.e != b.e)
            if op == "BitAnd":
                return Bool(z3.And(a.e, b.e))
            if op == "BitOr":
                return Bool(z3.Or(a.e, b.e))
            if op == "BitXor":
                return Bool(z3.Xor(a.e, b.e))
        if isinstance(a, Int) and isinstance(b, Int):
            s = a.signed
            x, y = a.e, b.e
            if op in ("Shl", "Shr", "ShlUnchecked", "ShrUnchecked") and y.size() != x.size():
                y = z3.ZeroExt(x.size() - y.size(), y) if y.size() < x.size() else z3.Extract(x.size() - 1, 0, y)
            if op == "Eq":
                return Bool(x == y)
            if op == "Ne":
                return Bool(x != y)
            if op == "Lt":
                return Bool(x < y if s else z3.ULT(x, y))
            if op == "Le":
                return Bool(x <= y if s else z3.ULE(x, y))
            if op == "Gt":
                return Bool(x > y if s else z3.UGT(x, y))
            if op == "Ge":
                return Bool(x >= y if s else z3.UGE(x, y))
            if op in ("Add", "AddUnchecked"):
                return Int(x + y, a.ty)
            if op in ("Sub", "SubUnchecked"):
                return Int(x - y, a.ty)
            if op in ("Mul", "MulUnchecked"):
                return Int(x * y, a.ty)
            if op == "BitAnd":
                return Int(x & y, a.ty)
            if op == "BitOr":
                return Int(x | y, a.ty)
            if op == "BitXor":
                return Int(x ^ y, a.ty)
            if op in ("Shl", "ShlUnchecked"):
                return Int(x << y, a.ty)
            if op in ("Shr", "ShrUnchecked"):
                return Int((x >> y) if s else z3.LShR(x, y), a.ty)
            if op == "Div":
                return Int((x / y) if s else z3.UDiv(x, y), a.ty)
            if op == "Rem":
                return Int(z3.SRem(x, y) if s else z3.URem(x, y), a.ty)
            if op in ("AddWithOverflow", "SubWithOverflow", "MulWithOverflow"):
                w = x.size()
                if op == "AddWithOverflow":
                    r = x + y
                    ov = z3.Not(z3.BVAddNoOverflow(x, y, s)) if not s else z3.Or(z3.Not(z3.BVAddNoOverflow(x, y, True)), z3.Not(z3.BVAddNoUnderflow(x, y)))
                elif op == "SubWithOverflow":
                    r = x - y
                    ov = z3.Not(z3.BVSubNoUnderflow(x, y, s)) if not s else z3.Or(z3.Not(z3.BVSubNoOverflow(x, y)), z3.Not(z3.BVSubNoUnderflow(x, y, True)))
                else:
                    r = x * y
                    ov = z3.Not(z3.BVMulNoOverflow(x, y, s)) if not s else z3.Or(z3.Not(z3.BVMulNoOverflow(x, y, True)), z3.Not(z3.BVMulNoUnderflow(x, y)))
                return Tup([Int(r, a.ty), Bool(ov)])
            if op == "Cmp":
                lt = (x < y) if s else z3.ULT(x, y)
                if self.decide(lt):
                    return ordering("Less")
                if self.decide(x == y):
                    return ordering("Equal")
                return ordering("Greater")
        raise Unsupported("binop %s on %r, %r" % (op, a, b))

    # ---- places -------------------------------------------------------------------------------------
    def cell_of(self, frame, local):
        c = frame.get(local)
        if c is None:
            c = Cell(None)
            frame[local] = c
        return c

    def make_ref(self, frame, place):
        cell = self.cell_of(frame, place.local)
        proj = list(self.resolve_proj(frame, place.proj))
        # resolve leading derefs eagerly so that references never chain through dead frames
        cur_cell, cur_proj = cell, []
        for p in proj:
            if p[0] == "deref":
                v = self.project(cur_cell.v, cur_proj)
                if isinstance(v, Ref):
                    cur_cell, cur_proj = v.cell, list(v.proj)
                elif isinstance(v, (Str, Arr, VecV, Closure)):
                    # an unsized view held by value: the view itself plays the role of the reference
                    if p is proj[-1] and isinstance(v, Str):
                        return v
                    continue
                else:
                    raise Unsupported("deref of %r" % (str(v)[:200],))
            else:
                cur_proj.append(p)
        v = self.project(cur_cell.v, cur_proj) if cur_cell.v is not None else None
        return Ref(cur_cell, cur_proj)

    def read_ref(self, r):
        return self.project(r.cell.v, r.proj)

    def project(self, v, proj):
        for p in proj:
            k = p[0]
            if k == "deref":
                if isinstance(v, Ref):
                    v = self.read_ref(v)
                elif isinstance(v, (Str, Arr, Closure, VecV)):
                    pass
                else:
                    raise Unsupported("deref of %r" % (v,))
            elif k == "field":
                if isinstance(v, Tup):
                    v = v.items[p[1]]
                elif isinstance(v, Adt):
                    v = v.fields[p[1]]
                elif isinstance(v, Closure):
                    v = v.caps[p[1]]
                else:
                    raise Unsupported("field of %r" % (v,))
            elif k == "downcast":
                if not isinstance(v, Adt) or v.variant != p[1]:
                    raise Unsupported("downcast %s of %r" % (p[1], v))
            elif k == "constindex":
                if isinstance(v, (Arr, VecV)):
                    v = v.items[-p[1] if p[2] else p[1]]
                elif isinstance(v, Str):
                    v = Int(v.byte(len(v) - p[1] if p[2] else p[1]), "u8")
                else:
                    raise Unsupported("index of %r" % (v,))
            elif k == "idx":
                if isinstance(v, (Arr, VecV)):
                    v = v.items[p[1]]
                elif isinstance(v, Str):
                    v = Int(v.byte(p[1]), "u8")
                else:
                    raise Unsupported("index of %r" % (v,))
            else:
                raise Unsupported("projection " + k)
        return v

    def resolve_proj(self, frame, proj):
        if not any(p[0] == "index" for p in proj):
            return proj
        out = []
        for p in proj:
            if p[0] == "index":
                iv = frame[p[1]].v
                c = iv.conc()
                if c is None:
                    c = None
                    for k in range(0, 64):
                        if self.decide(iv.e == k):
                            c = k
                            break
                    if c is None:
                        raise Unsupported("symbolic index")
                out.append(("idx", c))
            else:
                out.append(p)
        return tuple(out)

    def read_place(self, frame, place):
        if place.proj:
            place = M.Place(place.local, self.resolve_proj(frame, place.proj))
        c = frame.get(place.local)
        if c is None or c.v is None:
            if not place.proj:
                raise Unsupported("read of uninitialised local _%d" % place.local)
        return self.project(c.v, place.proj)

    def write_place(self, frame, place, val):
        cell = self.cell_of(frame, place.local)
        self._write(cell, list(self.resolve_proj(frame, place.proj)), val)

    def _write(self, cell, proj, val):
        if not proj:
            cell.v = val
            return
        # walk down to the innermost deref
        for i, p in enumerate(proj):
            if p[0] == "deref":
                tgt = self.project(cell.v, proj[:i])
                if not isinstance(tgt, Ref):
                    raise Unsupported("write through %r" % (tgt,))
                return self._write(tgt.cell, list(tgt.proj) + proj[i + 1:], val)
        cell.v = self._update(cell.v, proj, val)

    def _update(self, v, proj, val):
        if not proj:
            return val
        p = proj[0]
        if p[0] == "field":
            if isinstance(v, Tup):
                items = list(v.items)
                items[p[1]] = self._update(items[p[1]], proj[1:], val)
                return Tup(items)
            if isinstance(v, Adt):
                fields = list(v.fields)
                fields[p[1]] = self._update(fields[p[1]], proj[1:], val)
                return Adt(v.ty, v.variant, fields)
        if p[0] == "downcast":
            return self._update(v, proj[1:], val)
        if p[0] == "idx" and isinstance(v, VecV):
            v.items[p[1]] = self._update(v.items[p[1]], proj[1:], val)
            return v
        if p[0] == "idx" and isinstance(v, Arr):
            items = list(v.items)
            items[p[1]] = self._update(items[p[1]], proj[1:], val)
            return Arr(items)
        raise Unsupported("write projection %r on %r" % (p, v))


def strip_generics(s):
    """remove every `::<...>` group (balanced)"""
    out = []
    i = 0
    n = len(s)
    while i < n:
        if s.startswith("::<", i):
            depth = 0
            j = i + 2
            while j < n:
                if s[j] == "<":
                    depth += 1
                elif s[j] == ">" and s[j - 1] != "-":
                    depth -= 1
                    if depth == 0:
                        break
                j += 1
            # `::<impl str>::method` is a path segment (inherent impl), `f::<impl Trait>` at the end is a generic argument
            if s.startswith("::<impl", i) and s.startswith("::", j + 1):
                out.append(s[i:j + 1])
            i = j + 1
            continue
        out.append(s[i])
        i += 1
    return "".join(out)


def norm_fn(func):
    s = strip_generics(func.strip())
    s = s.replace("'_, ", "").replace("<'_>", "")
    s = re.sub(r"<impl \[[^\]]*\]>", "<impl [T]>", s)
    s = re.sub(r"^Box::<impl [^<>]*>::", "Box::", s)          # Box::<impl Trait + 'static>::new
    s = re.sub(r"::<impl (?:std::)?io::[^<>]*>::", "::", s)   # GzDecoder::<impl io::BufRead + 'static>::new
    return s
