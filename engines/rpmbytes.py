"""Hand encoder of minimal RPM packages (concrete bytes) for native replays through the public API."""
import struct

TYPE = {"Null": 0, "Char": 1, "Int8": 2, "Int16": 3, "Int32": 4, "Int64": 5, "StringTag": 6, "Bin": 7, "StringArray": 8, "I18NString": 9}


def lead(name=b"x"):
    nm = name[:65] + b"\0" * (66 - min(65, len(name)))
    return b"\xed\xab\xee\xdb" + bytes([3, 0]) + struct.pack(">HH", 0, 0) + nm + struct.pack(">HH", 1, 5) + b"\0" * 16


def header(entries, store):
    """entries: list of (tag, type_name_or_id, offset, count)"""
    out = b"\x8e\xad\xe8\x01" + b"\0" * 4 + struct.pack(">II", len(entries), len(store))
    for tag, ty, off, cnt in entries:
        t = TYPE[ty] if isinstance(ty, str) else ty
        out += struct.pack(">IIiI", tag, t, off, cnt)
    return out + bytes(store)


def sig_header(entries, store):
    h = header(entries, store)
    return h + b"\0" * ((8 - len(store) % 8) % 8)


def package(sig_entries, sig_store, entries, store, content, name=b"x"):
    return lead(name) + sig_header(sig_entries, sig_store) + header(entries, store) + bytes(content)


def file_header(nfiles, dirindexes=None, ndirs=1):
    """main header declaring nfiles files (all tags get_file_entries needs), sizes 3"""
    import struct
    T = {"BASENAMES": 1117, "DIRINDEXES": 1116, "DIRNAMES": 1118, "FILEMODES": 1030, "FILEUSERNAME": 1039, "FILEGROUPNAME": 1040, "FILEDIGESTS": 1035,
         "FILEMTIMES": 1034, "FILESIZES": 1028, "FILEFLAGS": 1037, "FILELINKTOS": 1036}
    ent, st = [], b""

    def add(tag, ty, data, count, align=1):
        nonlocal st
        st += b"\0" * ((align - len(st) % align) % align)
        ent.append((tag, ty, len(st), count))
        st += data
    n = nfiles
    di = dirindexes if dirindexes is not None else [0] * n
    add(T["FILESIZES"], "Int32", b"".join(struct.pack(">I", 3) for _ in range(n)), n, 4)
    add(T["FILEMODES"], "Int16", b"".join(struct.pack(">H", 0o100644) for _ in range(n)), n, 2)
    add(T["FILEMTIMES"], "Int32", b"".join(struct.pack(">I", 0) for _ in range(n)), n, 4)
    add(T["FILEDIGESTS"], "StringArray", b"\0" * n, n)
    add(T["FILELINKTOS"], "StringArray", b"\0" * n, n)
    add(T["FILEFLAGS"], "Int32", b"".join(struct.pack(">I", 0) for _ in range(n)), n, 4)
    add(T["FILEUSERNAME"], "StringArray", b"root\0" * n, n)
    add(T["FILEGROUPNAME"], "StringArray", b"root\0" * n, n)
    add(T["DIRINDEXES"], "Int32", b"".join(struct.pack(">I", x) for x in di), len(di), 4)
    add(T["BASENAMES"], "StringArray", b"".join(b"f%d\0" % i for i in range(n)), n)
    add(T["DIRNAMES"], "StringArray", b"".join(b"/d%d/\0" % i for i in range(ndirs)), ndirs)
    ent.sort()
    return ent, st


def cpio_newc(entries):
    """newc archive: entries = [(name bytes, mode, content bytes)], followed by the trailer"""
    out = b""

    def one(name, mode, content):
        nm = name + b"\0"
        h = b"070701" + b"".join(b"%08x" % v for v in (1, mode, 0, 0, 1, 0, len(content), 0, 0, 0, 0, len(nm), 0)) + nm
        h += b"\0" * ((4 - len(h) % 4) % 4)
        return h + content + b"\0" * ((4 - len(content) % 4) % 4)
    for (name, mode, content) in entries:
        out += one(name, mode, content)
    return out + one(b"TRAILER!!!", 0, b"")


def files_package(dirnames, files, declared_sizes=None, archive=None):
    """complete package bytes: dirnames = [bytes], files = [(dirindex, basename, raw mode, linkto, content)]"""
    import struct
    T = {"BASENAMES": 1117, "DIRINDEXES": 1116, "DIRNAMES": 1118, "FILEMODES": 1030, "FILEUSERNAME": 1039, "FILEGROUPNAME": 1040, "FILEDIGESTS": 1035,
         "FILEMTIMES": 1034, "FILESIZES": 1028, "FILEFLAGS": 1037, "FILELINKTOS": 1036}
    ent, st = [], b""

    def add(tag, ty, data, count, align=1):
        nonlocal st
        st += b"\0" * ((align - len(st) % align) % align)
        ent.append((tag, ty, len(st), count))
        st += data
    n = len(files)
    if n:
        sizes = declared_sizes if declared_sizes is not None else [len(f[4]) for f in files]
        if any(x > 0xffffffff for x in sizes):
            add(5008, "Int64", b"".join(struct.pack(">Q", x) for x in sizes), n, 8)        # RPMTAG_LONGFILESIZES
        else:
            add(T["FILESIZES"], "Int32", b"".join(struct.pack(">I", x) for x in sizes), n, 4)
        add(T["FILEMODES"], "Int16", b"".join(struct.pack(">H", f[2] & 0xffff) for f in files), n, 2)
        add(T["FILEMTIMES"], "Int32", b"".join(struct.pack(">I", 0) for _ in range(n)), n, 4)
        add(T["FILEDIGESTS"], "StringArray", b"\0" * n, n)
        add(T["FILELINKTOS"], "StringArray", b"".join(f[3] + b"\0" for f in files), n)
        add(T["FILEFLAGS"], "Int32", b"".join(struct.pack(">I", 0) for _ in range(n)), n, 4)
        add(T["FILEUSERNAME"], "StringArray", b"root\0" * n, n)
        add(T["FILEGROUPNAME"], "StringArray", b"root\0" * n, n)
        add(T["DIRINDEXES"], "Int32", b"".join(struct.pack(">I", f[0]) for f in files), n, 4)
        add(T["BASENAMES"], "StringArray", b"".join(f[1] + b"\0" for f in files), n)
    if dirnames:
        add(T["DIRNAMES"], "StringArray", b"".join(d + b"\0" for d in dirnames), len(dirnames))
    ent.sort()
    content = cpio_newc([(b"." + (dirnames[f[0]] if f[0] < len(dirnames) else b"/") + f[1], f[2], f[4]) for f in files])
    return lead() + sig_header([], b"") + header(ent, st) + (archive if archive is not None else content)


def check_header_bytes(b, region):
    """structural rules of a written header (after rpm's hdrblobVerifyInfo/Region), on bytes; returns None or what is wrong"""
    be32 = lambda o: struct.unpack(">I", b[o:o + 4])[0]  # noqa: E731
    if len(b) < 16 or b[:4] != b"\x8e\xad\xe8\x01" or b[4:8] != b"\0\0\0\0":
        return "bad intro"
    n, sz = be32(8), be32(12)
    if len(b) < 16 + 16 * n + sz:
        return "intro counts exceed the bytes written"
    if n == 0:
        return "no region entry"
    st = b[16 + 16 * n:16 + 16 * n + sz]
    ent = lambda i: (be32(16 + 16 * i), be32(20 + 16 * i), struct.unpack(">i", b[24 + 16 * i:28 + 16 * i])[0], be32(28 + 16 * i))  # noqa: E731
    rtag, rty, roff, rcnt = ent(0)
    if rtag != region or rty != 7 or rcnt != 16:
        return "first entry is not the region tag (BIN, count 16)"
    if roff < 0 or roff + 16 != len(st):
        return "region trailer is not at the end of the store"
    want = struct.pack(">IIiI", region, 7, -16 * n, 16)
    if st[roff:] != want:
        return "region trailer does not point back over exactly all entries"
    prev_tag, prev_end = None, 0
    for i in range(1, n):
        tag_, ty, off, cnt = ent(i)
        if prev_tag is not None and tag_ <= prev_tag:
            return "tags are not in strictly ascending order (%d then %d)" % (prev_tag, tag_)
        prev_tag = tag_
        if ty > 9:
            return "type %d out of range" % ty
        al = {3: 2, 4: 4, 5: 8}.get(ty, 1)
        if off < 0 or off % al:
            return "offset %d of a type-%d entry is not aligned to %d" % (off, ty, al)
        if cnt == 0:
            return "entry with zero count"
        if off < prev_end:
            return "entry data overlaps the previous entry"
        if ty in (6, 8, 9):
            j = off
            for _ in range(cnt):
                while j < roff and st[j] != 0:
                    j += 1
                if j >= roff:
                    return "unterminated string in the store"
                j += 1
            ln = j - off
        else:
            ln = cnt * al
        if off + ln > roff:
            return "entry data runs past the end of the data area"
        prev_end = off + ln
    return None


def parse_header_entries(b):
    """index of a written header: {tag: (type, offset, count)} and the store"""
    n, sz = struct.unpack(">II", b[8:16])
    ents = {}
    for i in range(n):
        t, ty, off, cnt = struct.unpack(">IIiI", b[16 + 16 * i:32 + 16 * i])
        ents[t] = (ty, off, cnt)
    return ents, b[16 + 16 * n:16 + 16 * n + sz], 16 + 16 * n + sz


def header_strings(ents, st, t):
    if t not in ents:
        return []
    ty, off, cnt = ents[t]
    out, j = [], off
    for _ in range(cnt):
        k = st.index(b"\0", j)
        out.append(st[j:k])
        j = k + 1
    return out


def header_ints(ents, st, t):
    if t not in ents:
        return []
    ty, off, cnt = ents[t]
    w = {2: 1, 3: 2, 4: 4, 5: 8}[ty]
    return [int.from_bytes(st[off + w * i:off + w * (i + 1)], "big") for i in range(cnt)]


def check_cpio_bytes(payload, ents, st):
    """the uncompressed payload is a well-formed newc archive whose entries are the header's files in header order; None or what is wrong"""
    base, dirs = header_strings(ents, st, 1117), header_strings(ents, st, 1118)
    didx, sizes, modes = header_ints(ents, st, 1116), header_ints(ents, st, 1028), header_ints(ents, st, 1030)
    want = [(b"." + dirs[di] + bn, sz, md & 0xffff) for bn, di, sz, md in zip(base, didx, sizes, modes)]
    pos, got, n = 0, [], len(payload)
    while True:
        if pos % 4:
            return "entry at offset %d is not 4-byte aligned" % pos
        head = payload[pos:pos + 110]
        if len(head) < 110 or head[:6] != b"070701":
            return "no newc entry header at offset %d" % pos
        try:
            f = [int(head[6 + 8 * i:14 + 8 * i], 16) for i in range(13)]
        except ValueError:
            return "non-hexadecimal header field at offset %d" % pos
        mode, size, namesz = f[1], f[6], f[11]
        nm = payload[pos + 110:pos + 110 + namesz]
        if not nm or nm[-1] != 0 or b"\0" in nm[:-1]:
            return "entry name at offset %d is not NUL-terminated within its recorded size %d" % (pos, namesz)
        nm = nm[:-1]
        pos += 110 + namesz
        pos += (-pos) % 4
        if nm == b"TRAILER!!!":
            break
        got.append((nm, size, mode & 0xffff))
        pos += size
        pos += (-pos) % 4
        if pos > n:
            return "entry data runs past the end of the payload"
    if payload[pos:] != b"\0" * (n - pos):
        return "bytes other than padding after the trailer"
    if got != want:
        return "entries %s do not match the header's files %s" % (got, want)
    return None
