#!/usr/bin/env python3-vt
"""MIR -> SMT engine, one harness per process.

  mirsmt_main.py --harness NAME --mir <mir dump> --native <replay binary> --out <result.json>

Result JSON: {verdict: SUCCESS|FAILED|UNSUPPORTED|ERROR, paths, decisions, solver_calls, solver_s, functions,
              intrinsics, bounds, failed:[{description,function,input...}], replay:{reproduced, why, path}, covers:[...]}
"""
import argparse
import json
import os
import random
import re
import subprocess
import sys
import time
import traceback

sys.path.insert(0, os.path.dirname(os.path.abspath(__file__)))
import z3  # noqa: E402

import intrinsics  # noqa: E402
import mir  # noqa: E402
import refs  # noqa: E402
from symex import (Adt, Arr, Bool, Cell, Closure, Exec, Int, NONE, Opaque, PathEnd, Ref, Str, Tup, UNIT, Unsupported)  # noqa: E402

from mreg import HARNESSES, REPLAYERS, ORD, Native, Ctx, harness, model_bytes, sym_bytes  # noqa: E402,F401


# ---------------------------------------------------------------------------------------------------------
# C13
# ---------------------------------------------------------------------------------------------------------
def vercmp_native(ctx, a, b):
    return int(ctx.native.ask("vercmp", Native.hex(a), Native.hex(b)))


def validate_vercmp(ctx, f, n=150):
    """translator validation: concrete inputs through the interpreter and through the real crate must agree"""
    alpha = b"0019azAZ.~^-_+ "
    vectors = [(b"1.0", b"1.0"), (b"1.0", b"2.0"), (b"2.0.1", b"2.0"), (b"5.5p1", b"5.5p2"), (b"10xyz", b"10.1xyz"), (b"xyz.4", b"8"),
               (b"1.0~rc1", b"1.0"), (b"1.0^", b"1.0"), (b"1.0^git1", b"1.01"), (b"1.0^git1~pre", b"1.0^git1"), (b"007", b"7"), (b"", b"a"),
               (b"1.0~rc1^git1", b"1.0~rc1"), (b"a.b", b"a+b"), (b"1__2", b"1.2")]
    for _ in range(n):
        la, lb = ctx.rng.randint(0, 6), ctx.rng.randint(0, 6)
        vectors.append((bytes(ctx.rng.choice(alpha) for _ in range(la)), bytes(ctx.rng.choice(alpha) for _ in range(lb))))
    ex = Exec(ctx.funcs, intrinsics.I)
    for a, b in vectors:
        res = []
        ex.run_all(lambda e: (a, b), lambda e, inp: e.call_fn(f, [Str.lit(a), Str.lit(b)]), lambda e, i, o: res.append(o))
        assert len(res) == 1
        k, v = res[0]
        mine = ORD[v.variant] if k == "return" else "panic"
        real = vercmp_native(ctx, a, b)
        if mine != real:
            raise Unsupported("translator validation failed: compare_version_string(%r, %r): interpreter %s, real crate %s" % (a, b, mine, real))
        ctx.validated += 1


def c13_pair(ctx, la, lb):
    f = ctx.find_fn(r"(version::)?compare_version_string")
    validate_vercmp(ctx, f)
    ex = Exec(ctx.funcs, intrinsics.I)
    ctx.stats = ex.stats
    ctx.bounds = "all strings a, b of exactly %d and %d bytes, every byte in 0x01..0x7f (ASCII, NUL excluded)" % (la, lb)

    def setup(e):
        return sym_bytes(e, "a", la), sym_bytes(e, "b", lb)

    def body(e, inp):
        a, b = inp
        r1 = e.call_fn(f, [Str(a), Str(b)])
        r2 = e.call_fn(f, [Str(b), Str(a)])
        ref = refs.rpmvercmp(e, a, b)
        ref2 = refs.rpmvercmp(e, b, a)
        return ORD[r1.variant], ORD[r2.variant], ref, ref2

    def on_path(e, inp, out):
        k, v = out
        if k != "return":
            a, b = model_bytes(e, inp[0]), model_bytes(e, inp[1])
            ctx.fail("version comparison panics: %s" % (v,), "compare_version_string", a=a.hex(), b=b.hex(), kind="panic")
            return
        r1, r2, ref, ref2 = v
        ctx.cover("result Less", r1 == -1)
        ctx.cover("result Equal on different strings", r1 == 0 and len(e.trace) > 1)
        ctx.cover("result Greater", r1 == 1)
        if r1 != ref:
            a, b = model_bytes(e, inp[0]), model_bytes(e, inp[1])
            ctx.fail("comparison differs from rpmvercmp", "compare_version_string", a=a.hex(), b=b.hex(), got=r1, expected=ref, kind="ref")
        if r2 != ref2:
            a, b = model_bytes(e, inp[0]), model_bytes(e, inp[1])
            ctx.fail("comparison differs from rpmvercmp", "compare_version_string", a=b.hex(), b=a.hex(), got=r2, expected=ref2, kind="ref")
        if r1 != -r2:
            a, b = model_bytes(e, inp[0]), model_bytes(e, inp[1])
            ctx.fail("comparison is not antisymmetric", "compare_version_string", a=a.hex(), b=b.hex(), got=r1, swapped=r2, kind="antisym")

    ex.run_all(setup, body, on_path)
    if la == lb:
        # reflexivity: a == a is the first statement's business; decided on the same shape with b := a
        ex2 = Exec(ctx.funcs, intrinsics.I)

        def body2(e, a):
            return ORD[e.call_fn(f, [Str(a), Str(list(a))]).variant]

        def on2(e, a, out):
            if out != ("return", 0):
                ctx.fail("comparison is not reflexive", "compare_version_string", a=model_bytes(e, a).hex(), kind="refl")
        ex2.run_all(lambda e: sym_bytes(e, "a", la), body2, on2)
        for k in ("paths", "decisions", "solver_calls"):
            setattr(ex.stats, k, getattr(ex.stats, k) + getattr(ex2.stats, k))


def replay_c13(ctx, fl):
    """native replay of a C13 counterexample"""
    a, b = bytes.fromhex(fl["a"]), bytes.fromhex(fl["b"])
    real = vercmp_native(ctx, a, b)
    if fl["kind"] == "ref":
        if real != fl["got"]:
            return False, "encoding disagrees with the real crate on (%r, %r): predicted %s, real %s" % (a, b, fl["got"], real)
        return real != fl["expected"], "real crate returns %s, rpmvercmp gives %s for (%r, %r)" % (real, fl["expected"], a, b)
    if fl["kind"] == "antisym":
        real2 = vercmp_native(ctx, b, a)
        return real != -real2, "cmp(a,b)=%s cmp(b,a)=%s for (%r, %r)" % (real, real2, a, b)
    if fl["kind"] == "refl":
        return real != 0, "cmp(a,a)=%s for %r" % (real, a)
    if fl["kind"] == "trans":
        c = bytes.fromhex(fl["c"])
        rab, rbc, rac = real, vercmp_native(ctx, b, c), vercmp_native(ctx, a, c)
        bad = (rab <= 0 and rbc <= 0 and (rac > 0 or ((rab < 0 or rbc < 0) and rac == 0)))
        return bad, "cmp(a,b)=%s cmp(b,c)=%s cmp(a,c)=%s for (%r, %r, %r)" % (rab, rbc, rac, a, b, c)
    return False, "unknown kind"


for _la in range(0, 5):
    for _lb in range(_la, 5):
        HARNESSES["c13_vercmp_%d_%d" % (_la, _lb)] = (lambda la, lb: (lambda ctx: c13_pair(ctx, la, lb)))(_la, _lb)


def c13_trans(ctx, l1, l2, l3):
    f = ctx.find_fn(r"(version::)?compare_version_string")
    ex = Exec(ctx.funcs, intrinsics.I)
    ctx.stats = ex.stats
    ctx.bounds = "all triples of strings of exactly %d, %d, %d bytes over 0x01..0x7f" % (l1, l2, l3)

    def setup(e):
        return sym_bytes(e, "a", l1), sym_bytes(e, "b", l2), sym_bytes(e, "c", l3)

    def body(e, inp):
        a, b, c = inp
        rab = ORD[e.call_fn(f, [Str(a), Str(b)]).variant]
        if rab > 0:
            return None   # premise false: nothing to check on this path (the symmetric triple is its own path)
        rbc = ORD[e.call_fn(f, [Str(b), Str(c)]).variant]
        if rbc > 0:
            return None
        rac = ORD[e.call_fn(f, [Str(a), Str(c)]).variant]
        return rab, rbc, rac

    def on_path(e, inp, out):
        k, v = out
        if k != "return":
            ctx.fail("version comparison panics", "compare_version_string", a=model_bytes(e, inp[0]).hex(), b=model_bytes(e, inp[1]).hex(), kind="panic")
            return
        if v is None:
            return
        rab, rbc, rac = v
        ctx.cover("premise a<=b<=c reached")
        ctx.cover("strict chain", rab < 0 and rbc < 0)
        if rac > 0 or ((rab < 0 or rbc < 0) and rac == 0):
            a, b, c = (model_bytes(e, x) for x in inp)
            ctx.fail("comparison is not transitive", "compare_version_string", a=a.hex(), b=b.hex(), c=c.hex(), kind="trans")

    ex.run_all(setup, body, on_path)


for _s in [(1, 1, 1), (1, 1, 2), (1, 2, 1), (2, 1, 1), (1, 2, 2), (2, 1, 2), (2, 2, 1), (2, 2, 2), (0, 1, 2), (2, 1, 0), (1, 0, 2)]:
    HARNESSES["c13_trans_%d_%d_%d" % _s] = (lambda s: (lambda ctx: c13_trans(ctx, *s)))(_s)

REPLAYERS["c13"] = replay_c13


# ---------------------------------------------------------------------------------------------------------
# main
# ---------------------------------------------------------------------------------------------------------
def main():
    ap = argparse.ArgumentParser()
    ap.add_argument("--harness", required=True)
    ap.add_argument("--mir", required=True)
    ap.add_argument("--native", required=True)
    ap.add_argument("--out", required=True)
    ap.add_argument("--seed", type=int, default=0)
    ap.add_argument("--replay-dir", default=None)
    a = ap.parse_args()
    t0 = time.time()
    res = {"harness": a.harness, "verdict": "ERROR", "failed": [], "covers": []}
    import harnesses_text  # noqa: F401  (registers the C15/C19 harnesses)
    try:
        funcs = mir.parse_mir(open(a.mir).read())
        ctx = Ctx(funcs, Native(a.native), a.seed)
        fn = HARNESSES[a.harness]
        fn(ctx)
        st = ctx.stats
        res.update({
            "paths": st.paths, "decisions": st.decisions, "solver_calls": st.solver_calls, "solver_s": round(st.solver_s, 3),
            "n_checks": st.paths, "max_depth": st.max_depth,
            "functions": sorted(st.functions), "intrinsics": sorted(st.intrinsics), "bounds": ctx.bounds,
            "validated_against_native": ctx.validated, "extra": ctx.extra,
            "covers": [{"description": k, "status": "Satisfied" if v else "Unsatisfiable"} for k, v in sorted(ctx.covers.items())],
        })
        if not ctx.failed:
            res["verdict"] = "SUCCESS"
        else:
            res["verdict"] = "FAILED"
            # deduplicate by description, keep the first witness of each
            seen = {}
            for fl in ctx.failed:
                seen.setdefault(fl["description"], fl)
            res["failed"] = list(seen.values())
            # replay each witness natively
            rp = REPLAYERS[a.harness.split("_")[0]]
            reproduced = False
            whys = []
            for fl in res["failed"]:
                ok, why = rp(ctx, fl)
                fl["reproduced"] = ok
                fl["native"] = why
                whys.append(why)
                reproduced = reproduced or ok
            path = ""
            if a.replay_dir:
                os.makedirs(a.replay_dir, exist_ok=True)
                path = os.path.join(a.replay_dir, a.harness + ".json")
                json.dump({"engine": "mirsmt", "harness": a.harness, "witnesses": res["failed"]}, open(path, "w"), indent=1)
            res["replay"] = {"reproduced": reproduced, "why": "; ".join(whys), "path": path}
    except Unsupported as e:
        res["verdict"] = "UNSUPPORTED"
        res["error"] = str(e)
    except Exception as e:  # noqa: BLE001
        res["verdict"] = "ERROR"
        res["error"] = "%s: %s" % (type(e).__name__, e)
        res["trace"] = traceback.format_exc()[-2000:]
    res["wall_s"] = round(time.time() - t0, 2)
    json.dump(res, open(a.out, "w"), indent=1)
    print(a.harness, res["verdict"], res.get("paths"), "paths", res["wall_s"], "s", res.get("error", ""))


if __name__ == "__main__":
    main()
