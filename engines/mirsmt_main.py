#!/usr/bin/env python3-vt
"""MIR -> SMT engine, one harness per process.

  mirsmt_main.py --harness NAME --mir <mir dump> --native <replay binary> --out <result.json>

Result JSON: {verdict: SUCCESS|FAILED|UNSUPPORTED|ERROR, paths, decisions, solver_calls, solver_s, functions,
              intrinsics, bounds, failed:[{description,function,input...}], replay:{reproduced, why, path}, covers:[...]}
"""
import argparse
import json
import os
import random
import re
import subprocess
import sys
import time
import traceback
os.umask(0o022)        # the native helper inherits it: extraction must give archived permission bits regardless

sys.path.insert(0, os.path.dirname(os.path.abspath(__file__)))
import z3  # noqa: E402

import intrinsics  # noqa: E402
import mir  # noqa: E402
import refs  # noqa: E402
from symex import (Adt, Arr, Bool, Cell, Closure, Exec, Int, NONE, Opaque, PathEnd, Ref, Str, Tup, UNIT, Unsupported)  # noqa: E402

from mreg import HARNESSES, REPLAYERS, ORD, Native, Ctx, harness, model_bytes, sym_bytes  # noqa: E402,F401


# ---------------------------------------------------------------------------------------------------------
# C13
# ---------------------------------------------------------------------------------------------------------
def vercmp_native(ctx, a, b):
    return int(ctx.native.ask("vercmp", Native.hex(a), Native.hex(b)))


def validate_vercmp(ctx, f, n=150):
    """translator validation: concrete inputs through the interpreter and through the real crate must agree"""
    alpha = b"0019azAZ.~^-_+ "
    vectors = [(b"1.0", b"1.0"), (b"1.0", b"2.0"), (b"2.0.1", b"2.0"), (b"5.5p1", b"5.5p2"), (b"10xyz", b"10.1xyz"), (b"xyz.4", b"8"),
               (b"1.0~rc1", b"1.0"), (b"1.0^", b"1.0"), (b"1.0^git1", b"1.01"), (b"1.0^git1~pre", b"1.0^git1"), (b"007", b"7"), (b"", b"a"),
               (b"1.0~rc1^git1", b"1.0~rc1"), (b"a.b", b"a+b"), (b"1__2", b"1.2")]
    for _ in range(n):
        la, lb = ctx.rng.randint(0, 6), ctx.rng.randint(0, 6)
        vectors.append((bytes(ctx.rng.choice(alpha) for _ in range(la)), bytes(ctx.rng.choice(alpha) for _ in range(lb))))
    ex = Exec(ctx.funcs, intrinsics.I)
    for a, b in vectors:
        res = []
        ex.run_all(lambda e: (a, b), lambda e, inp: e.call_fn(f, [Str.lit(a), Str.lit(b)]), lambda e, i, o: res.append(o))
        assert len(res) == 1
        k, v = res[0]
        mine = ORD[v.variant] if k == "return" else "panic"
        real = vercmp_native(ctx, a, b)
        if mine != real:
            raise Unsupported("translator validation failed: compare_version_string(%r, %r): interpreter %s, real crate %s" % (a, b, mine, real))
        ctx.validated += 1


def c13_pair(ctx, la, lb):
    f = ctx.find_fn(r"(version::)?compare_version_string")
    validate_vercmp(ctx, f)
    ex = Exec(ctx.funcs, intrinsics.I)
    ctx.stats = ex.stats
    ctx.bounds = "all strings a, b of exactly %d and %d bytes, every byte in 0x01..0x7f (ASCII, NUL excluded)" % (la, lb)

    def setup(e):
        return sym_bytes(e, "a", la), sym_bytes(e, "b", lb)

    def body(e, inp):
        a, b = inp
        r1 = e.call_fn(f, [Str(a), Str(b)])
        r2 = e.call_fn(f, [Str(b), Str(a)])
        ref = refs.rpmvercmp(e, a, b)
        ref2 = refs.rpmvercmp(e, b, a)
        return ORD[r1.variant], ORD[r2.variant], ref, ref2

    def on_path(e, inp, out):
        k, v = out
        if k != "return":
            a, b = model_bytes(e, inp[0]), model_bytes(e, inp[1])
            ctx.fail("version comparison panics: %s" % (v,), "compare_version_string", a=a.hex(), b=b.hex(), kind="panic")
            return
        r1, r2, ref, ref2 = v
        ctx.cover("result Less", r1 == -1)
        ctx.cover("result Equal on different strings", r1 == 0 and len(e.trace) > 1)
        ctx.cover("result Greater", r1 == 1)
        if r1 != ref:
            a, b = model_bytes(e, inp[0]), model_bytes(e, inp[1])
            ctx.fail("comparison differs from rpmvercmp", "compare_version_string", a=a.hex(), b=b.hex(), got=r1, expected=ref, kind="ref")
        if r2 != ref2:
            a, b = model_bytes(e, inp[0]), model_bytes(e, inp[1])
            ctx.fail("comparison differs from rpmvercmp", "compare_version_string", a=b.hex(), b=a.hex(), got=r2, expected=ref2, kind="ref")
        if r1 != -r2:
            a, b = model_bytes(e, inp[0]), model_bytes(e, inp[1])
            ctx.fail("comparison is not antisymmetric", "compare_version_string", a=a.hex(), b=b.hex(), got=r1, swapped=r2, kind="antisym")

    ex.run_all(setup, body, on_path)
    if la == lb:
        # reflexivity: a == a is the first statement's business; decided on the same shape with b := a
        ex2 = Exec(ctx.funcs, intrinsics.I)

        def body2(e, a):
            return ORD[e.call_fn(f, [Str(a), Str(list(a))]).variant]

        def on2(e, a, out):
            if out != ("return", 0):
                ctx.fail("comparison is not reflexive", "compare_version_string", a=model_bytes(e, a).hex(), kind="refl")
        ex2.run_all(lambda e: sym_bytes(e, "a", la), body2, on2)
        for k in ("paths", "decisions", "solver_calls"):
            setattr(ex.stats, k, getattr(ex.stats, k) + getattr(ex2.stats, k))


def replay_c13(ctx, fl):
    """native replay of a C13 counterexample"""
    if fl["kind"] in ("evr", "evreq"):
        H = Native.hex
        args = [H(bytes.fromhex(fl[k])) for k in ("e1", "v1", "r1", "e2", "v2", "r2")]
        eq, o = ctx.native.ask("evr_eq", *args).split()
        if fl["kind"] == "evreq":
            return eq == "true" and int(o) != 0, "real crate: == is %s, cmp is %s" % (eq, o)
        return int(o) != fl["expected"], "real crate: cmp is %s, specification %s" % (o, fl["expected"])
    a, b = bytes.fromhex(fl["a"]), bytes.fromhex(fl["b"])
    real = vercmp_native(ctx, a, b)
    if fl["kind"] == "ref":
        if real != fl["got"]:
            return False, "encoding disagrees with the real crate on (%r, %r): predicted %s, real %s" % (a, b, fl["got"], real)
        return real != fl["expected"], "real crate returns %s, rpmvercmp gives %s for (%r, %r)" % (real, fl["expected"], a, b)
    if fl["kind"] == "antisym":
        real2 = vercmp_native(ctx, b, a)
        return real != -real2, "cmp(a,b)=%s cmp(b,a)=%s for (%r, %r)" % (real, real2, a, b)
    if fl["kind"] == "refl":
        return real != 0, "cmp(a,a)=%s for %r" % (real, a)
    if fl["kind"] in ("evr", "evreq"):
        H = Native.hex
        args = [H(bytes.fromhex(fl[k])) for k in ("e1", "v1", "r1", "e2", "v2", "r2")]
        eq, o = ctx.native.ask("evr_eq", *args).split()
        if fl["kind"] == "evreq":
            return eq == "true" and int(o) != 0, "real crate: == is %s, cmp is %s" % (eq, o)
        return int(o) != fl["expected"], "real crate: cmp is %s, specification %s" % (o, fl["expected"])
    if fl["kind"] == "trans":
        c = bytes.fromhex(fl["c"])
        rab, rbc, rac = real, vercmp_native(ctx, b, c), vercmp_native(ctx, a, c)
        bad = (rab <= 0 and rbc <= 0 and (rac > 0 or ((rab < 0 or rbc < 0) and rac == 0)))
        return bad, "cmp(a,b)=%s cmp(b,c)=%s cmp(a,c)=%s for (%r, %r, %r)" % (rab, rbc, rac, a, b, c)
    return False, "unknown kind"


for _la in range(0, 5):
    for _lb in range(_la, 5):
        HARNESSES["c13_vercmp_%d_%d" % (_la, _lb)] = (lambda la, lb: (lambda ctx: c13_pair(ctx, la, lb)))(_la, _lb)


def c13_prefixed(ctx, pa, pb, la, lb):
    """strings = literal prefix + symbolic tail: long digit runs / shared prefixes that short exhaustive shapes cannot reach"""
    f = ctx.find_fn(r"(version::)?compare_version_string")
    ex = Exec(ctx.funcs, intrinsics.I)
    ctx.stats = ex.stats
    ctx.bounds = "a = %r + %d symbolic ASCII bytes, b = %r + %d symbolic ASCII bytes" % (pa.decode(), la, pb.decode(), lb)

    def setup(e):
        return sym_bytes(e, "a", la), sym_bytes(e, "b", lb)

    def body(e, inp):
        a = [z3.BitVecVal(x, 8) for x in pa] + inp[0]
        b = [z3.BitVecVal(x, 8) for x in pb] + inp[1]
        r1 = e.call_fn(f, [Str(a), Str(b)])
        r2 = e.call_fn(f, [Str(b), Str(a)])
        return ORD[r1.variant], ORD[r2.variant], refs.rpmvercmp(e, a, b), refs.rpmvercmp(e, b, a)

    def on_path(e, inp, out):
        k, v = out
        a = pa + model_bytes(e, inp[0])
        b = pb + model_bytes(e, inp[1])
        if k != "return":
            ctx.fail("version comparison panics: %s" % (v,), "compare_version_string", a=a.hex(), b=b.hex(), kind="panic")
            return
        r1, r2, ref, ref2 = v
        ctx.cover("compared", True)
        if r1 != ref:
            ctx.fail("comparison differs from rpmvercmp", "compare_version_string", a=a.hex(), b=b.hex(), got=r1, expected=ref, kind="ref")
        if r2 != ref2:
            ctx.fail("comparison differs from rpmvercmp", "compare_version_string", a=b.hex(), b=a.hex(), got=r2, expected=ref2, kind="ref")
        if r1 != -r2:
            ctx.fail("comparison is not antisymmetric", "compare_version_string", a=a.hex(), b=b.hex(), got=r1, swapped=r2, kind="antisym")
    ex.run_all(setup, body, on_path)


_BIG = b"1844674407370955161"      # 19 digits: one more digit crosses 2^64
PREFIXED = {
    "big64": (_BIG, _BIG, 1, 1), "big64_2": (_BIG, _BIG, 2, 2), "big_vs_bigger": (b"9" * 20, b"9" * 20, 1, 1), "zeros": (b"000", b"0", 2, 2),
    "dot_big": (b"1." + _BIG, b"1." + _BIG, 2, 2), "alpha_long": (b"abcdefghijklmnopqrstuvwxyz", b"abcdefghijklmnopqrstuvwxyz", 1, 2), "tilde": (b"1.0~", b"1.0", 2, 2),
    "caret": (b"1.0^", b"1.0", 2, 2), "sep_runs": (b"1...", b"1.", 2, 2),
    # a literal non-ASCII character (two UTF-8 bytes) among the segments: rpm treats every non-alphanumeric byte as a separator
    "nonascii_sep": ("1\u00e9".encode(), b"1", 2, 2), "nonascii_lead": ("\u00e9".encode(), b"", 2, 2), "nonascii_mid": ("a\u00e9".encode(), b"a.", 1, 2),
    "nonascii_both": ("1\u00e9".encode(), "1\u00e9".encode(), 1, 2),
}
for _k, _v in PREFIXED.items():
    HARNESSES["c13_prefixed_" + _k] = (lambda v: (lambda ctx: c13_prefixed(ctx, *v)))(_v)


def c13_evr(ctx, le1, le2, lv, lr):
    """Evr ordering: epoch (empty = 0), then version, then release, each by rpmvercmp; PartialEq-equal values compare Equal"""
    cmpf = ctx.impl_fn("cmp", "Ord", "Evr")
    eqf = ctx.impl_fn("eq", "PartialEq", "Evr")
    ex = Exec(ctx.funcs, intrinsics.I)
    ctx.stats = ex.stats
    ctx.bounds = "two EVRs: epochs of %d and %d symbolic bytes from {0-9}, versions of %d and releases of %d symbolic ASCII bytes each" % (le1, le2, lv, lr)
    from harnesses_text import evr_val

    def setup(e):
        inp = [sym_bytes(e, "e1", le1, 0x30, 0x39), sym_bytes(e, "v1", lv), sym_bytes(e, "r1", lr), sym_bytes(e, "e2", le2, 0x30, 0x39), sym_bytes(e, "v2", lv), sym_bytes(e, "r2", lr)]
        return inp

    def body(e, inp):
        a = evr_val(inp[0], inp[1], inp[2])
        b = evr_val(inp[3], inp[4], inp[5])
        from symex import Ref, Cell
        r = ORD[e.call_fn(cmpf, [Ref(Cell(a)), Ref(Cell(b))]).variant]
        eq = e.call_fn(eqf, [Ref(Cell(a)), Ref(Cell(b))])
        iseq = e.decide(eq.e)
        zero = [z3.BitVecVal(0x30, 8)]
        ref = refs.rpmvercmp(e, inp[0] or zero, inp[3] or zero)
        if ref == 0:
            ref = refs.rpmvercmp(e, inp[1], inp[4])
        if ref == 0:
            ref = refs.rpmvercmp(e, inp[2], inp[5])
        return r, iseq, ref

    def on_path(e, inp, out):
        k, v = out
        wit = dict(zip(["e1", "v1", "r1", "e2", "v2", "r2"], [model_bytes(e, x).hex() for x in inp]))
        if k != "return":
            ctx.fail("EVR comparison panics", "Evr::cmp", kind="panic", **wit)
            return
        r, iseq, ref = v
        ctx.cover("equal pair", iseq)
        ctx.cover("unequal pair", not iseq)
        if r != ref:
            ctx.fail("EVR ordering differs from epoch/version/release rpmvercmp", "Evr::cmp", kind="evr", got=r, expected=ref, **wit)
        if iseq and r != 0:
            ctx.fail("EVRs that are equal (==) do not compare as Equal", "Evr::eq / Evr::cmp", kind="evreq", got=r, **wit)

    ex.run_all(setup, body, on_path)


for _s in [(0, 0, 1, 1), (0, 1, 1, 1), (1, 0, 1, 1), (1, 1, 1, 1), (0, 1, 1, 0), (2, 1, 1, 0)]:
    HARNESSES["c13_evr_%d_%d_%d_%d" % _s] = (lambda s: (lambda ctx: c13_evr(ctx, *s)))(_s)


def c13_trans(ctx, l1, l2, l3):
    f = ctx.find_fn(r"(version::)?compare_version_string")
    ex = Exec(ctx.funcs, intrinsics.I)
    ctx.stats = ex.stats
    ctx.bounds = "all triples of strings of exactly %d, %d, %d bytes over 0x01..0x7f" % (l1, l2, l3)

    def setup(e):
        return sym_bytes(e, "a", l1), sym_bytes(e, "b", l2), sym_bytes(e, "c", l3)

    def body(e, inp):
        a, b, c = inp
        rab = ORD[e.call_fn(f, [Str(a), Str(b)]).variant]
        if rab > 0:
            return None   # premise false: nothing to check on this path (the symmetric triple is its own path)
        rbc = ORD[e.call_fn(f, [Str(b), Str(c)]).variant]
        if rbc > 0:
            return None
        rac = ORD[e.call_fn(f, [Str(a), Str(c)]).variant]
        return rab, rbc, rac

    def on_path(e, inp, out):
        k, v = out
        if k != "return":
            ctx.fail("version comparison panics", "compare_version_string", a=model_bytes(e, inp[0]).hex(), b=model_bytes(e, inp[1]).hex(), kind="panic")
            return
        if v is None:
            return
        rab, rbc, rac = v
        ctx.cover("premise a<=b<=c reached")
        ctx.cover("strict chain", rab < 0 and rbc < 0)
        if rac > 0 or ((rab < 0 or rbc < 0) and rac == 0):
            a, b, c = (model_bytes(e, x) for x in inp)
            ctx.fail("comparison is not transitive", "compare_version_string", a=a.hex(), b=b.hex(), c=c.hex(), kind="trans")

    ex.run_all(setup, body, on_path)


for _s in [(1, 1, 1), (1, 1, 2), (1, 2, 1), (2, 1, 1), (1, 2, 2), (2, 1, 2), (2, 2, 1), (2, 2, 2), (0, 1, 2), (2, 1, 0), (1, 0, 2)]:
    HARNESSES["c13_trans_%d_%d_%d" % _s] = (lambda s: (lambda ctx: c13_trans(ctx, *s)))(_s)

REPLAYERS["c13"] = replay_c13


# ---------------------------------------------------------------------------------------------------------
# main
# ---------------------------------------------------------------------------------------------------------
def main():
    ap = argparse.ArgumentParser()
    ap.add_argument("--harness", required=True)
    ap.add_argument("--mir", required=True)
    ap.add_argument("--native", required=True)
    ap.add_argument("--out", required=True)
    ap.add_argument("--seed", type=int, default=0)
    ap.add_argument("--replay-dir", default=None)
    ap.add_argument("--repo", default="/repo")
    ap.add_argument("--replay-json", default=None, help="replay the witnesses of a counterexample file written by an earlier run against the real crate")
    a = ap.parse_args()
    t0 = time.time()
    import symex as _sx
    _sx.REPO_ROOT[0] = a.repo
    res = {"harness": a.harness, "verdict": "ERROR", "failed": [], "covers": []}
    import intrinsics2  # noqa: F401
    import harnesses_text  # noqa: F401  (registers the C15/C19 harnesses)
    import harnesses_pkg  # noqa: F401
    import harnesses_build  # noqa: F401
    if a.replay_json:
        # replay only: no symbolic execution, the stored witnesses go to the native helper (or become an in-crate test for the driver)
        doc = json.load(open(a.replay_json))
        ctx = Ctx({}, Native(a.native), a.seed)
        ctx.hname = doc.get("harness", a.harness)
        rp = REPLAYERS[ctx.hname.split("_")[0]]
        out = {"harness": ctx.hname, "reproduced": False, "why": [], "incrate": None}
        for fl in doc.get("witnesses", []):
            r = rp(ctx, fl)
            out["reproduced"] = out["reproduced"] or bool(r[0])
            out["why"].append(r[1])
            if len(r) > 2 and r[2] and out["incrate"] is None:
                out["incrate"] = r[2]
        json.dump(out, open(a.out, "w"), indent=1)
        print(ctx.hname, "REPLAY", "reproduced" if out["reproduced"] else "not reproduced")
        return
    try:
        funcs = mir.parse_mir(open(a.mir).read())
        ctx = Ctx(funcs, Native(a.native), a.seed)
        ctx.hname = a.harness
        fn = HARNESSES[a.harness]
        fn(ctx)
        st = ctx.stats
        res.update({
            "paths": st.paths, "decisions": st.decisions, "solver_calls": st.solver_calls, "solver_s": round(st.solver_s, 3),
            "n_checks": st.paths, "max_depth": st.max_depth,
            "functions": sorted(st.functions), "intrinsics": sorted(st.intrinsics), "bounds": ctx.bounds,
            "validated_against_native": ctx.validated, "extra": ctx.extra,
            "covers": [{"description": k, "status": "Satisfied" if v else "Unsatisfiable"} for k, v in sorted(ctx.covers.items())],
        })
        if not ctx.failed:
            res["verdict"] = "SUCCESS"
        else:
            res["verdict"] = "FAILED"
            # deduplicate by description, keep the first witness of each
            seen = {}
            for fl in ctx.failed:
                seen.setdefault(fl["description"], fl)
            res["failed"] = list(seen.values())
            # replay each witness natively
            rp = REPLAYERS[a.harness.split("_")[0]]
            reproduced = False
            whys = []
            incrate = None
            for fl in res["failed"]:
                out = rp(ctx, fl)
                ok, why = out[0], out[1]
                if len(out) > 2 and out[2] and incrate is None:
                    # the witness concerns crate-private code: a unit test for the driver to run inside the crate (cargo kani playback)
                    incrate = out[2]
                fl["reproduced"] = ok
                fl["native"] = why
                whys.append(why)
                reproduced = reproduced or ok
            path = ""
            if a.replay_dir:
                os.makedirs(a.replay_dir, exist_ok=True)
                path = os.path.join(a.replay_dir, a.harness + ".json")
                json.dump({"engine": "mirsmt", "harness": a.harness, "witnesses": res["failed"]}, open(path, "w"), indent=1)
            res["replay"] = {"reproduced": reproduced, "why": "; ".join(whys), "path": path}
            if incrate and not reproduced:
                res["replay"]["incrate"] = incrate
    except Unsupported as e:
        res["verdict"] = "UNSUPPORTED"
        res["error"] = str(e)
    except Exception as e:  # noqa: BLE001
        res["verdict"] = "ERROR"
        res["error"] = "%s: %s" % (type(e).__name__, e)
        res["trace"] = traceback.format_exc()[-2000:]
    res["wall_s"] = round(time.time() - t0, 2)
    json.dump(res, open(a.out, "w"), indent=1)
    print(a.harness, res["verdict"], res.get("paths"), "paths", res["wall_s"], "s", res.get("error", ""))


if __name__ == "__main__":
    main()
