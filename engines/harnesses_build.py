"""MIR-engine harnesses that run the package builder itself (PackageBuilder::new -> setters -> build) from MIR.
C11 (reproducibility: the bytes do not depend on hash-set iteration order or the clock), C09 (what the builder emits is
structurally valid), C06 (what was put in is read back)."""
import os
import z3

import intrinsics
import intrinsics2
import intrinsics3
from intrinsics2 import as_bytes
from mreg import HARNESSES, REPLAYERS, Native, model_bytes, sym_bytes
from symex import Adt, Arr, Bool as Bool_, Cell, Exec, Int, Ref, Str, Tup, Unsupported, VecV
from rpmvals import string


def builder_new(ctx, e, name=b"n", version=b"1", lic=b"MIT", arch=b"noarch", summary=b"s"):
    new = ctx.impl_fn("new", None, "PackageBuilder")
    return e.call_fn(new, [Str.lit(name), Str.lit(version), Str.lit(lic), Str.lit(arch), Str.lit(summary)])


def clock_stub(e, not_before=None):
    """environment: the clock returns an arbitrary instant, a fresh one per call (Timestamp::now is SystemTime::now behind a conversion);
    with `not_before`, no reading is earlier than that instant (a source date lies in the past)"""
    e._now_n = 0

    def now(ex, args, f):
        ex._now_n += 1
        t = z3.BitVec("now_%d" % ex._now_n, 32)
        if not_before is not None:
            ex.solver.add(z3.UGE(t, not_before))
            ex.model = None
        return Adt("Timestamp", "Timestamp", [Int(t, "u32")])
    e.overrides = dict(getattr(e, "overrides", {}) or {})
    e.overrides["timestamp::Timestamp::now"] = now
    e.overrides["Timestamp::now"] = now


def b_probe(ctx):
    build = ctx.impl_fn("build", None, "PackageBuilder")
    ex = Exec(ctx.funcs, intrinsics.I, max_steps=2000000)
    ctx.stats = ex.stats
    ctx.bounds = "probe"

    def body(e, inp):
        clock_stub(e)
        b = builder_new(ctx, e)
        comp = ctx.impl_fn("compression", None, "PackageBuilder")
        b = e.call_fn(comp, [b, Adt("CompressionWithLevel", "None")])
        return e.call_fn(build, [b])

    def on_path(e, inp, out):
        k, v = out
        print("PATH", k, str(v)[:300])
        ctx.cover("built", k == "return")
    ex.run_all(lambda e: None, body, on_path)


HARNESSES["b_probe"] = b_probe


def file_options(dest, user=b"root", group=b"root", mode=0o100644, flags=0, verify=0xffffffff, link=b""):
    return Adt("FileOptions", "FileOptions", [string(dest), string(user), string(group), string(link), Adt("FileMode", "Regular", [Int(mode & 0o7777, "u16")]),
                                              Adt("FileFlags", "bits", [Int(flags, "u32")]), Bool_(False), Adt("Option", "None"), Adt("FileVerifyFlags", "bits", [Int(verify, "u32")])])


def build_package(ctx, e, files, source_date=None, setters=()):
    """PackageBuilder::new(..).compression(None)[.source_date(sd)] + add_data per file + build(), all from MIR.
    files: [(destination bytes, user, group, content byte terms, mtime term)]"""
    comp = ctx.impl_fn("compression", None, "PackageBuilder")
    build = ctx.impl_fn("build", None, "PackageBuilder")
    add = ctx.impl_fn("add_data", None, "PackageBuilder")
    clock_stub(e, not_before=source_date)
    b = builder_new(ctx, e)
    b = e.call_fn(comp, [b, Adt("CompressionWithLevel", "None")])
    if source_date is not None:
        b.fields[_field_index("PackageBuilder", "source_date")] = intrinsics3.some(Adt("Timestamp", "Timestamp", [Int(source_date, "u32")]))
    for name, args in setters:
        b = e.call_fn(ctx.impl_fn(name, None, "PackageBuilder"), [b] + list(args))
    cell = Cell(b)
    for dest, user, group, content, mtime in files:
        r = e.call_fn(add, [Ref(cell), intrinsics2.VecV([Int(x, "u8") for x in content]) if True else None, Adt("Timestamp", "Timestamp", [Int(mtime, "u32")]),
                            file_options(dest, user, group)])
        if r.variant != "Ok":
            raise Unsupported("harness: add_data rejected %r" % (dest,))
    return e.call_fn(build, [cell.v])


_FIELDS = {}


def _field_index(struct, field):
    """position of a named field of a crate struct, read from the repository's source (the executor stores struct fields by position)"""
    import glob
    import re as _re
    from symex import REPO_ROOT
    if struct not in _FIELDS:
        for p in glob.glob(os.path.join(REPO_ROOT[0], "src", "**", "*.rs"), recursive=True):
            txt = open(p, errors="replace").read()
            m = _re.search(r"pub struct %s(?:<[^>]*>)? \{(.*?)\n\}" % struct, txt, _re.S)
            if m:
                _FIELDS[struct] = _re.findall(r"^\s*(?:pub(?:\([a-z]+\))? )?(\w+):", m.group(1), _re.M)
                break
    return _FIELDS[struct].index(field)


def written_bytes(ctx, e, pkg):
    wr = ctx.impl_fn("write", None, "Package")
    out = VecV([])
    r = e.call_fn(wr, [Ref(Cell(pkg)), Ref(Cell(out))])
    assert r.variant == "Ok"
    return as_bytes(e, out)


def _env_vars(exprs):
    """environment variables (clock values, hash-set iteration order) occurring in the given terms"""
    seen, out, stack = set(), {}, list(exprs)
    while stack:
        x = stack.pop()
        if x.get_id() in seen:
            continue
        seen.add(x.get_id())
        if z3.is_const(x) and x.decl().kind() == z3.Z3_OP_UNINTERPRETED:
            n = x.decl().name()
            if n.startswith("now_") or n.startswith("hash_order_"):
                out[n] = x
        stack.extend(x.children())
    return out


def c11_repro(ctx, owners, sym_owner_chars=0):
    """owners: one (user, group) pair of literal names per file.  Two runs of the same configuration = the same inputs under two independent
    environments (clock readings, hash-set iteration orders): the written bytes must be equal; and no time stamp exceeds the source date."""
    ex = Exec(ctx.funcs, intrinsics.I, max_steps=4000000)
    ctx.stats = ex.stats
    ctx.bounds = ("PackageBuilder::new .. build() from MIR with %d file(s) owned by %s, one symbolic content byte and a symbolic modification time each, symbolic source date, no compression; "
                  "environment = clock readings (arbitrary but not before the source date, fresh per call) and HashSet iteration order (arbitrary permutation per iteration)" % (len(owners), ", ".join("%s:%s" % (u.decode(), g.decode()) for u, g in owners)))
    runs = []

    def setup(e):
        d = dict(sd=z3.BitVec("source_date", 32), mt=[z3.BitVec("mtime_%d" % i, 32) for i in range(len(owners))], c=[z3.BitVec("content_%d" % i, 8) for i in range(len(owners))])
        if sym_owner_chars:
            # owner names: symbolic lower-case letters (every combination, including equal names and "root"-like orderings)
            d["own"] = [(sym_bytes(e, "u%d_" % i, sym_owner_chars, 0x61, 0x7a), sym_bytes(e, "g%d_" % i, sym_owner_chars, 0x61, 0x7a)) for i in range(len(owners))]
        return d

    def body(e, inp):
        own = inp.get("own") or owners
        files = [(b"/d/f%d" % i, u, g, [inp["c"][i]], inp["mt"][i]) for i, (u, g) in enumerate(own)]
        r = build_package(ctx, e, files, source_date=inp["sd"])
        if r.variant != "Ok":
            return r, None, None
        pkg = r.fields[0]
        return r, written_bytes(ctx, e, pkg), pkg

    def on_path(e, inp, out):
        k, v = out
        if k != "return":
            ctx.fail("building panics: %s" % (v,), "PackageBuilder::build", kind="c11panic", owners=[[u.decode(), g.decode()] for u, g in owners])
            return
        r, bs, pkg = v
        ctx.cover("package built", r.variant == "Ok")
        if bs is None:
            return
        runs.append((z3.And(list(e.solver.assertions())), list(bs)))
        # clamping: BUILDTIME and every FILEMTIMES value are <= the source date
        hdr = pkg.fields[0].fields[2]
        from rpmvals import tag
        for ent in hdr.fields[1].items:
            t = ent.fields[0].conc()
            if t in (tag("RPMTAG_BUILDTIME"), tag("RPMTAG_FILEMTIMES")):
                for x in ent.fields[1].fields[0].items:
                    if e._check(z3.UGT(x.e, inp["sd"])):
                        ctx.fail("a time stamp in the package is later than the source date (tag %d)" % t, "PackageBuilder::build", kind="c11clamp", owners=[[u.decode(), g.decode()] for u, g in owners])
                        return

    ex.run_all(setup, body, on_path)
    ctx.cover("more than one environment explored", len(runs) >= 1)
    # pairwise: same inputs, independent environments.  Equality of two output bytes is shown structurally where possible (same operator, equal
    # arguments: congruence, needed for the digest functions whose argument lists are whole headers) and by a solver query on the sub-terms that
    # contain environment variables but no digest application.
    s = z3.Solver()
    s.set("timeout", 120000)
    stats = {"pair_queries": 0, "solver_queries": 0}

    def has_uf(x, memo={}):
        k = x.get_id()
        if k not in memo:
            memo[k] = (z3.is_app(x) and x.decl().kind() == z3.Z3_OP_UNINTERPRETED and x.num_args() > 0) or any(has_uf(c) for c in x.children())
        return memo[k]

    def prove_eq(x, y, memo):
        if x.eq(y):
            return True
        k = (x.get_id(), y.get_id())
        if k in memo:
            return memo[k]
        res = None
        if z3.is_app(x) and z3.is_app(y) and x.decl().eq(y.decl()) and x.num_args() == y.num_args() and x.num_args() > 0:
            if all(prove_eq(a, b, memo) for a, b in zip(x.children(), y.children())):
                res = True
        if res is None:
            if has_uf(x) or has_uf(y):
                res = False                     # would need the solver to reason about a digest of differing arguments: treated as different
            else:
                stats["solver_queries"] += 1
                s.push()
                s.add(x != y)
                r = s.check()
                s.pop()
                if r == z3.unknown:
                    raise Unsupported("solver timeout while comparing two builds")
                res = (r == z3.unsat)
        memo[k] = res
        return res

    for i, (pc1, b1) in enumerate(runs):
        for j, (pc2, b2) in enumerate(runs):
            if j < i:
                continue
            env = _env_vars([pc2] + b2)
            sub = [(v, z3.Const(n + "__run2", v.sort())) for n, v in env.items()]
            pc2r = z3.substitute(pc2, *sub) if sub else pc2
            b2r = [z3.substitute(x, *sub) if sub else x for x in b2]
            stats["pair_queries"] += 1
            s.push()
            s.add(pc1, pc2r)
            if s.check() != z3.sat:
                s.pop()
                continue                         # the two paths need different inputs: not two runs of the same configuration
            pos = None
            if len(b1) != len(b2r):
                pos = min(len(b1), len(b2r))
            else:
                memo = {}
                for k, (x, y) in enumerate(zip(b1, b2r)):
                    if not prove_eq(x, y, memo):
                        pos = k
                        break
            s.pop()
            if pos is not None:
                ctx.fail("two builds of the same configuration differ (environment: hash-set iteration order / clock)", "PackageBuilder::build", kind="c11diff",
                         owners=[[u.decode(), g.decode()] for u, g in owners], first_difference_at=pos, lengths=[len(b1), len(b2r)])
                ctx.extra.update(stats)
                ctx.extra["environments"] = len(runs)
                return
    ctx.extra.update(stats)
    ctx.extra["environments"] = len(runs)


HARNESSES["c11_repro_root1"] = lambda ctx: c11_repro(ctx, [(b"root", b"root")])
HARNESSES["c11_repro_user1"] = lambda ctx: c11_repro(ctx, [(b"a", b"g")])
HARNESSES["c11_repro_user2"] = lambda ctx: c11_repro(ctx, [(b"a", b"g"), (b"b", b"h")])
HARNESSES["c11_repro_user3"] = lambda ctx: c11_repro(ctx, [(b"a", b"g"), (b"b", b"h"), (b"c", b"g")])
HARNESSES["c11_repro_sym2"] = lambda ctx: c11_repro(ctx, [(b"?", b"?"), (b"?", b"?")], sym_owner_chars=1)


def replay_c11(ctx, fl):
    owners = ",".join("%s:%s" % (u, g) for u, g in fl.get("owners", []))
    ans = ctx.native.ask("repro", owners or "-", fl.get("kind", ""))
    if fl.get("kind") == "c11panic":
        return ans.startswith("panic"), "real crate: " + ans
    if fl.get("kind") == "c11clamp":
        return ans.startswith("late"), "real crate: " + ans
    return ans.startswith("differ"), "real crate, the same configuration built 24 times in one process: " + ans


REPLAYERS["c11"] = replay_c11
