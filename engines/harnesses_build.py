"""MIR-engine harnesses that run the package builder itself (PackageBuilder::new -> setters -> build) from MIR.
C11 (reproducibility: the bytes do not depend on hash-set iteration order or the clock), C09 (what the builder emits is
structurally valid), C06 (what was put in is read back)."""
import os
import z3

import intrinsics
import intrinsics2
import intrinsics3
from intrinsics2 import as_bytes
from mreg import HARNESSES, REPLAYERS, Native, model_bytes, sym_bytes
from symex import Adt, Arr, Bool as Bool_, Cell, Exec, Int, Ref, Str, Tup, Unsupported, VecV
from rpmvals import string


def builder_new(ctx, e, name=b"n", version=b"1", lic=b"MIT", arch=b"noarch", summary=b"s"):
    new = ctx.impl_fn("new", None, "PackageBuilder")
    return e.call_fn(new, [Str.lit(name), Str.lit(version), Str.lit(lic), Str.lit(arch), Str.lit(summary)])


def clock_stub(e, not_before=None):
    """environment: the clock returns an arbitrary instant, a fresh one per call (Timestamp::now is SystemTime::now behind a conversion);
    with `not_before`, no reading is earlier than that instant (a source date lies in the past)"""
    e._now_n = 0
    del intrinsics3.ENCODERS[:]

    def now(ex, args, f):
        ex._now_n += 1
        t = z3.BitVec("now_%d" % ex._now_n, 32)
        if not_before is not None:
            ex.solver.add(z3.UGE(t, not_before))
            ex.model = None
        return Adt("Timestamp", "Timestamp", [Int(t, "u32")])
    e.overrides = dict(getattr(e, "overrides", {}) or {})
    e.overrides["timestamp::Timestamp::now"] = now
    e.overrides["Timestamp::now"] = now


def b_probe(ctx):
    build = ctx.impl_fn("build", None, "PackageBuilder")
    ex = Exec(ctx.funcs, intrinsics.I, max_steps=2000000)
    ctx.stats = ex.stats
    ctx.bounds = "probe"

    def body(e, inp):
        clock_stub(e)
        b = builder_new(ctx, e)
        comp = ctx.impl_fn("compression", None, "PackageBuilder")
        b = e.call_fn(comp, [b, Adt("CompressionWithLevel", "None")])
        return e.call_fn(build, [b])

    def on_path(e, inp, out):
        k, v = out
        print("PATH", k, str(v)[:300])
        ctx.cover("built", k == "return")
    ex.run_all(lambda e: None, body, on_path)


HARNESSES["b_probe"] = b_probe


def file_options(dest, user=b"root", group=b"root", mode=0o100644, flags=0, verify=0xffffffff, link=b"", ftype="Regular"):
    return Adt("FileOptions", "FileOptions", [string(dest), string(user), string(group), string(link), Adt("FileMode", ftype, [Int(mode & 0o7777, "u16")]),
                                              Adt("FileFlags", "bits", [Int(flags, "u32")]), Bool_(False), Adt("Option", "None"), Adt("FileVerifyFlags", "bits", [Int(verify, "u32")])])


def build_package(ctx, e, files, source_date=None, setters=(), late_source_date=False):
    """PackageBuilder::new(..).compression(None)[.source_date(sd)] + add_data per file + build(), all from MIR.
    files: [(destination bytes, user, group, content byte terms, mtime term)]"""
    comp = ctx.impl_fn("compression", None, "PackageBuilder")
    build = ctx.impl_fn("build", None, "PackageBuilder")
    add = ctx.impl_fn("add_data", None, "PackageBuilder")
    clock_stub(e, not_before=source_date)
    b = builder_new(ctx, e)
    b = e.call_fn(comp, [b, Adt("CompressionWithLevel", "None")])
    if source_date is not None and not late_source_date:
        b.fields[_field_index("PackageBuilder", "source_date")] = intrinsics3.some(Adt("Timestamp", "Timestamp", [Int(source_date, "u32")]))
    for name, args in setters:
        b = e.call_fn(ctx.impl_fn(name, None, "PackageBuilder"), [b] + list(args))
    cell = Cell(b)
    for dest, user, group, content, mtime in files:
        r = e.call_fn(add, [Ref(cell), intrinsics2.VecV([Int(x, "u8") for x in content]) if True else None, Adt("Timestamp", "Timestamp", [Int(mtime, "u32")]),
                            file_options(dest, user, group)])
        if r.variant != "Ok":
            raise Unsupported("harness: add_data rejected %r" % (dest,))
    if source_date is not None and late_source_date:
        # .source_date(..) called after the files were added (the order the crate's documentation example uses)
        cell.v.fields[_field_index("PackageBuilder", "source_date")] = intrinsics3.some(Adt("Timestamp", "Timestamp", [Int(source_date, "u32")]))
    return e.call_fn(build, [cell.v])


_FIELDS = {}


def _field_index(struct, field):
    """position of a named field of a crate struct, read from the repository's source (the executor stores struct fields by position)"""
    import glob
    import re as _re
    from symex import REPO_ROOT
    if struct not in _FIELDS:
        for p in glob.glob(os.path.join(REPO_ROOT[0], "src", "**", "*.rs"), recursive=True):
            txt = open(p, errors="replace").read()
            m = _re.search(r"pub struct %s(?:<[^>]*>)? \{(.*?)\n\}" % struct, txt, _re.S)
            if m:
                _FIELDS[struct] = _re.findall(r"^\s*(?:pub(?:\([a-z]+\))? )?(\w+):", m.group(1), _re.M)
                break
    return _FIELDS[struct].index(field)


def written_bytes(ctx, e, pkg):
    wr = ctx.impl_fn("write", None, "Package")
    out = VecV([])
    r = e.call_fn(wr, [Ref(Cell(pkg)), Ref(Cell(out))])
    assert r.variant == "Ok"
    return as_bytes(e, out)


def _env_vars(exprs):
    """environment variables (clock values, hash-set iteration order) occurring in the given terms"""
    seen, out, stack = set(), {}, list(exprs)
    while stack:
        x = stack.pop()
        if x.get_id() in seen:
            continue
        seen.add(x.get_id())
        if z3.is_const(x) and x.decl().kind() == z3.Z3_OP_UNINTERPRETED:
            n = x.decl().name()
            if n.startswith("now_") or n.startswith("hash_order_"):
                out[n] = x
        stack.extend(x.children())
    return out


def compression_value(e, comp, zstd_documented_range=True):
    """CompressionWithLevel value for 'none' | 'gzip' | 'xz' | 'bzip2' | 'zstd' with a symbolic level inside the range Compressor::try_from accepts"""
    if comp in (None, "none"):
        return Adt("CompressionWithLevel", "None")
    lv = z3.BitVec("compression_level", 32)
    if comp in ("gzip", "xz"):
        e.solver.add(z3.ULE(lv, 9))
        e.model = None
    elif comp == "bzip2":
        e.solver.add(z3.UGE(lv, 1), z3.ULE(lv, 9))
        e.model = None
    elif comp == "zstd" and zstd_documented_range:
        e.solver.add(lv >= 1, lv <= 22)
        e.model = None
    return Adt("CompressionWithLevel", comp.capitalize(), [Int(lv, "i32" if comp == "zstd" else "u32")])


def c11_repro(ctx, owners, sym_owner_chars=0, dests=None, late_source_date=False, extra=""):
    """owners: one (user, group) pair of literal names per file.  Two runs of the same configuration = the same inputs under two independent
    environments (clock readings, hash-set iteration orders): the written bytes must be equal; and no time stamp exceeds the source date."""
    ex = Exec(ctx.funcs, intrinsics.I, max_steps=4000000)
    ctx.stats = ex.stats
    ctx.bounds = ("PackageBuilder::new .. build() from MIR with %d file(s) owned by %s, one symbolic content byte and a symbolic modification time each, symbolic source date, no compression; "
                  "environment = clock readings (arbitrary but not before the source date, fresh per call) and HashSet iteration order (arbitrary permutation per iteration)" % (len(owners), ", ".join("%s:%s" % (u.decode(), g.decode()) for u, g in owners)))
    runs = []
    shape = dict(dests=[d.decode() for d in dests] if dests else [], late=bool(late_source_date), extra=extra)
    if extra:
        ctx.bounds += {"host": "; .build_host(\"h\") set, no cookie", "duprec": "; .recommends(Dependency::user(<the first file's owner>)) given explicitly as well",
                       "hostcookie": "; .build_host(\"h\") and .cookie(\"c\") set"}[extra]

    def setup(e):
        d = dict(sd=z3.BitVec("source_date", 32), mt=[z3.BitVec("mtime_%d" % i, 32) for i in range(len(owners))], c=[z3.BitVec("content_%d" % i, 8) for i in range(len(owners))])
        if sym_owner_chars:
            # owner names: symbolic lower-case letters (every combination, including equal names and "root"-like orderings)
            d["own"] = [(sym_bytes(e, "u%d_" % i, sym_owner_chars, 0x61, 0x7a), sym_bytes(e, "g%d_" % i, sym_owner_chars, 0x61, 0x7a)) for i in range(len(owners))]
        return d

    def body(e, inp):
        own = inp.get("own") or owners
        files = [((dests[i] if dests else b"/d/f%d" % i), u, g, [inp["c"][i]], inp["mt"][i]) for i, (u, g) in enumerate(own)]
        setters = []
        if extra in ("host", "hostcookie"):
            setters.append(("build_host", [string(b"h")]))
        if extra == "hostcookie":
            setters.append(("cookie", [string(b"c")]))
        if extra == "duprec":
            setters.append(("recommends", [e.call_fn(ctx.impl_fn("user", None, "Dependency"), [string(own[0][0])])]))
        r = build_package(ctx, e, files, source_date=inp["sd"], late_source_date=late_source_date, setters=setters)
        if r.variant != "Ok":
            return r, None, None
        pkg = r.fields[0]
        return r, written_bytes(ctx, e, pkg), pkg

    def on_path(e, inp, out):
        k, v = out
        if k != "return":
            ctx.fail("building panics: %s" % (v,), "PackageBuilder::build", kind="c11panic", owners=[[u.decode(), g.decode()] for u, g in owners], **shape)
            return
        r, bs, pkg = v
        ctx.cover("package built", r.variant == "Ok")
        if bs is None:
            return
        runs.append((z3.And(list(e.solver.assertions())), list(bs)))
        # clamping: BUILDTIME and every FILEMTIMES value are <= the source date
        hdr = pkg.fields[0].fields[2]
        from rpmvals import tag
        for ent in hdr.fields[1].items:
            t = ent.fields[0].conc()
            if t in (tag("RPMTAG_BUILDTIME"), tag("RPMTAG_FILEMTIMES")):
                for x in ent.fields[1].fields[0].items:
                    if e._check(z3.UGT(x.e, inp["sd"])):
                        ctx.fail("a time stamp in the package is later than the source date (tag %d)" % t, "PackageBuilder::build", kind="c11clamp", owners=[[u.decode(), g.decode()] for u, g in owners], **shape)
                        return

    ex.run_all(setup, body, on_path)
    ctx.cover("more than one environment explored", len(runs) >= 1)
    # pairwise: same inputs, independent environments.  Equality of two output bytes is shown structurally where possible (same operator, equal
    # arguments: congruence, needed for the digest functions whose argument lists are whole headers) and by a solver query on the sub-terms that
    # contain environment variables but no digest application.
    s = z3.Solver()
    s.set("timeout", 120000)
    stats = {"pair_queries": 0, "solver_queries": 0}
    import time as _time
    _t0 = _time.time()

    def has_uf(x, memo={}):
        k = x.get_id()
        if k not in memo:
            memo[k] = (z3.is_app(x) and x.decl().kind() == z3.Z3_OP_UNINTERPRETED and x.num_args() > 0) or any(has_uf(c) for c in x.children())
        return memo[k]

    def prove_eq(x, y, memo):
        if x.eq(y):
            return True
        k = (x.get_id(), y.get_id())
        if k in memo:
            return memo[k]
        res = None
        if z3.is_app(x) and z3.is_app(y) and x.decl().eq(y.decl()) and x.num_args() == y.num_args() and x.num_args() > 0:
            if all(prove_eq(a, b, memo) for a, b in zip(x.children(), y.children())):
                res = True
        if res is None:
            if has_uf(x) or has_uf(y):
                res = False                     # would need the solver to reason about a digest of differing arguments: treated as different
            else:
                stats["solver_queries"] += 1
                s.push()
                s.add(x != y)
                r = s.check()
                s.pop()
                if r == z3.unknown:
                    raise Unsupported("solver timeout while comparing two builds")
                res = (r == z3.unsat)
        memo[k] = res
        return res

    for i, (pc1, b1) in enumerate(runs):
        for j, (pc2, b2) in enumerate(runs):
            if j < i:
                continue
            env = _env_vars([pc2] + b2)
            sub = [(v, z3.Const(n + "__run2", v.sort())) for n, v in env.items()]
            pc2r = z3.substitute(pc2, *sub) if sub else pc2
            b2r = [z3.substitute(x, *sub) if sub else x for x in b2]
            stats["pair_queries"] += 1
            s.push()
            s.add(pc1, pc2r)
            if s.check() != z3.sat:
                s.pop()
                continue                         # the two paths need different inputs: not two runs of the same configuration
            pos = None
            if len(b1) != len(b2r):
                pos = min(len(b1), len(b2r))
            else:
                memo = {}
                for k, (x, y) in enumerate(zip(b1, b2r)):
                    if not prove_eq(x, y, memo):
                        pos = k
                        break
            s.pop()
            if pos is not None:
                ctx.fail("two builds of the same configuration differ (environment: hash-set iteration order / clock)", "PackageBuilder::build", kind="c11diff",
                         owners=[[u.decode(), g.decode()] for u, g in owners], first_difference_at=pos, lengths=[len(b1), len(b2r)], **shape)
                ctx.extra.update(stats)
                ctx.extra["environments"] = len(runs)
                return
    ctx.extra.update(stats)
    ctx.extra["environments"] = len(runs)
    # the comparison phase is solver work too: count it in the reported solver time / calls
    ctx.stats.solver_s += _time.time() - _t0
    ctx.stats.solver_calls += stats["pair_queries"] + stats["solver_queries"]


HARNESSES["c11_repro_root1"] = lambda ctx: c11_repro(ctx, [(b"root", b"root")])
HARNESSES["c11_repro_user1"] = lambda ctx: c11_repro(ctx, [(b"a", b"g")])
HARNESSES["c11_repro_user2"] = lambda ctx: c11_repro(ctx, [(b"a", b"g"), (b"b", b"h")])
HARNESSES["c11_repro_dirs2"] = lambda ctx: c11_repro(ctx, [(b"root", b"root"), (b"root", b"root")], dests=[b"/d/f0", b"/e/f1"])
HARNESSES["c11_repro_dirs3"] = lambda ctx: c11_repro(ctx, [(b"root", b"root"), (b"a", b"g"), (b"root", b"root")], dests=[b"/d/f0", b"/e/f1", b"/c/x/f2"])
HARNESSES["c11_repro_late_sd"] = lambda ctx: c11_repro(ctx, [(b"root", b"root"), (b"a", b"g")], late_source_date=True)
HARNESSES["c11_repro_user3"] = lambda ctx: c11_repro(ctx, [(b"a", b"g"), (b"b", b"h"), (b"c", b"g")])
HARNESSES["c11_repro_host"] = lambda ctx: c11_repro(ctx, [(b"root", b"root")], extra="host")
HARNESSES["c11_repro_hostcookie"] = lambda ctx: c11_repro(ctx, [(b"root", b"root")], extra="hostcookie")
HARNESSES["c11_repro_duprec"] = lambda ctx: c11_repro(ctx, [(b"a", b"g"), (b"b", b"h")], extra="duprec")
HARNESSES["c11_repro_sym2"] = lambda ctx: c11_repro(ctx, [(b"?", b"?"), (b"?", b"?")], sym_owner_chars=1)


def replay_c11(ctx, fl):
    if fl.get("kind") == "c11sign":
        ans = ctx.native.ask("sign_time")
        return ans.startswith("late") or ans.startswith("panic"), "real crate: build_and_sign with a recording signer and source date 1600000000 -> " + ans
    owners = ",".join("%s:%s" % (u, g) for u, g in fl.get("owners", []))
    ans = ctx.native.ask("repro", owners or "-", ",".join(fl.get("dests") or []) or "-", "late" if fl.get("late") else "early", fl.get("extra") or "-")
    if fl.get("kind") == "c11panic":
        return ans.startswith("panic"), "real crate: " + ans
    if fl.get("kind") == "c11clamp":
        return ans.startswith("late"), "real crate: " + ans
    return ans.startswith("differ"), "real crate, the same configuration built 24 times in one process: " + ans


REPLAYERS["c11"] = replay_c11


# ---------------------------------------------------------------------------------------------------------
# C09 (builder part): what PackageBuilder::build emits is structurally valid, for named scenarios that exist
# both here (setter calls executed from MIR) and in the native helper (the same calls through the public API)
# ---------------------------------------------------------------------------------------------------------
def _scriptlet(text, prog=None, flags=None):
    return Adt("Scriptlet", "Scriptlet", [string(text), intrinsics3.some(Adt("ScriptletFlags", "bits", [Int(flags, "u32")])) if flags is not None else intrinsics3.NONE,
                                          intrinsics3.some(VecV([string(p) for p in prog])) if prog else intrinsics3.NONE])


def _dep(name, flags=0, version=b""):
    return Adt("Dependency", "Dependency", [string(name), Adt("DependencyFlags", "bits", [Int(flags, "u32")]), string(version)])


DEP_SETTERS = ("requires", "provides", "obsoletes", "conflicts", "recommends", "suggests", "enhances", "supplements")
SCRIPTLET_SETTERS = ("pre_install_script", "post_install_script", "pre_uninstall_script", "post_uninstall_script", "pre_trans_script", "post_trans_script",
                     "pre_untrans_script", "post_untrans_script")


SPECIAL_MODES = (0o104755, 0o102755, 0o101777)


def scenario(name):
    """(files, setters, caps) of a named builder scenario; files: (destination, user, group, caps text or None)"""
    if name == "empty":
        return [], [], None
    if name == "files2" or name.startswith("files2_"):
        return [(b"/d/f0", b"root", b"root", None), (b"/e/f1", b"u", b"g", None)], [], None
    if name == "utf8name":
        # a file name with multi-byte UTF-8 characters (literal): byte lengths and character counts differ
        return [("/d/gr\u00fc\u00dfe".encode(), b"root", b"root", None), (b"/d/z", b"root", b"root", None)], [], None
    if name == "scriptlets":
        return [], [(sn, [_scriptlet(b"echo " + sn.encode()[:3], prog=[b"/bin/sh", b"-e"], flags=1)]) for sn in SCRIPTLET_SETTERS], None
    if name == "modes":
        # setuid / setgid / sticky bits: the archive's mode field must agree with RPMTAG_FILEMODES
        return [(b"/d/a", b"root", b"root", None), (b"/d/b", b"root", b"root", None), (b"/d/c", b"root", b"root", None)], [], None
    if name == "scriptlets_plain":
        return [], [(sn, [_scriptlet(b"true")]) for sn in SCRIPTLET_SETTERS], None
    if name == "deps":
        return [], [(k, [_dep(b"x" + k.encode()[:2], 8, b"1")]) for k in ("requires", "provides", "obsoletes", "conflicts", "recommends", "suggests", "enhances", "supplements")], None
    if name.startswith("dep_"):
        k = name[4:]
        return [], [(k, [_dep(b"x" + k.encode()[:2], 8, b"1")])], None
    if name == "caps_first":
        return [(b"/d/a", b"root", b"root", b"cap_chown=ep"), (b"/d/b", b"root", b"root", None)], [], None
    if name == "caps_last":
        return [(b"/d/a", b"root", b"root", None), (b"/d/b", b"root", b"root", b"cap_chown=ep")], [], None
    raise KeyError(name)


def check_cpio(e, content, hdr):
    """content: payload bytes (terms; everything but file contents is concrete); hdr: the main header value. Returns None or what is wrong."""
    from rpmvals import tag

    def conc(bs):
        out = bytearray()
        for b_ in bs:
            v_ = z3.simplify(b_)
            if not z3.is_bv_value(v_):
                return None
            out.append(v_.as_long())
        return bytes(out)
    ents = {ent.fields[0].conc(): ent.fields[1] for ent in hdr.fields[1].items}

    def strs(t):
        d = ents.get(tag(t))
        return [conc(x.bytes()) for x in d.fields[0].items] if d is not None else []

    def ints(t):
        d = ents.get(tag(t))
        return [x.conc() for x in d.fields[0].items] if d is not None else []
    base, dirs, didx, sizes, modes = strs("RPMTAG_BASENAMES"), strs("RPMTAG_DIRNAMES"), ints("RPMTAG_DIRINDEXES"), ints("RPMTAG_FILESIZES"), ints("RPMTAG_FILEMODES")
    want = [(b"." + dirs[di] + bn, sz, md & 0xffff) for bn, di, sz, md in zip(base, didx, sizes, modes)]
    pos, got = 0, []
    n = len(content)
    while True:
        if pos % 4:
            return "entry at offset %d is not 4-byte aligned" % pos
        head = conc(content[pos:pos + 110])
        if head is None or len(head) < 110 or head[:6] != b"070701":
            return "no newc entry header at offset %d" % pos
        try:
            f = [int(head[6 + 8 * i:14 + 8 * i], 16) for i in range(13)]
        except ValueError:
            return "non-hexadecimal header field at offset %d" % pos
        mode, size, namesz = f[1], f[6], f[11]
        if os.environ.get("VERIF_DEBUG_CPIO"):
            print("CPIO", pos, head, f, conc(content[pos + 110:pos + 140]))
        nm = conc(content[pos + 110:pos + 110 + namesz])
        if nm is None or not nm or nm[-1] != 0:
            return "entry name not NUL-terminated at offset %d" % pos
        nm = nm[:-1]
        pos += 110 + namesz
        pos += (-pos) % 4
        if nm == b"TRAILER!!!":
            break
        got.append((nm, size, mode & 0xffff))
        pos += size
        pos += (-pos) % 4
        if pos > n:
            return "entry data runs past the end of the payload"
    if pos != n and conc(content[pos:]) != b"\0" * (n - pos):
        return "bytes other than padding after the trailer"
    if got != want:
        return "entries %s do not match the header's files %s" % (got, want)
    return None


def c09_build(ctx, name):
    ex = Exec(ctx.funcs, intrinsics.I, max_steps=4000000)
    ctx.stats = ex.stats
    files_spec, setters, _ = scenario(name)
    ctx.bounds = "PackageBuilder scenario %r (%d files, setters: %s), file contents and modification times symbolic; build() and Package::write from MIR" % (name, len(files_spec), ", ".join(n for n, _ in setters) or "none")
    from harnesses_pkg import validate_header
    from rpmvals import tag, sigtag
    import rpmbytes as RB

    def setup(e):
        return dict(mt=[z3.BitVec("mtime_%d" % i, 32) for i in range(len(files_spec))], c=[z3.BitVec("content_%d" % i, 8) for i in range(len(files_spec))])

    def body(e, inp):
        comp = ctx.impl_fn("compression", None, "PackageBuilder")
        build = ctx.impl_fn("build", None, "PackageBuilder")
        add = ctx.impl_fn("add_data", None, "PackageBuilder")
        clock_stub(e)
        b = builder_new(ctx, e)
        b = e.call_fn(comp, [b, compression_value(e, name.split("_", 1)[1] if name.startswith("files2_") else "none")])
        for sn, args in setters:
            b = e.call_fn(ctx.impl_fn(sn, None, "PackageBuilder"), [b] + list(args))
        cell = Cell(b)
        for i, (dest, user, group, caps) in enumerate(files_spec):
            fo = file_options(dest, user, group, mode=(SPECIAL_MODES[i] if name == "modes" else 0o100644))
            if caps is not None:
                fo.fields[7] = intrinsics3.some(Adt("FileCaps", "FileCaps", [string(caps)]))
            r = e.call_fn(add, [Ref(cell), VecV([Int(inp["c"][i], "u8")]), Adt("Timestamp", "Timestamp", [Int(inp["mt"][i], "u32")]), fo])
            assert r.variant == "Ok"
        r = e.call_fn(build, [cell.v])
        return r, (written_bytes(ctx, e, r.fields[0]) if r.variant == "Ok" else None)

    def on_path(e, inp, out):
        k, v = out
        if k != "return":
            ctx.fail("building panics: %s" % (v,), "PackageBuilder::build", kind="c09build", scenario=name)
            return
        r, bs = v
        ctx.cover("package built", r.variant == "Ok")
        if r.variant != "Ok":
            if name.endswith("_zstd"):
                return          # the zstd encoder constructor returns io::Result: an error (not a panic) is within the property
            ctx.fail("building a valid configuration fails (%s)" % (getattr(r.fields[0], "variant", r.fields[0]),), "PackageBuilder::build", kind="c09build", scenario=name)
            return
        pkg = r.fields[0]
        meta = pkg.fields[0]
        msgs = []
        for which, hdr, region in (("signature header", meta.fields[1], sigtag("HEADER_SIGNATURES")), ("main header", meta.fields[2], tag("RPMTAG_HEADERIMMUTABLE"))):
            validate_header(e, hdr, region, lambda m, which=which: msgs.append(which + ": " + m) and False)
            if msgs:
                ctx.fail("the built package violates rpm's structural rules: " + msgs[0], "PackageBuilder::build", kind="c09build", scenario=name)
                return
        # rpmlib() features: a header with file capabilities declares rpmlib(FileCaps)
        hdr = meta.fields[2]
        tags = {ent.fields[0].conc(): ent for ent in hdr.fields[1].items}
        if tag("RPMTAG_FILECAPS") in tags:
            req = tags.get(tag("RPMTAG_REQUIRENAME"))
            names = [bytes(z3.simplify(b_).as_long() for b_ in x.bytes()) for x in req.fields[1].fields[0].items] if req is not None else []
            if b"rpmlib(FileCaps)" not in names:
                ctx.fail("the header carries file capabilities but does not declare rpmlib(FileCaps)", "PackageBuilder::build", kind="c09build", scenario=name)
                return
        # the payload: a well-formed newc archive whose entries are the header's files, in header order, with matching names, sizes and modes,
        # 4-byte alignment and a trailer (uncompressed here)
        cname = name.split("_", 1)[1] if name.startswith("files2_") else None
        payload = as_bytes(e, pkg.fields[1])
        if cname:
            # compressed with the algorithm the header names; what was compressed is the archive; zstd needs its rpmlib() feature
            if len(intrinsics3.ENCODERS) != 1 or intrinsics3.ENCODERS[0][0] != cname or not all(a.eq(b_) for a, b_ in zip(payload, intrinsics3.ENCODERS[0][3])):
                ctx.fail("the payload is not the output of one %s encoder" % cname, "PackageBuilder::build", kind="c09build", scenario=name)
                return
            pc = tags.get(tag("RPMTAG_PAYLOADCOMPRESSOR"))
            if pc is None or bytes(z3.simplify(b_).as_long() for b_ in pc.fields[1].fields[0].bytes()) != cname.encode():
                ctx.fail("the header does not name the compressor (%s) that produced the payload" % cname, "PackageBuilder::build", kind="c09build", scenario=name)
                return
            req = tags.get(tag("RPMTAG_REQUIRENAME"))
            names = [bytes(z3.simplify(b_).as_long() for b_ in x.bytes()) for x in req.fields[1].fields[0].items] if req is not None else []
            if cname == "zstd" and b"rpmlib(PayloadIsZstd)" not in names:
                ctx.fail("a zstd payload without rpmlib(PayloadIsZstd)", "PackageBuilder::build", kind="c09build", scenario=name)
                return
            payload = intrinsics3.ENCODERS[0][2]
        why = check_cpio(e, payload, hdr)
        if why:
            ctx.fail("the payload of the built package is not the cpio archive the header describes: " + why, "PackageBuilder::build", kind="c09build", scenario=name)
            return
        # alignment of the main header behind the signature header
        sig_len = 16 + 16 * len(meta.fields[1].fields[1].items) + len(meta.fields[1].fields[2].items)
        if (96 + sig_len + (-sig_len) % 8) % 8 != 0:
            ctx.fail("main header not 8-byte aligned", "PackageBuilder::build", kind="c09build", scenario=name)

    ex.run_all(setup, body, on_path)


def replay_c09build(ctx, fl):
    import rpmbytes as RB
    from rpmvals import tag, sigtag
    ans = ctx.native.ask("scenario", fl["scenario"])
    if ans.startswith("panic") or ans.startswith("err"):
        return True, "real crate: scenario %s -> %s" % (fl["scenario"], ans[:80])
    b = bytes.fromhex(ans.split()[1])
    sig = b[96:]
    why = RB.check_header_bytes(sig, sigtag("HEADER_SIGNATURES"))
    n, sz = int.from_bytes(sig[8:12], "big"), int.from_bytes(sig[12:16], "big")
    siglen = 16 + 16 * n + sz
    hdr = b[96 + siglen + (-siglen) % 8:]
    why = why or RB.check_header_bytes(hdr, tag("RPMTAG_HEADERIMMUTABLE"))
    if why is None and b"cap_chown" in hdr and b"rpmlib(FileCaps)" not in hdr:
        why = "file capabilities without rpmlib(FileCaps)"
    if why is None:
        ents, st, hlen = RB.parse_header_entries(hdr)
        comp = RB.header_strings(ents, st, 1125)                  # RPMTAG_PAYLOADCOMPRESSOR
        payload = hdr[hlen:]
        want = fl["scenario"].split("_", 1)[1] if fl["scenario"].startswith("files2_") else None
        if want and comp != [want.encode()]:
            why = "the header names the compressor %s, the scenario compresses with %s" % (comp, want)
        elif want:
            import bz2, gzip, lzma
            try:
                payload = {"gzip": gzip.decompress, "xz": lzma.decompress, "bzip2": bz2.decompress}.get(want, lambda x: None)(payload)
            except Exception as ex_:  # noqa: BLE001
                why = "the payload is not a %s stream (%s)" % (want, type(ex_).__name__)
            if want == "zstd" and b"rpmlib(PayloadIsZstd)" not in hdr:
                why = "a zstd payload without rpmlib(PayloadIsZstd)"
        if why is None and payload is not None:
            why = RB.check_cpio_bytes(payload, ents, st)
    return why is not None, "real crate: scenario %s built through the public API: %s" % (fl["scenario"], why or "structurally valid")


for _sn in ("empty", "files2", "files2_gzip", "files2_xz", "files2_bzip2", "files2_zstd", "utf8name", "modes", "scriptlets", "scriptlets_plain", "deps", "caps_first", "caps_last") + tuple("dep_" + k for k in DEP_SETTERS):
    HARNESSES["c09_build_" + _sn] = (lambda n: (lambda ctx: c09_build(ctx, n)))(_sn)
REPLAYERS["c09"] = (lambda prev: (lambda ctx, fl: replay_c09build(ctx, fl) if fl.get("kind") == "c09build" else prev(ctx, fl)))(REPLAYERS["c09"])


# ---------------------------------------------------------------------------------------------------------
# C06 (partial): what is given to the builder is read back by the matching accessor of the built package
# (accessors run from MIR on the built Package value; that writing and parsing preserves the headers is C01/C05)
# ---------------------------------------------------------------------------------------------------------
STR_FIELDS = [  # (setter or None for constructor arguments, accessor)
    ("name", "get_name"), ("version", "get_version"), ("license", "get_license"), ("arch", "get_arch"), ("summary", "get_summary"),
    ("release", "get_release"), ("url", "get_url"), ("vcs", "get_vcs"), ("description", "get_description"), ("vendor", "get_vendor"),
    ("packager", "get_packager"), ("group", "get_group"), ("build_host", "get_build_host"), ("cookie", "get_cookie"),
]
CTOR = ("name", "version", "license", "arch", "summary")


def c06_strings(ctx, fields, nchars=1):
    ex = Exec(ctx.funcs, intrinsics.I, max_steps=4000000)
    ctx.stats = ex.stats
    ctx.bounds = ("PackageBuilder::new(..) with the setters %s given strings of %d symbolic ASCII character(s) each (0x20..0x7e), epoch any u32; build() from MIR; each matching accessor of the built package from MIR"
                  % (", ".join(f for f in fields if f not in CTOR) or "(none)", nchars))

    def setup(e):
        d = {f: sym_bytes(e, f + "_", nchars, 0x20, 0x7e) for f, _ in STR_FIELDS if f in fields or f in CTOR}
        d["epoch"] = z3.BitVec("epoch", 32)
        return d

    def body(e, inp):
        clock_stub(e)
        new = ctx.impl_fn("new", None, "PackageBuilder")
        b = e.call_fn(new, [Str(inp[k]) for k in CTOR])
        b = e.call_fn(ctx.impl_fn("compression", None, "PackageBuilder"), [b, Adt("CompressionWithLevel", "None")])
        b = e.call_fn(ctx.impl_fn("epoch", None, "PackageBuilder"), [b, Int(inp["epoch"], "u32")])
        for f, _ in STR_FIELDS:
            if f in fields and f not in CTOR:
                b = e.call_fn(ctx.impl_fn(f, None, "PackageBuilder"), [b, string(inp[f])])
        r = e.call_fn(ctx.impl_fn("build", None, "PackageBuilder"), [b])
        if r.variant != "Ok":
            return r, None
        meta = r.fields[0].fields[0]
        got = {}
        for f, acc in STR_FIELDS:
            if f in fields or f in CTOR:
                got[f] = e.call_fn(ctx.impl_fn(acc, None, "PackageMetadata"), [Ref(Cell(meta))])
        got["epoch"] = e.call_fn(ctx.impl_fn("get_epoch", None, "PackageMetadata"), [Ref(Cell(meta))])
        return r, got

    def on_path(e, inp, out):
        k, v = out

        def wit(field):
            return dict(field=field, fields=list(fields), value=model_bytes(e, inp[field]).hex() if field != "epoch" else "")
        if k != "return":
            ctx.fail("building or reading back panics: %s" % (v,), "PackageBuilder::build", kind="c06", **wit("name"))
            return
        r, got = v
        ctx.cover("package built", r.variant == "Ok")
        if got is None:
            ctx.fail("building a valid configuration fails", "PackageBuilder::build", kind="c06", **wit("name"))
            return
        for f, acc in STR_FIELDS:
            if f not in got:
                continue
            g = got[f]
            if g.variant != "Ok":
                ctx.fail("%s() does not return the %s given to the builder (error)" % (acc, f), "PackageMetadata::" + acc, kind="c06", **wit(f))
                return
            gb = intrinsics.as_str(e, g.fields[0]).bytes()
            if len(gb) != len(inp[f]) or e._check(z3.Not(z3.And([x == y for x, y in zip(gb, inp[f])] + [z3.BoolVal(True)]))):
                ctx.fail("%s() does not return the %s given to the builder" % (acc, f), "PackageMetadata::" + acc, kind="c06", **wit(f))
                return
        g = got["epoch"]
        if g.variant != "Ok" or e._check(g.fields[0].e != inp["epoch"]):
            ctx.fail("get_epoch() does not return the epoch given to the builder", "PackageMetadata::get_epoch", kind="c06", **wit("epoch"))

    ex.run_all(setup, body, on_path)


def replay_c06(ctx, fl):
    if fl.get("kind") == "c06flags":
        ans = ctx.native.ask("fileopts_flags", *(fl.get("pair") or ["is_doc", "is_ghost"]))
        return not ans.startswith("same"), "real crate: FileOptions::new(\"/x\").%s() built and read back -> %s" % ("().".join(fl.get("pair") or []), ans[:100])
    if fl.get("kind") == "c06v":
        ans = ctx.native.ask("readback2", "verify_script")
        return not ans.startswith("same"), "real crate: verify_script(..) then the %verifyscript tags of the built header -> " + ans[:120]
    if fl.get("kind") == "c06w":
        ans = ctx.native.ask("with_file_mode", str(fl.get("st_mode", 0o100644) & 0o7777), str(fl.get("perm", 0)) if fl.get("explicit") else "-")
        return not ans.startswith("same"), "real crate: with_file over a source file chmod-ed to %o%s, then get_file_entries -> %s" % (
            fl.get("st_mode", 0) & 0o7777, (" with .mode(%o)" % (0o100000 | fl.get("perm", 0))) if fl.get("explicit") else "", ans[:100])
    if fl.get("kind") in ("c06s", "c06d", "c06f", "c06c", "c06m"):
        which = {"c06s": {1: "scriptlets_prog1", 3: "scriptlets_prog3"}.get(fl.get("nprog"), "scriptlets_prog") if fl.get("with_prog") else "scriptlets_plain", "c06d": "deps", "c06f": "files", "c06c": "changelog", "c06m": "files_misc"}[fl["kind"]]
        if fl["kind"] == "c06d" and len(fl.get("which") or []) == 1:
            which = "dep:" + fl["which"][0]
        ans = ctx.native.ask("readback2", which)
        if which == "deps" and ans.startswith("same"):
            # the two dependencies of a kind may carry the same name (a version range)
            which = "deps_samename"
            ans = ctx.native.ask("readback2", which)
        return not ans.startswith("same"), "real crate: %s set through the public API and read back -> %s" % (which, ans[:160])
    ans = ctx.native.ask("readback", fl["field"], fl.get("value") or "-")
    return not ans.startswith("same"), "real crate: builder .%s(%r) then the accessor -> %s" % (fl["field"], bytes.fromhex(fl.get("value") or ""), ans[:100])


REPLAYERS["c06"] = replay_c06
HARNESSES["c06_required"] = lambda ctx: c06_strings(ctx, list(CTOR))
for _f, _a in STR_FIELDS:
    if _f not in CTOR:
        HARNESSES["c06_str_" + _f] = (lambda f: (lambda ctx: c06_strings(ctx, list(CTOR) + [f])))(_f)
HARNESSES["c06_all_strings"] = lambda ctx: c06_strings(ctx, [f for f, _ in STR_FIELDS])


SCRIPT_ACCESSORS = dict(zip(SCRIPTLET_SETTERS, ("get_pre_install_script", "get_post_install_script", "get_pre_uninstall_script", "get_post_uninstall_script",
                                                "get_pre_trans_script", "get_post_trans_script", "get_pre_untrans_script", "get_post_untrans_script")))
def _eq_str(e, a, b):
    a, b = intrinsics.as_str(e, a).bytes(), intrinsics.as_str(e, b).bytes()
    return z3.BoolVal(False) if len(a) != len(b) else z3.And([x == y for x, y in zip(a, b)] + [z3.BoolVal(True)])


def c06_scriptlets(ctx, which, with_prog):
    """each scriptlet setter in `which` gets a Scriptlet with symbolic text, symbolic flags and (optionally) a two-word interpreter"""
    ex = Exec(ctx.funcs, intrinsics.I, max_steps=4000000)
    ctx.stats = ex.stats
    nprog = 2 if with_prog is True else int(with_prog)
    ctx.bounds = "scriptlet setters %s: script text of 2 symbolic characters, flags any u32, interpreter %s; build() and the scriptlet accessors from MIR" % (", ".join(which), "of %d 1-character word(s)" % nprog if with_prog else "absent")

    def setup(e):
        return {sn: dict(text=sym_bytes(e, sn[:6] + "t", 2, 0x20, 0x7e), flags=z3.BitVec(sn + "_flags", 32), prog=[sym_bytes(e, sn[:6] + "p%d" % i, 1, 0x21, 0x7e) for i in range(nprog)]) for sn in which}

    def body(e, inp):
        clock_stub(e)
        b = builder_new(ctx, e)
        b = e.call_fn(ctx.impl_fn("compression", None, "PackageBuilder"), [b, Adt("CompressionWithLevel", "None")])
        for sn in which:
            sc = Adt("Scriptlet", "Scriptlet", [string(inp[sn]["text"]), intrinsics3.some(Adt("ScriptletFlags", "bits", [Int(inp[sn]["flags"], "u32")])),
                                               intrinsics3.some(VecV([string(p) for p in inp[sn]["prog"]])) if with_prog else intrinsics3.NONE])
            b = e.call_fn(ctx.impl_fn(sn, None, "PackageBuilder"), [b, sc])
        r = e.call_fn(ctx.impl_fn("build", None, "PackageBuilder"), [b])
        meta = r.fields[0].fields[0]
        return r, {sn: e.call_fn(ctx.impl_fn(SCRIPT_ACCESSORS[sn], None, "PackageMetadata"), [Ref(Cell(meta))]) for sn in which}

    def on_path(e, inp, out):
        k, v = out
        if k != "return":
            ctx.fail("building or reading back panics: %s" % (v,), "PackageBuilder::build", kind="c06s", which=list(which), with_prog=bool(with_prog), nprog=nprog)
            return
        r, got = v
        ctx.cover("package built", r.variant == "Ok")
        for sn in which:
            g = got[sn]
            bad = None
            if g.variant != "Ok":
                bad = "returns an error"
            else:
                sc = g.fields[0]
                if e._check(z3.Not(_eq_str(e, sc.fields[0], Str(inp[sn]["text"])))):
                    bad = "returns another script text"
                elif sc.fields[1].variant != "Some" or e._check(sc.fields[1].fields[0].fields[0].e != inp[sn]["flags"]):
                    bad = "returns other flags"
                elif with_prog and (sc.fields[2].variant != "Some" or len(sc.fields[2].fields[0].items) != nprog or
                                    any(e._check(z3.Not(_eq_str(e, x, Str(y)))) for x, y in zip(sc.fields[2].fields[0].items, inp[sn]["prog"]))):
                    bad = "returns another interpreter"
                elif not with_prog and sc.fields[2].variant != "None":
                    bad = "returns an interpreter although none was given"
            if bad:
                ctx.fail("%s() %s than the scriptlet given to %s()" % (SCRIPT_ACCESSORS[sn], bad, sn) if "another" in bad or "other" in bad else "%s() %s for the scriptlet given to %s()" % (SCRIPT_ACCESSORS[sn], bad, sn),
                         "PackageMetadata::" + SCRIPT_ACCESSORS[sn], kind="c06s", which=list(which), with_prog=bool(with_prog), nprog=nprog, setter=sn)
                return
    ex.run_all(setup, body, on_path)


def c06_deps(ctx, which, n=2):
    ex = Exec(ctx.funcs, intrinsics.I, max_steps=4000000)
    ctx.stats = ex.stats
    ctx.bounds = "dependency setters %s called %d times each with name and version of 1 symbolic character and flags any u32; the matching accessors must list them, in order, among their results" % (", ".join(which), n)

    def setup(e):
        return {k: [dict(name=sym_bytes(e, "%s%dn" % (k[:4], i), 1, 0x21, 0x7e), ver=sym_bytes(e, "%s%dv" % (k[:4], i), 1, 0x21, 0x7e), flags=z3.BitVec("%s%df" % (k, i), 32)) for i in range(n)] for k in which}

    def body(e, inp):
        clock_stub(e)
        b = builder_new(ctx, e)
        b = e.call_fn(ctx.impl_fn("compression", None, "PackageBuilder"), [b, Adt("CompressionWithLevel", "None")])
        for k in which:
            for d in inp[k]:
                b = e.call_fn(ctx.impl_fn(k, None, "PackageBuilder"), [b, Adt("Dependency", "Dependency", [string(d["name"]), Adt("DependencyFlags", "bits", [Int(d["flags"], "u32")]), string(d["ver"])])])
        r = e.call_fn(ctx.impl_fn("build", None, "PackageBuilder"), [b])
        meta = r.fields[0].fields[0]
        return r, {k: e.call_fn(ctx.impl_fn("get_" + k, None, "PackageMetadata"), [Ref(Cell(meta))]) for k in which}

    def on_path(e, inp, out):
        k_, v = out
        if k_ != "return":
            ctx.fail("building or reading back panics: %s" % (v,), "PackageBuilder::build", kind="c06d", which=list(which))
            return
        r, got = v
        ctx.cover("package built", r.variant == "Ok")
        for k in which:
            g = got[k]
            if g.variant != "Ok":
                ctx.fail("get_%s() returns an error" % k, "PackageMetadata::get_" + k, kind="c06d", which=list(which), setter=k)
                return
            items = g.fields[0].items
            # the user's dependencies, in order, as a subsequence of what the accessor lists (the builder adds its own entries)
            pos = 0
            for d in inp[k]:
                found = None
                for j in range(pos, len(items)):
                    it = intrinsics.deref_all(e, items[j])
                    same = z3.And(_eq_str(e, it.fields[0], Str(d["name"])), it.fields[1].fields[0].e == d["flags"], _eq_str(e, it.fields[2], Str(d["ver"])))
                    if not e._check(z3.Not(same)):
                        found = j
                        break
                if found is None:
                    ctx.fail("get_%s() does not list the dependencies given to %s() unchanged and in order" % (k, k), "PackageMetadata::get_" + k, kind="c06d", which=list(which), setter=k)
                    return
                pos = found + 1
    ex.run_all(setup, body, on_path)


def c06_files(ctx, nfiles):
    ex = Exec(ctx.funcs, intrinsics.I, max_steps=4000000)
    ctx.stats = ex.stats
    ctx.bounds = ("%d file(s) added with add_data: destination /d/f<i>, permission bits, flags, modification time, one content byte symbolic; owner u<i>:g<i>; source date symbolic; "
                  "get_file_entries of the built package from MIR: path, mode, owner, group, flags, size, digest = hex(SHA-256(content)) (uninterpreted), mtime = min(mtime, source date)" % nfiles)
    from intrinsics2 import uf_digest
    from harnesses_pkg import hexchars

    def setup(e):
        return dict(sd=z3.BitVec("source_date", 32), f=[dict(perm=z3.BitVec("perm_%d" % i, 16), flags=z3.BitVec("fflags_%d" % i, 32), mt=z3.BitVec("mtime_%d" % i, 32), c=z3.BitVec("content_%d" % i, 8)) for i in range(nfiles)])

    def body(e, inp):
        for f in inp["f"]:
            e.solver.add(z3.ULE(f["perm"], 0o7777))
            e.model = None
        clock_stub(e, not_before=inp["sd"])
        b = builder_new(ctx, e)
        b = e.call_fn(ctx.impl_fn("compression", None, "PackageBuilder"), [b, Adt("CompressionWithLevel", "None")])
        b.fields[_field_index("PackageBuilder", "source_date")] = intrinsics3.some(Adt("Timestamp", "Timestamp", [Int(inp["sd"], "u32")]))
        cell = Cell(b)
        for i, f in enumerate(inp["f"]):
            fo = file_options(b"/d/f%d" % i, b"u%d" % i, b"g%d" % i)
            fo.fields[4] = Adt("FileMode", "Regular", [Int(f["perm"], "u16")])
            fo.fields[5] = Adt("FileFlags", "bits", [Int(f["flags"], "u32")])
            r = e.call_fn(ctx.impl_fn("add_data", None, "PackageBuilder"), [Ref(cell), VecV([Int(f["c"], "u8")]), Adt("Timestamp", "Timestamp", [Int(f["mt"], "u32")]), fo])
            assert r.variant == "Ok"
        r = e.call_fn(ctx.impl_fn("build", None, "PackageBuilder"), [cell.v])
        meta = r.fields[0].fields[0]
        return r, e.call_fn(ctx.impl_fn("get_file_entries", None, "PackageMetadata"), [Ref(Cell(meta))])

    def on_path(e, inp, out):
        k_, v = out
        if k_ != "return":
            ctx.fail("building or reading back panics: %s" % (v,), "PackageBuilder::build", kind="c06f", nfiles=nfiles)
            return
        r, fes = v
        ctx.cover("package built", r.variant == "Ok")
        if fes.variant != "Ok" or len(fes.fields[0].items) != nfiles:
            ctx.fail("get_file_entries() does not list the files given to the builder", "PackageMetadata::get_file_entries", kind="c06f", nfiles=nfiles)
            return
        for i, (f, fe) in enumerate(zip(inp["f"], fes.fields[0].items)):
            fe = intrinsics.deref_all(e, fe)
            path, mode, own, mtime, size, flags, digest = fe.fields[0], fe.fields[1], fe.fields[2], fe.fields[3], fe.fields[4], fe.fields[5], fe.fields[6]
            want_mt = z3.If(z3.ULT(inp["sd"], f["mt"]), inp["sd"], f["mt"])
            checks = [
                ("path", _eq_str(e, Str(intrinsics3._path_bytes(e, path)), Str.lit(b"/d/f%d" % i))),
                ("mode", z3.BoolVal(mode.variant == "Regular") if mode.variant != "Regular" else mode.fields[0].e == f["perm"]),
                ("owner", z3.And(_eq_str(e, own.fields[0], Str.lit(b"u%d" % i)), _eq_str(e, own.fields[1], Str.lit(b"g%d" % i)))),
                ("modification time (clamped to the source date)", mtime.fields[0].e == want_mt),
                ("size", size.e == 1),
                ("flags", flags.fields[0].e == f["flags"]),
            ]
            if digest.variant == "Some":
                dv = digest.fields[0]          # FileDigest { digest: String, algo: DigestAlgorithm }
                algo_ok = getattr(dv.fields[1], "variant", "") == "Sha2_256"
                checks.append(("content digest", _eq_str(e, dv.fields[0], Str(hexchars(uf_digest("sha256", [f["c"]])))) if algo_ok else z3.BoolVal(False)))
            else:
                checks.append(("content digest", z3.BoolVal(False)))
            for what, cond in checks:
                if e._check(z3.Not(cond)):
                    ctx.fail("get_file_entries() does not return the %s of the file given to the builder" % what, "PackageMetadata::get_file_entries", kind="c06f", nfiles=nfiles, field=what)
                    return
    ex.run_all(setup, body, on_path)


HARNESSES["c06_scriptlets_prog"] = lambda ctx: c06_scriptlets(ctx, SCRIPTLET_SETTERS, True)
HARNESSES["c06_scriptlets_prog1"] = lambda ctx: c06_scriptlets(ctx, SCRIPTLET_SETTERS, 1)
HARNESSES["c06_scriptlets_prog3"] = lambda ctx: c06_scriptlets(ctx, SCRIPTLET_SETTERS[:2], 3)
HARNESSES["c06_scriptlets_plain"] = lambda ctx: c06_scriptlets(ctx, SCRIPTLET_SETTERS, False)
HARNESSES["c06_deps_all"] = lambda ctx: c06_deps(ctx, DEP_SETTERS, 2)
for _k in DEP_SETTERS:
    HARNESSES["c06_deps_" + _k] = (lambda k: (lambda ctx: c06_deps(ctx, (k,), 1)))(_k)
HARNESSES["c06_files_1"] = lambda ctx: c06_files(ctx, 1)
HARNESSES["c06_files_2"] = lambda ctx: c06_files(ctx, 2)


# ---------------------------------------------------------------------------------------------------------
# C07 (partial): Package::files() of a package built by this library yields every file's exact content under its own metadata
# ---------------------------------------------------------------------------------------------------------
def c07_roundtrip(ctx, sizes, comp="none", variant=""):
    ex = Exec(ctx.funcs, intrinsics.I, max_steps=8000000)
    ctx.stats = ex.stats
    stem = "/d/\u00e9".encode() if variant == "utf8" else b"/d/f"      # utf8: a two-byte character in the base name (byte length != character count)
    ctx.bounds = ("files of %s symbolic content bytes at %s<i> (in that order of insertion: reversed)%s, compression %s: PackageBuilder .. build() then Package::files() and FileIterator::next, all from MIR "
                  "(cpio writer and cpio reader included)" % ("/".join(map(str, sizes)), stem.decode(), "; the first file carries the %ghost flag" if variant == "ghost" else "",
                                                              comp if comp == "none" else comp + " (compressor = uninterpreted function of level and input, decompressor = its inverse)"))
    from intrinsics2 import uf_digest
    from harnesses_pkg import hexchars

    def setup(e):
        return [sym_bytes(e, "c%d_" % i, n, 0, 255) for i, n in enumerate(sizes)]

    def body(e, inp):
        clock_stub(e)
        b = builder_new(ctx, e)
        b = e.call_fn(ctx.impl_fn("compression", None, "PackageBuilder"), [b, compression_value(e, comp)])
        cell = Cell(b)
        for i in reversed(range(len(sizes))):
            r = e.call_fn(ctx.impl_fn("add_data", None, "PackageBuilder"), [Ref(cell), VecV([Int(x, "u8") for x in inp[i]]), Adt("Timestamp", "Timestamp", [Int(5, "u32")]),
                                                                                file_options(stem + b"%d" % i, flags=(1 << 6) if variant == "ghost" and i == 0 else 0)])
            assert r.variant == "Ok"
        r = e.call_fn(ctx.impl_fn("build", None, "PackageBuilder"), [cell.v])
        if r.variant != "Ok":
            return r, None, []
        pkg = r.fields[0]
        it = e.call_fn(ctx.impl_fn("files", None, "Package"), [Ref(Cell(pkg))])
        if it.variant != "Ok":
            return r, it, []
        itc = Cell(it.fields[0])
        nx = ctx.find_fn(r"package::<impl at [^>]*>::next")
        outs = []
        for _ in range(len(sizes) + 2):
            x = e.call_fn(nx, [Ref(itc)])
            if x.variant == "None":
                break
            outs.append(x.fields[0])
        return r, it, outs

    def on_path(e, inp, out):
        k, v = out
        if k != "return":
            ctx.fail("building or iterating panics: %s" % (v,), "Package::files", kind="c07", sizes=list(sizes), comp=comp, variant=variant)
            return
        r, it, outs = v
        ctx.cover("package built", r.variant == "Ok")
        if r.variant != "Ok":
            return
        if it.variant != "Ok" or len(outs) != len(sizes) or any(o.variant != "Ok" for o in outs):
            ctx.fail("iterating the payload of a freshly built package fails or yields %d entries for %d files" % (len(outs), len(sizes)), "Package::files", kind="c07", sizes=list(sizes), comp=comp, variant=variant)
            return
        for i, o in enumerate(outs):                      # ordered by path: /d/f0, /d/f1, ...
            rf = o.fields[0]
            fe, content = rf.fields[0], as_bytes(e, rf.fields[1])
            bad = None
            if len(content) != sizes[i] or (content and e._check(z3.Not(z3.And([x == y for x, y in zip(content, inp[i])])))):
                bad = "content"
            elif e._check(z3.Not(_eq_str(e, Str(intrinsics3._path_bytes(e, fe.fields[0])), Str.lit(stem + b"%d" % i)))):
                bad = "path (order by path)"
            elif e._check(fe.fields[4].e != sizes[i]):
                bad = "recorded size"
            elif fe.fields[6].variant != "Some" or e._check(z3.Not(_eq_str(e, fe.fields[6].fields[0].fields[0], Str(hexchars(uf_digest("sha256", list(inp[i]))))))):
                bad = "recorded digest"
            if bad:
                ctx.fail("payload iteration pairs entry %d with the wrong %s" % (i, bad), "Package::files", kind="c07", sizes=list(sizes), comp=comp, variant=variant)
                return
    ex.run_all(setup, body, on_path)


def replay_c07(ctx, fl):
    ans = ctx.native.ask("files_rt", ",".join(str(x) for x in fl.get("sizes", [])), fl.get("comp") or "none", fl.get("variant") or "plain")
    return not ans.startswith("same"), "real crate: files of those sizes built and iterated with Package::files() -> " + ans[:120]


REPLAYERS["c07"] = replay_c07
for _sz in ((0,), (1,), (3,), (4,), (5,), (2, 3), (4, 0), (1, 2, 3)):
    HARNESSES["c07_rt_" + "_".join(map(str, _sz))] = (lambda sz: (lambda ctx: c07_roundtrip(ctx, sz)))(_sz)
HARNESSES["c07_rt_utf8_3_2"] = lambda ctx: c07_roundtrip(ctx, (3, 2), variant="utf8")
HARNESSES["c07_rt_ghost_3_2"] = lambda ctx: c07_roundtrip(ctx, (3, 2), variant="ghost")
HARNESSES["c07_rt_ghost_0_1"] = lambda ctx: c07_roundtrip(ctx, (0, 1), variant="ghost")
for _cp in ("gzip", "xz", "bzip2", "zstd"):
    HARNESSES["c07_rt_%s_3_2" % _cp] = (lambda cp: (lambda ctx: c07_roundtrip(ctx, (3, 2), cp)))(_cp)


def c06_with_file(ctx, explicit_mode):
    """PackageBuilder::with_file from MIR over a stubbed source file (content byte, st_mode, mtime symbolic): inherited or explicit mode, size, digest, mtime"""
    ex = Exec(ctx.funcs, intrinsics.I, max_steps=4000000)
    ctx.stats = ex.stats
    ctx.bounds = ("PackageBuilder::with_file(source, FileOptions::new(\"/d/f\")%s) over a stubbed source file whose content byte, st_mode (any u32 with a regular-file type) and modification time "
                  "(any u32 seconds) are symbolic; get_file_entries of the built package" % (".mode(m) with m any regular-file mode" if explicit_mode else ""))
    from intrinsics2 import uf_digest
    from harnesses_pkg import hexchars

    def setup(e):
        return dict(c=z3.BitVec("content", 8), st_mode=z3.BitVec("st_mode", 32), mt=z3.BitVec("mtime", 32), m=z3.BitVec("explicit_perm", 16))

    def body(e, inp):
        e.solver.add((inp["st_mode"] & 0o170000) == 0o100000, z3.ULE(inp["st_mode"], 0o177777), z3.ULE(inp["m"], 0o7777))
        e.model = None
        clock_stub(e)
        intrinsics3.SRC_FILE[0] = ([inp["c"]], inp["st_mode"], z3.ZeroExt(32, inp["mt"]))
        b = builder_new(ctx, e)
        b = e.call_fn(ctx.impl_fn("compression", None, "PackageBuilder"), [b, Adt("CompressionWithLevel", "None")])
        fo = file_options(b"/d/f")
        fo.fields[6] = Bool_(not explicit_mode)            # inherit_permissions
        if explicit_mode:
            fo.fields[4] = Adt("FileMode", "Regular", [Int(inp["m"], "u16")])
        r = e.call_fn(ctx.impl_fn("with_file", None, "PackageBuilder"), [b, Str.lit(b"src"), fo])
        if r.variant != "Ok":
            return r, None
        r2 = e.call_fn(ctx.impl_fn("build", None, "PackageBuilder"), [r.fields[0]])
        meta = r2.fields[0].fields[0]
        return r2, e.call_fn(ctx.impl_fn("get_file_entries", None, "PackageMetadata"), [Ref(Cell(meta))])

    def on_path(e, inp, out):
        k_, v = out
        if k_ != "return":
            ctx.fail("adding a file or building panics: %s" % (v,), "PackageBuilder::with_file", kind="c06w", explicit=explicit_mode)
            return
        r, fes = v
        ctx.cover("package built", r.variant == "Ok")
        if r.variant != "Ok" or fes is None or fes.variant != "Ok" or len(fes.fields[0].items) != 1:
            ctx.fail("a readable regular source file is not packaged", "PackageBuilder::with_file", kind="c06w", explicit=explicit_mode)
            return
        fe = intrinsics.deref_all(e, fes.fields[0].items[0])
        mode, mtime, size, digest = fe.fields[1], fe.fields[3], fe.fields[4], fe.fields[6]
        want_perm = inp["m"] if explicit_mode else z3.Extract(15, 0, inp["st_mode"]) & 0o7777

        def wit():
            m = e.solver.model() if e.solver.check() == z3.sat else None
            return dict(explicit=explicit_mode, st_mode=m.eval(inp["st_mode"], model_completion=True).as_long() if m else 0, perm=m.eval(inp["m"], model_completion=True).as_long() if m else 0)
        for what, cond in (("mode (%s)" % ("explicit" if explicit_mode else "inherited from the source file"), z3.BoolVal(False) if mode.variant != "Regular" else mode.fields[0].e == want_perm),
                           ("modification time", mtime.fields[0].e == inp["mt"]), ("size", size.e == 1),
                           ("content digest", z3.BoolVal(False) if digest.variant != "Some" else _eq_str(e, digest.fields[0].fields[0], Str(hexchars(uf_digest("sha256", [inp["c"]])))))):
            if e._check(z3.Not(cond)):
                e.solver.push()
                e.solver.add(z3.Not(cond))
                w = wit()
                e.solver.pop()
                ctx.fail("get_file_entries() does not return the %s of the packaged file" % what, "PackageBuilder::with_file", kind="c06w", field=what, **w)
                return
    ex.run_all(setup, body, on_path)


HARNESSES["c06_with_file_inherit"] = lambda ctx: c06_with_file(ctx, False)
HARNESSES["c06_with_file_explicit"] = lambda ctx: c06_with_file(ctx, True)


# ---------------------------------------------------------------------------------------------------------
# C11: build_and_sign with a stub signer (deterministic: the signature is a fixed function of nothing but its inputs' length;
# the time stamp it is handed is recorded)
# ---------------------------------------------------------------------------------------------------------
class RecSigner:
    def __init__(self):
        self.times = []


@intrinsics.intr("<_ as Signing>::sign")
def _stub_sign(ex, args, f):
    sg = intrinsics.deref_all(ex, args[0])
    t = intrinsics.deref_all(ex, args[2])
    sg.times.append(t.fields[0])
    return intrinsics2.ok(VecV([Int(c, "u8") for c in b"SIG"]))


def c11_sign(ctx, owners):
    ex = Exec(ctx.funcs, intrinsics.I, max_steps=4000000)
    ctx.stats = ex.stats
    ctx.bounds = ("build_and_sign from MIR with a stub signer (any implementation of the Signing trait that is deterministic; it records the time stamp it is given), %d file(s), symbolic source date, "
                  "clock not before the source date: the time stamp handed to the signer is at most the source date" % len(owners))

    def setup(e):
        return dict(sd=z3.BitVec("source_date", 32), mt=[z3.BitVec("mtime_%d" % i, 32) for i in range(len(owners))], c=[z3.BitVec("content_%d" % i, 8) for i in range(len(owners))])

    def body(e, inp):
        clock_stub(e, not_before=inp["sd"])
        b = builder_new(ctx, e)
        b = e.call_fn(ctx.impl_fn("compression", None, "PackageBuilder"), [b, Adt("CompressionWithLevel", "None")])
        b.fields[_field_index("PackageBuilder", "source_date")] = intrinsics3.some(Adt("Timestamp", "Timestamp", [Int(inp["sd"], "u32")]))
        cell = Cell(b)
        for i, (u, g) in enumerate(owners):
            r = e.call_fn(ctx.impl_fn("add_data", None, "PackageBuilder"), [Ref(cell), VecV([Int(inp["c"][i], "u8")]), Adt("Timestamp", "Timestamp", [Int(inp["mt"][i], "u32")]), file_options(b"/d/f%d" % i, u, g)])
            assert r.variant == "Ok"
        sg = RecSigner()
        # what happens to the signature afterwards (OpenPGP packet inspection to choose the legacy tag) is real OpenPGP parsing: cut here, the
        # builder is returned unchanged; the time stamp was already handed to the signer
        e.overrides = dict(e.overrides or {})
        e.overrides["signatures::SignatureHeaderBuilder::add_openpgp_signature"] = lambda ex_, a, f: a[0]
        r = e.call_fn(ctx.impl_fn("build_and_sign", None, "PackageBuilder"), [cell.v, sg])
        return r, sg

    def on_path(e, inp, out):
        k, v = out
        if k != "return":
            ctx.fail("building and signing panics: %s" % (v,), "PackageBuilder::build_and_sign", kind="c11sign")
            return
        r, sg = v
        ctx.cover("package built and signed", r.variant == "Ok")
        ctx.cover("signer consulted", len(sg.times) >= 1)
        for t in sg.times:
            if e._check(z3.UGT(t.e, inp["sd"])):
                ctx.fail("the signature time stamp handed to the signer is later than the source date", "PackageBuilder::build_and_sign", kind="c11sign")
                return
    ex.run_all(setup, body, on_path)


HARNESSES["c11_sign_1"] = lambda ctx: c11_sign(ctx, [(b"root", b"root")])
HARNESSES["c11_sign_2"] = lambda ctx: c11_sign(ctx, [(b"a", b"g"), (b"b", b"h")])


def c06_changelog(ctx, n):
    ex = Exec(ctx.funcs, intrinsics.I, max_steps=4000000)
    ctx.stats = ex.stats
    ctx.bounds = "%d changelog entries: author and text of 1 symbolic character, time any u32; get_changelog_entries of the built package returns them in order" % n

    def setup(e):
        return [dict(name=sym_bytes(e, "cn%d_" % i, 1, 0x21, 0x7e), text=sym_bytes(e, "ct%d_" % i, 1, 0x21, 0x7e), t=z3.BitVec("ctime_%d" % i, 32)) for i in range(n)]

    def body(e, inp):
        clock_stub(e)
        b = builder_new(ctx, e)
        b = e.call_fn(ctx.impl_fn("compression", None, "PackageBuilder"), [b, Adt("CompressionWithLevel", "None")])
        for c in inp:
            b = e.call_fn(ctx.impl_fn("add_changelog_entry", None, "PackageBuilder"), [b, Str(c["name"]), Str(c["text"]), Adt("Timestamp", "Timestamp", [Int(c["t"], "u32")])])
        r = e.call_fn(ctx.impl_fn("build", None, "PackageBuilder"), [b])
        meta = r.fields[0].fields[0]
        return r, e.call_fn(ctx.impl_fn("get_changelog_entries", None, "PackageMetadata"), [Ref(Cell(meta))])

    def on_path(e, inp, out):
        k, v = out
        if k != "return":
            ctx.fail("building or reading back panics: %s" % (v,), "PackageBuilder::build", kind="c06c", n=n)
            return
        r, got = v
        ctx.cover("package built", r.variant == "Ok")
        if got.variant != "Ok" or len(got.fields[0].items) != n:
            ctx.fail("get_changelog_entries() does not return the %d entries given to the builder" % n, "PackageMetadata::get_changelog_entries", kind="c06c", n=n)
            return
        for c, g in zip(inp, got.fields[0].items):
            g = intrinsics.deref_all(e, g)
            same = z3.And(_eq_str(e, g.fields[0], Str(c["name"])), g.fields[1].e == z3.ZeroExt(32, c["t"]), _eq_str(e, g.fields[2], Str(c["text"])))
            if e._check(z3.Not(same)):
                ctx.fail("get_changelog_entries() does not return the entries given to the builder unchanged and in order", "PackageMetadata::get_changelog_entries", kind="c06c", n=n)
                return
    ex.run_all(setup, body, on_path)


for _n in (0, 1, 2, 3):
    HARNESSES["c06_changelog_%d" % _n] = (lambda n: (lambda ctx: c06_changelog(ctx, n)))(_n)


def c06_verify_script(ctx):
    """verify_script has no accessor of its own: what the setter was given must be in the header under the %verifyscript tags"""
    ex = Exec(ctx.funcs, intrinsics.I, max_steps=4000000)
    ctx.stats = ex.stats
    ctx.bounds = "verify_script(Scriptlet) with script text of 2 symbolic characters, flags any u32, interpreter of one 1-character word; the header of the built package read through get_entry_data_as_*"
    from rpmvals import tag

    def setup(e):
        return dict(text=sym_bytes(e, "vt", 2, 0x20, 0x7e), flags=z3.BitVec("vflags", 32), prog=sym_bytes(e, "vp", 1, 0x21, 0x7e))

    def body(e, inp):
        clock_stub(e)
        b = builder_new(ctx, e)
        b = e.call_fn(ctx.impl_fn("compression", None, "PackageBuilder"), [b, Adt("CompressionWithLevel", "None")])
        sc = Adt("Scriptlet", "Scriptlet", [string(inp["text"]), intrinsics3.some(Adt("ScriptletFlags", "bits", [Int(inp["flags"], "u32")])), intrinsics3.some(VecV([string(inp["prog"])]))])
        b = e.call_fn(ctx.impl_fn("verify_script", None, "PackageBuilder"), [b, sc])
        r = e.call_fn(ctx.impl_fn("build", None, "PackageBuilder"), [b])
        return r, r.fields[0].fields[0].fields[2]

    def on_path(e, inp, out):
        k, v = out
        if k != "return":
            ctx.fail("building panics: %s" % (v,), "PackageBuilder::build", kind="c06v")
            return
        r, hdr = v
        ctx.cover("package built", r.variant == "Ok")
        ents = {ent.fields[0].conc(): ent.fields[1] for ent in hdr.fields[1].items}
        t, fl_, pr = ents.get(tag("RPMTAG_VERIFYSCRIPT")), ents.get(tag("RPMTAG_VERIFYSCRIPTFLAGS")), ents.get(tag("RPMTAG_VERIFYSCRIPTPROG"))
        bad = None
        if t is None or t.variant != "StringTag" or e._check(z3.Not(_eq_str(e, t.fields[0], Str(inp["text"])))):
            bad = "script text"
        elif fl_ is None or fl_.variant != "Int32" or len(fl_.fields[0].items) != 1 or e._check(fl_.fields[0].items[0].e != inp["flags"]):
            bad = "flags"
        elif pr is None or pr.variant != "StringArray" or len(pr.fields[0].items) != 1 or e._check(z3.Not(_eq_str(e, pr.fields[0].items[0], Str(inp["prog"])))):
            bad = "interpreter"
        if bad:
            ctx.fail("the %%verifyscript %s given to verify_script() is not in the header of the built package" % bad, "PackageBuilder::build", kind="c06v")
    ex.run_all(setup, body, on_path)


HARNESSES["c06_verify_script"] = c06_verify_script


def c06_files_misc(ctx):
    """a symbolic link, a file with capabilities, a './'-style destination and a file directly under the root: link target, capabilities and the exact paths are read back"""
    ex = Exec(ctx.funcs, intrinsics.I, max_steps=4000000)
    ctx.stats = ex.stats
    ctx.bounds = ("four files: /d/l (symbolic link, target of 2 symbolic letters), /d/c (capabilities cap_chown=ep), ./e/r ('./'-style destination), /t (directly under the root); one symbolic content byte each; "
                  "get_file_entries: paths, link target, capabilities")

    def setup(e):
        return dict(link=sym_bytes(e, "lt", 2, 0x61, 0x7a), c=[z3.BitVec("content_%d" % i, 8) for i in range(4)])

    def body(e, inp):
        clock_stub(e)
        b = builder_new(ctx, e)
        b = e.call_fn(ctx.impl_fn("compression", None, "PackageBuilder"), [b, Adt("CompressionWithLevel", "None")])
        cell = Cell(b)
        specs = []
        fo = file_options(b"/d/l")
        fo.fields[3] = string(inp["link"])
        fo.fields[4] = Adt("FileMode", "SymbolicLink", [Int(0o777, "u16")])
        specs.append(fo)
        fo = file_options(b"/d/c")
        fo.fields[7] = intrinsics3.some(Adt("FileCaps", "FileCaps", [string(b"cap_chown=ep")]))
        specs.append(fo)
        specs.append(file_options(b"./e/r"))
        specs.append(file_options(b"/t"))
        for i, fo in enumerate(specs):
            r = e.call_fn(ctx.impl_fn("add_data", None, "PackageBuilder"), [Ref(cell), VecV([Int(inp["c"][i], "u8")]), Adt("Timestamp", "Timestamp", [Int(5, "u32")]), fo])
            assert r.variant == "Ok"
        r = e.call_fn(ctx.impl_fn("build", None, "PackageBuilder"), [cell.v])
        meta = r.fields[0].fields[0]
        return r, e.call_fn(ctx.impl_fn("get_file_entries", None, "PackageMetadata"), [Ref(Cell(meta))])

    def on_path(e, inp, out):
        k_, v = out
        if k_ != "return":
            ctx.fail("building or reading back panics: %s" % (v,), "PackageBuilder::build", kind="c06m")
            return
        r, fes = v
        ctx.cover("package built", r.variant == "Ok")
        if fes.variant != "Ok" or len(fes.fields[0].items) != 4:
            ctx.fail("get_file_entries() does not list the four files given to the builder", "PackageMetadata::get_file_entries", kind="c06m")
            return
        by_path = {}
        for fe in fes.fields[0].items:
            fe = intrinsics.deref_all(e, fe)
            pb = intrinsics3._path_bytes(e, fe.fields[0])
            raw = bytes(z3.simplify(x).as_long() for x in pb)
            while b"//" in raw:                      # PathBuf equality is by components: "//t" and "/t" are the same path
                raw = raw.replace(b"//", b"/")
            by_path[raw] = fe
        for want in (b"/d/l", b"/d/c", b"/e/r", b"/t"):
            if want not in by_path:
                ctx.fail("get_file_entries() does not return the destination %s (paths returned: %s)" % (want.decode(), sorted(p.decode() for p in by_path)), "PackageMetadata::get_file_entries", kind="c06m")
                return
        ln = by_path[b"/d/l"]
        if ln.fields[1].variant != "SymbolicLink" or e._check(z3.Not(_eq_str(e, ln.fields[8], Str(inp["link"])))):
            ctx.fail("get_file_entries() does not return the link target (or kind) of the symbolic link given to the builder", "PackageMetadata::get_file_entries", kind="c06m")
            return
        cp = by_path[b"/d/c"].fields[7]
        if cp.variant != "Some" or e._check(z3.Not(_eq_str(e, cp.fields[0], Str.lit(b"cap_chown=ep")))):
            ctx.fail("get_file_entries() does not return the capabilities given to the builder", "PackageMetadata::get_file_entries", kind="c06m")
            return
        for p_, fe in by_path.items():
            if p_ != b"/d/c" and fe.fields[7].variant == "Some" and e._check(z3.Not(_eq_str(e, fe.fields[7].fields[0], Str.lit(b"")))):
                ctx.fail("a file without capabilities is returned with capabilities", "PackageMetadata::get_file_entries", kind="c06m")
                return
            if p_ != b"/d/l" and e._check(z3.Not(_eq_str(e, fe.fields[8], Str.lit(b"")))):
                ctx.fail("a file that is not a link is returned with a link target", "PackageMetadata::get_file_entries", kind="c06m")
                return
    ex.run_all(setup, body, on_path)


HARNESSES["c06_files_misc"] = c06_files_misc


FLAG_METHODS = ("is_doc", "is_config", "is_config_noreplace", "is_ghost", "is_license", "is_readme")


def c06_fileopts_flags(ctx):
    """FileOptionsBuilder flag methods: the flags of the options are the union of what each method sets, whatever the order"""
    ex = Exec(ctx.funcs, intrinsics.I)
    ctx.stats = ex.stats
    ctx.bounds = "FileOptions::new(\"/x\") followed by every ordered pair of the flag methods %s: flags = union of the two methods' own flags" % ", ".join(FLAG_METHODS)
    newf = ctx.impl_fn("new", None, "FileOptions")

    def body(e, inp):
        out = {}
        single = {}
        for m in FLAG_METHODS:
            fb = e.call_fn(newf, [Str.lit(b"/x")])
            fb = e.call_fn(ctx.impl_fn(m, None, "FileOptionsBuilder"), [fb])
            single[m] = fb.fields[0].fields[5].fields[0]
        for a in FLAG_METHODS:
            for b_ in FLAG_METHODS:
                fb = e.call_fn(newf, [Str.lit(b"/x")])
                fb = e.call_fn(ctx.impl_fn(a, None, "FileOptionsBuilder"), [fb])
                fb = e.call_fn(ctx.impl_fn(b_, None, "FileOptionsBuilder"), [fb])
                out[(a, b_)] = fb.fields[0].fields[5].fields[0]
        return single, out

    def on_path(e, inp, out):
        k, v = out
        if k != "return":
            ctx.fail("a flag method panics: %s" % (v,), "FileOptionsBuilder", kind="c06flags", pair=[])
            return
        single, pairs = v
        ctx.cover("flags computed", True)
        for (a, b_), got in pairs.items():
            if e._check(got.e != (single[a].e | single[b_].e)) or e._check(single[a].e == 0):
                ctx.fail("FileOptions::new(..).%s().%s() does not carry the flags of both methods" % (a, b_), "FileOptionsBuilder::" + b_, kind="c06flags", pair=[a, b_])
                return
    ex.run_all(lambda e: None, body, on_path)


HARNESSES["c06_fileopts_flags"] = c06_fileopts_flags


# ---------------------------------------------------------------------------------------------------------
# C08 (builder part): every digest the builder records is the digest of the bytes it names (digests as uninterpreted functions)
# ---------------------------------------------------------------------------------------------------------
def cpio_bodies(e, archive):
    """[(name bytes, body terms)] of a newc archive whose entry headers and names are concrete (contents may be symbolic)"""
    def conc(x):
        x = z3.simplify(x) if z3.is_expr(x) else x
        if isinstance(x, int):
            return x
        if z3.is_bv_value(x):
            return x.as_long()
        raise Unsupported("harness: symbolic byte in a cpio entry header")
    out, pos = [], 0
    while pos + 110 <= len(archive):
        hd = bytes(conc(x) for x in archive[pos:pos + 110])
        if hd[:6] not in (b"070701", b"070702"):
            raise Unsupported("harness: archive entry without newc magic")
        fsize, nsize = int(hd[54:62], 16), int(hd[94:102], 16)
        name = bytes(conc(x) for x in archive[pos + 110:pos + 110 + nsize - 1])
        pos += 110 + nsize
        pos += (4 - pos % 4) % 4
        if name == b"TRAILER!!!":
            break
        out.append((name, list(archive[pos:pos + fsize])))
        pos += fsize
        pos += (4 - pos % 4) % 4
    return out


def c08_build(ctx, sizes, comp="none", variant=""):
    ex = Exec(ctx.funcs, intrinsics.I, max_steps=8000000)
    ctx.stats = ex.stats
    ctx.bounds = ("PackageBuilder .. build() from MIR with files of %s symbolic content bytes, compression %s; SHA-256 as an uninterpreted function of the exact bytes hashed: header digest in the signature header, "
                  "payload digest, alternate payload digest, per-file digests" % ("/".join(map(str, sizes)) or "no", comp if comp == "none" else comp + " (level symbolic within the accepted range; the compressor is an uninterpreted function of level and input)"))
    if variant:
        ctx.bounds += {"dup": "; both files are added under the same destination /d/f0", "symlink": "; the last file is a symbolic-link entry (/d/l -> /t)"}[variant]
    from intrinsics2 import uf_digest
    from harnesses_pkg import hexchars
    from rpmvals import tag, sigtag

    def setup(e):
        return [sym_bytes(e, "c%d_" % i, n, 0, 255) for i, n in enumerate(sizes)]

    def body(e, inp):
        clock_stub(e)
        b = builder_new(ctx, e)
        b = e.call_fn(ctx.impl_fn("compression", None, "PackageBuilder"), [b, compression_value(e, comp, zstd_documented_range=False)])
        cell = Cell(b)
        for i in range(len(sizes)):
            r = e.call_fn(ctx.impl_fn("add_data", None, "PackageBuilder"), [Ref(cell), VecV([Int(x, "u8") for x in inp[i]]), Adt("Timestamp", "Timestamp", [Int(5, "u32")]),
                                                                                (file_options(b"/d/l", link=b"/t", ftype="SymbolicLink", mode=0o777) if variant == "symlink" and i == len(sizes) - 1 else
                                                                                 file_options(b"/d/f0" if variant == "dup" else b"/d/f%d" % i))])
            assert r.variant == "Ok"
        r = e.call_fn(ctx.impl_fn("build", None, "PackageBuilder"), [cell.v])
        if r.variant != "Ok":
            return r, None
        pkg = r.fields[0]
        hb = VecV([])
        w = e.call_fn(ctx.impl_fn("write", None, "Header"), [Ref(Cell(pkg.fields[0].fields[2])), Ref(Cell(hb))])
        assert w.variant == "Ok"
        return r, as_bytes(e, hb)

    def on_path(e, inp, out):
        k, v = out
        if k != "return":
            ctx.fail("building panics: %s" % (v,), "PackageBuilder::build", kind="c08b", sizes=list(sizes), comp=comp, variant=variant)
            return
        r, hb = v
        ctx.cover("package built", r.variant == "Ok")
        if r.variant != "Ok":
            return                                   # zstd may refuse to construct an encoder (io::Result): an error, not a panic
        pkg = r.fields[0]
        meta, content = pkg.fields[0], as_bytes(e, pkg.fields[1])
        archive = content
        if comp != "none":
            if len(intrinsics3.ENCODERS) != 1 or intrinsics3.ENCODERS[0][0] != comp:
                ctx.fail("the payload was not produced by exactly one %s encoder" % comp, "PackageBuilder::build", kind="c08b", sizes=list(sizes), what="compressor", comp=comp)
                return
            archive = intrinsics3.ENCODERS[0][2]
            if len(content) != len(intrinsics3.ENCODERS[0][3]) or not all(a.eq(b_) for a, b_ in zip(content, intrinsics3.ENCODERS[0][3])):
                ctx.fail("the package content is not the encoder's output", "PackageBuilder::build", kind="c08b", sizes=list(sizes), what="content", comp=comp)
                return
        sig = {ent.fields[0].conc(): ent.fields[1] for ent in meta.fields[1].fields[1].items}
        hdr = {ent.fields[0].conc(): ent.fields[1] for ent in meta.fields[2].fields[1].items}

        def hexof(bs):
            return Str(hexchars(uf_digest("sha256", list(bs))))
        checks = []
        d = sig.get(sigtag("RPMSIGTAG_SHA256"))
        checks.append(("header SHA-256 in the signature header", d is not None and d.variant == "StringTag" and not e._check(z3.Not(_eq_str(e, d.fields[0], hexof(hb))))))
        d = hdr.get(tag("RPMTAG_PAYLOADDIGEST"))
        checks.append(("payload digest", d is not None and len(d.fields[0].items) == 1 and not e._check(z3.Not(_eq_str(e, d.fields[0].items[0], hexof(content))))))
        d = hdr.get(tag("RPMTAG_PAYLOADDIGESTALT"))
        checks.append(("alternate payload digest (SHA-256 of the uncompressed archive)", d is not None and len(d.fields[0].items) == 1 and not e._check(z3.Not(_eq_str(e, d.fields[0].items[0], hexof(archive))))))
        d = hdr.get(tag("RPMTAG_PAYLOADCOMPRESSOR"))
        if comp != "none":
            checks.append(("payload compressor name", d is not None and not e._check(z3.Not(_eq_str(e, d.fields[0], Str.lit(comp.encode()))))))
        d = hdr.get(tag("RPMTAG_PAYLOADDIGESTALGO"))
        checks.append(("payload digest algorithm id (SHA-256 = 8)", d is not None and not e._check(d.fields[0].items[0].e != 8)))
        if sizes:
            d = hdr.get(tag("RPMTAG_FILEDIGESTS"))
            if variant:
                # files in the header and entries in the archive are both in path order: each recorded digest names the bytes the archive carries for that file
                bodies = cpio_bodies(e, archive)
                okf = d is not None and len(d.fields[0].items) == len(bodies) and all(not e._check(z3.Not(_eq_str(e, x, hexof(bodies[i][1])))) for i, x in enumerate(d.fields[0].items))
                ctx.cover("archive entries compared", len(bodies) > 0)
            else:
                okf = d is not None and len(d.fields[0].items) == len(sizes) and all(not e._check(z3.Not(_eq_str(e, x, hexof(inp[i])))) for i, x in enumerate(d.fields[0].items))
            checks.append(("per-file digests", okf))
            d = hdr.get(tag("RPMTAG_FILEDIGESTALGO"))
            checks.append(("file digest algorithm id", d is not None and not e._check(d.fields[0].items[0].e != 8)))
        for what, good in checks:
            if not good:
                ctx.fail("the built package records a wrong %s" % what, "PackageBuilder::build", kind="c08b", sizes=list(sizes), what=what, comp=comp, variant=variant)
                return
    ex.run_all(setup, body, on_path)


def replay_c08b(ctx, fl):
    ans = ctx.native.ask("build_digests", ",".join(str(x) for x in fl.get("sizes", [])) or "-", fl.get("comp") or "none", fl.get("variant") or "plain")
    return not ans.startswith("same"), "real crate: package with files of those sizes built through the public API, recorded digests vs recomputed ones -> " + ans[:120]


REPLAYERS["c08"] = (lambda prev: (lambda ctx, fl: replay_c08b(ctx, fl) if fl.get("kind") == "c08b" else prev(ctx, fl)))(REPLAYERS["c08"])
for _sz in ((), (1,), (0, 3), (2, 1, 4)):
    HARNESSES["c08_build_" + ("_".join(map(str, _sz)) or "empty")] = (lambda sz: (lambda ctx: c08_build(ctx, sz)))(_sz)
HARNESSES["c08_build_dup_2_3"] = lambda ctx: c08_build(ctx, (2, 3), variant="dup")
HARNESSES["c08_build_symlink_2_1"] = lambda ctx: c08_build(ctx, (2, 1), variant="symlink")
for _cp in ("gzip", "xz", "bzip2", "zstd"):
    HARNESSES["c08_build_%s_2_1" % _cp] = (lambda cp: (lambda ctx: c08_build(ctx, (2, 1), cp)))(_cp)


def built_package_checks(ctx, sizes, which):
    """which = 'c03': verify_digests of a freshly built package succeeds; 'c16': its reported offsets are the segment boundaries of the written bytes"""
    ex = Exec(ctx.funcs, intrinsics.I, max_steps=8000000)
    ctx.stats = ex.stats
    ctx.bounds = ("PackageBuilder .. build() from MIR with files of %s symbolic content bytes, no compression; then %s" % (
        "/".join(map(str, sizes)) or "no", "Package::verify_digests (digests as uninterpreted functions)" if which == "c03" else "get_package_segment_offsets vs Package::write"))

    def setup(e):
        return [sym_bytes(e, "c%d_" % i, n, 0, 255) for i, n in enumerate(sizes)]

    def body(e, inp):
        clock_stub(e)
        b = builder_new(ctx, e)
        b = e.call_fn(ctx.impl_fn("compression", None, "PackageBuilder"), [b, Adt("CompressionWithLevel", "None")])
        cell = Cell(b)
        for i in range(len(sizes)):
            r = e.call_fn(ctx.impl_fn("add_data", None, "PackageBuilder"), [Ref(cell), VecV([Int(x, "u8") for x in inp[i]]), Adt("Timestamp", "Timestamp", [Int(5, "u32")]), file_options(b"/d/f%d" % i)])
            assert r.variant == "Ok"
        r = e.call_fn(ctx.impl_fn("build", None, "PackageBuilder"), [cell.v])
        pkg = r.fields[0]
        if which == "c03":
            return r, e.call_fn(ctx.impl_fn("verify_digests", None, "Package"), [Ref(Cell(pkg))]), None
        offs = e.call_fn(ctx.impl_fn("get_package_segment_offsets", None, "PackageMetadata"), [Ref(Cell(pkg.fields[0]))])
        return r, offs, (written_bytes(ctx, e, pkg), len(as_bytes(e, pkg.fields[1])))

    def on_path(e, inp, out):
        k, v = out
        if k != "return":
            ctx.fail("building or checking panics: %s" % (v,), "PackageBuilder::build", kind="built_" + which, sizes=list(sizes))
            return
        r, res, extra = v
        ctx.cover("package built", r.variant == "Ok")
        if which == "c03":
            if res.variant != "Ok":
                ctx.fail("verify_digests fails on a package this library has just built (%s)" % (getattr(res.fields[0], "variant", res.fields[0]),), "Package::verify_digests", kind="built_c03", sizes=list(sizes))
            return
        bs, ncontent = extra
        lead_o, sig_o, hdr_o, pay_o = [x.conc() for x in res.fields]
        magic = [0x8e, 0xad, 0xe8, 0x01]

        def at(o):
            return o is not None and len(bs) >= o + 4 and not e._check(z3.Not(z3.And([g == m for g, m in zip(bs[o:o + 4], magic)])))
        if not (lead_o == 0 and sig_o == 96 and at(sig_o) and at(hdr_o) and pay_o is not None and len(bs) == pay_o + ncontent and lead_o < sig_o < hdr_o < pay_o):
            ctx.fail("the reported offsets %s of a built package are not the segment boundaries of the %d bytes it writes" % ([lead_o, sig_o, hdr_o, pay_o], len(bs)), "PackageMetadata::get_package_segment_offsets",
                     kind="built_c16", sizes=list(sizes))
    ex.run_all(setup, body, on_path)


def replay_built(ctx, fl):
    ans = ctx.native.ask("built_checks", ",".join(str(x) for x in fl.get("sizes", [])) or "-")
    return not ans.startswith("same"), "real crate: package with files of those sizes built through the public API: verify_digests and offsets -> " + ans[:120]


REPLAYERS["c03"] = (lambda prev: (lambda ctx, fl: replay_built(ctx, fl) if fl.get("kind") == "built_c03" else prev(ctx, fl)))(REPLAYERS["c03"])
REPLAYERS["c16"] = (lambda prev: (lambda ctx, fl: replay_built(ctx, fl) if fl.get("kind") == "built_c16" else prev(ctx, fl)))(REPLAYERS["c16"])
for _sz in ((), (1,), (2, 3)):
    _nm = "_".join(map(str, _sz)) or "empty"
    HARNESSES["c03_built_" + _nm] = (lambda sz: (lambda ctx: built_package_checks(ctx, sz, "c03")))(_sz)
    HARNESSES["c16_built_" + _nm] = (lambda sz: (lambda ctx: built_package_checks(ctx, sz, "c16")))(_sz)


# ---------------------------------------------------------------------------------------------------------
# C17: required metadata of any length - PackageBuilder::new(name of N bytes, ..).build() returns, never panics
# ---------------------------------------------------------------------------------------------------------
def c17_name(ctx, n, field="name"):
    ex = Exec(ctx.funcs, intrinsics.I, max_steps=4000000)
    ctx.stats = ex.stats
    ctx.bounds = "PackageBuilder::new with a %s of %d symbolic lower-case letters, build() from MIR (the lead keeps 65 name bytes and a terminator)" % (field, n)

    def setup(e):
        return sym_bytes(e, "nm", n, 0x61, 0x7a)

    def body(e, inp):
        clock_stub(e)
        new = ctx.impl_fn("new", None, "PackageBuilder")
        vals = dict(name=Str.lit(b"n"), version=Str.lit(b"1"), lic=Str.lit(b"MIT"), arch=Str.lit(b"noarch"), summary=Str.lit(b"s"))
        vals[field] = Str(list(inp))
        b = e.call_fn(new, [vals["name"], vals["version"], vals["lic"], vals["arch"], vals["summary"]])
        b = e.call_fn(ctx.impl_fn("compression", None, "PackageBuilder"), [b, Adt("CompressionWithLevel", "None")])
        return e.call_fn(ctx.impl_fn("build", None, "PackageBuilder"), [b])

    def on_path(e, inp, out):
        k, v = out
        if k != "return":
            ctx.fail("building a package whose %s has %d bytes panics: %s" % (field, n, v), "PackageBuilder::build", kind="c17name", n=n, field=field)
            return
        ctx.cover("package built", v.variant == "Ok")
    ex.run_all(setup, body, on_path)


def replay_c17name(ctx, fl):
    ans = ctx.native.ask("build_name", fl.get("field", "name"), str(fl.get("n", 66)))
    return ans == "panic", "real crate: PackageBuilder::new with a %s of %d bytes, build() -> %s" % (fl.get("field", "name"), fl.get("n", 66), ans)


for _n in (64, 65, 66, 67, 300):
    HARNESSES["c17_name_%d" % _n] = (lambda n: (lambda ctx: c17_name(ctx, n)))(_n)
HARNESSES["c17_version_300"] = lambda ctx: c17_name(ctx, 300, "version")
REPLAYERS["c17"] = (lambda prev: (lambda ctx, fl: replay_c17name(ctx, fl) if fl.get("kind") == "c17name" else prev(ctx, fl)))(REPLAYERS["c17"])


def replay_c09lead(ctx, fl):
    """Lead::new is crate-private: the same name through PackageBuilder::new(..).build() and Package::write, then the 96 lead bytes"""
    name = bytes.fromhex(fl.get("name", ""))
    ans = ctx.native.ask("lead_of", name.hex() or "-")
    if ans.startswith("panic"):
        return True, "real crate: PackageBuilder::new(name of %d bytes, ..).build() -> panic" % len(name)
    if not ans.startswith("ok "):
        return False, "real crate: " + ans[:100]
    lead = bytes.fromhex(ans.split()[1])
    m = min(len(name), 65)
    good = len(lead) == 96 and lead[:8] == bytes([0xed, 0xab, 0xee, 0xdb, 3, 0, 0, 0]) and lead[10:10 + m] == name[:m] and lead[10 + m:76] == b"\0" * (66 - m) and lead[78:80] == b"\0\x05"
    return not good, "real crate: lead of a package built with a %d-byte name: name field %s" % (len(name), "NUL-terminated" if lead[75:76] == b"\0" else "fills all 66 bytes without a terminator")


REPLAYERS["c09"] = (lambda prev: (lambda ctx, fl: replay_c09lead(ctx, fl) if fl.get("kind") == "c09lead" else prev(ctx, fl)))(REPLAYERS["c09"])
