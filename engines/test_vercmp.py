import sys, time
sys.path.insert(0, '/verif/engines')
import z3
import mir, symex, intrinsics
from symex import *

funcs = mir.parse_mir(open('/tmp/rpm.mir').read())
ex = Exec(funcs, intrinsics.I)
f = funcs['compare_version_string'][0]

def conc(a, b):
    res = []
    def setup(e): return (Str.lit(a), Str.lit(b))
    def body(e, inp): return e.call_fn(f, list(inp))
    def onp(e, inp, out): res.append(out)
    ex.run_all(setup, body, onp)
    assert len(res) == 1, res
    return res[0]

tests = [(b"1.0", b"1.0", "Equal"), (b"1.0", b"2.0", "Less"), (b"2.0", b"1.0", "Greater"), (b"2.0.1", b"2.0.1", "Equal"),
 (b"2.0", b"2.0.1", "Less"), (b"5.5p1", b"5.5p1", "Equal"), (b"5.5p1", b"5.5p2", "Less"), (b"10xyz", b"10.1xyz", "Less"),
 (b"xyz10", b"xyz10.1", "Less"), (b"xyz.4", b"8", "Less"), (b"1.0~rc1", b"1.0", "Less"), (b"1.0^", b"1.0", "Greater"),
 (b"1.0^git1", b"1.01", "Less"), (b"1.0^git1~pre", b"1.0^git1", "Less"), (b"a", b"1", "Less"), (b"007", b"7", "Equal"), (b"", b"", "Equal"), (b"", b"a", "Less")]
for a, b, exp in tests:
    k, v = conc(a, b)
    print(a, b, k, v, "OK" if (k == 'return' and v.variant == exp) else "MISMATCH exp " + exp)
