"""Models of std / dependency functions used by the header, digest and signature code
(Vec, slices and their iterators, io::Write into buffers, Option/Result helpers, digests as
uninterpreted functions, hex encoding, nom's fixed-size readers).  Part of the trusted base."""
import re

import z3

from intrinsics import I, intr, deref_all, as_str, eq_expr, Iter, ch
from symex import (Adt, Arr, Bool, Cell, Closure, Int, NONE, Opaque, PathEnd, Ref, Str, Tup, UNIT, Unsupported, VecV, some, usize)


def ok(v=UNIT):
    return Adt("Result", "Ok", [v])


def err(v):
    return Adt("Result", "Err", [v])


def as_bytes(ex, v):
    """any byte container -> python list of z3 8-bit terms"""
    v = deref_all(ex, v)
    if isinstance(v, Str):
        return v.bytes()
    if isinstance(v, (Arr, VecV)):
        out = []
        for x in v.items:
            if not isinstance(x, Int) or x.e.size() != 8:
                raise Unsupported("not a byte container: %r" % (v,))
            out.append(x.e)
        return out
    if isinstance(v, DigestVal):
        return v.bytes()
    if isinstance(v, Adt) and v.ty == "Cow":
        return as_bytes(ex, v.fields[0])
    raise Unsupported("not a byte container: %r" % (v,))


def items_of(ex, v):
    v = deref_all(ex, v)
    if isinstance(v, (Arr, VecV)):
        return v.items
    if isinstance(v, Str):
        return [Int(b, "u8") for b in v.bytes()]
    if hasattr(v, "lo") and hasattr(v, "hi") and hasattr(v, "ref"):      # mutable sub-slice view
        return items_of(ex, v.ref)[v.lo:v.hi]
    raise Unsupported("not a sequence: %r" % (v,))


# ---- Vec ---------------------------------------------------------------------------------------------------
@intr("Vec::with_capacity", "Vec::new", "Vec::<T>::new", "Vec::<T>::with_capacity")
def _vec_new(ex, args, f):
    return VecV([])


ITEM_BUDGET = [1 << 20]   # items a single Vec may receive on one path (set from the input length by the parsing harnesses)


@intr("Vec::push", "Vec::<T>::push")
def _vec_push(ex, args, f):
    v = deref_all(ex, args[0])
    v.items.append(args[1])
    if len(v.items) > ITEM_BUDGET[0]:
        raise PathEnd("alloc", "more than %d items pushed into one vector (out of proportion to the input)" % ITEM_BUDGET[0])
    return UNIT


@intr("Vec::len", "Vec::<T>::len", "core::slice::<impl [T]>::len")
def _vec_len(ex, args, f):
    return usize(len(items_of(ex, args[0])))


@intr("Vec::is_empty", "core::slice::<impl [T]>::is_empty")
def _vec_is_empty(ex, args, f):
    return Bool(len(items_of(ex, args[0])) == 0)


@intr("Vec::as_slice", "std::array::<impl [T]>::as_slice", "core::array::<impl [T]>::as_slice", "std::array::<impl [T; N]>::as_slice", "<_ as Deref>::deref", "std::slice::<impl [u8]>::to_vec", "std::slice::<impl [T]>::to_vec", "Vec::as_ref",
      "<_ as AsRef>::as_ref", "<_ as Borrow>::borrow")
def _as_slice(ex, args, f):
    v = deref_all(ex, args[0])
    if isinstance(v, Adt) and v.ty == "Cow":
        return as_str(ex, v)
    if isinstance(v, DigestVal):
        return Str(v.bytes())
    if "to_vec" in f and isinstance(v, (Arr, VecV)):
        return VecV(list(v.items))
    return v


@intr("Vec::extend_from_slice", "Vec::<T>::extend_from_slice")
def _extend(ex, args, f):
    v = deref_all(ex, args[0])
    v.items += items_of(ex, args[1])
    return UNIT


@intr("core::slice::<impl [T]>::first")
def _first(ex, args, f):
    it = items_of(ex, args[0])
    if not it:
        return NONE
    r = args[0]
    base = r
    while isinstance(base, Ref) and isinstance(ex.read_ref(base), Ref):
        base = ex.read_ref(base)
    if isinstance(base, Ref):
        return some(Ref(base.cell, base.proj + (("idx", 0),)))
    return some(Ref(Cell(it[0])))


@intr("core::slice::<impl [T]>::get")
def _get(ex, args, f):
    it = items_of(ex, args[0])
    iv = deref_all(ex, args[1])
    if isinstance(iv, Int):
        n = len(it)
        if not ex.decide(z3.ULT(iv.e, n)):
            return NONE
        for k in range(n):
            if ex.decide(iv.e == k):
                return some(Ref(Cell(it[k])))
    raise Unsupported("slice::get with %r" % (iv,))


@intr("Option::copied", "Option::cloned")
def _copied(ex, args, f):
    o = args[0]
    if o.variant == "None":
        return NONE
    return some(deref_all(ex, o.fields[0]))


@intr("Option::expect", "Option::unwrap")
def _expect(ex, args, f):
    o = args[0]
    if o.variant == "None":
        raise PathEnd("panic", "Option::expect/unwrap on None")
    return o.fields[0]


@intr("Result::expect", "Result::unwrap")
def _rexpect(ex, args, f):
    o = args[0]
    if o.variant == "Err":
        raise PathEnd("panic", "Result::expect/unwrap on Err")
    return o.fields[0]


@intr("Option::ok_or_else")
def _ok_or_else(ex, args, f):
    o = args[0]
    if o.variant == "Some":
        return ok(o.fields[0])
    return err(ex.call_closure(deref_all(ex, args[1]), []))


@intr("Option::ok_or")
def _ok_or(ex, args, f):
    o = args[0]
    return ok(o.fields[0]) if o.variant == "Some" else err(args[1])


@intr("Option::map", "Result::map")
def _omap(ex, args, f):
    o = args[0]
    if o.variant in ("Some", "Ok"):
        return Adt(o.ty, o.variant, [ex.call_closure(deref_all(ex, args[1]), [o.fields[0]])])
    return o


@intr("Result::ok")
def _rok(ex, args, f):
    o = args[0]
    return some(o.fields[0]) if o.variant == "Ok" else NONE


@intr("Result::is_err")
def _ris_err(ex, args, f):
    return Bool(deref_all(ex, args[0]).variant == "Err")


@intr("Result::or_else")
def _or_else(ex, args, f):
    o = args[0]
    if o.variant == "Ok":
        return o
    return ex.call_closure(deref_all(ex, args[1]), [o.fields[0]])


@intr("Result::map_err")
def _map_err(ex, args, f):
    o = args[0]
    if o.variant == "Ok":
        return o
    return err(ex.call_closure(deref_all(ex, args[1]), [o.fields[0]]))


@intr("Result::and_then", "Option::and_then")
def _and_then(ex, args, f):
    o = args[0]
    if o.variant in ("Ok", "Some"):
        return ex.call_closure(deref_all(ex, args[1]), [o.fields[0]])
    return o


@intr("Result::map_or_else")
def _map_or_else(ex, args, f):
    o = args[0]
    if o.variant == "Ok":
        fn = deref_all(ex, args[2])
        return ex.call_closure(fn, [o.fields[0]])          # closures and function items alike
    return ex.call_closure(deref_all(ex, args[1]), [o.fields[0]])


# ---- slice iterators -------------------------------------------------------------------------------------------
class SliceIter:
    def __init__(self, base_ref, n):
        self.base = base_ref   # Ref to the container (so that yielded items are places)
        self.n = n
        self.i = 0

    def __repr__(self):
        return "SliceIter(%d/%d)" % (self.i, self.n)


def container_ref(ex, v):
    """normalise to a Ref whose target is the Arr/VecV itself"""
    while isinstance(v, Ref):
        t = ex.read_ref(v)
        if isinstance(t, Ref):
            v = t
        else:
            return v, t
    return Ref(Cell(v)), v


@intr("core::slice::<impl [T]>::iter", "<_ as IntoIterator>::into_iter", "core::slice::<impl [T]>::iter_mut")
def _iter(ex, args, f):
    v = args[0]
    t = deref_all(ex, v)
    if isinstance(t, (Iter, SliceIter)):
        return t
    if isinstance(t, (Arr, VecV)):
        r, tt = container_ref(ex, v)
        it = SliceIter(r, len(tt.items))
        # `Vec<T>::into_iter()` / `[T; N]::into_iter()` consume the container and yield the items by value
        fs = f.strip()
        it.owned = bool(re.match(r"^<(?:std::vec::)?Vec<.*> as (?:std::iter::)?IntoIterator>::into_iter", fs) or re.match(r"^<\[.*; \d+\] as (?:std::iter::)?IntoIterator>::into_iter", fs)
                        or fs.startswith("Vec::into_iter") or fs.startswith("Vec::<") and fs.endswith("::into_iter"))
        return it
    if isinstance(t, Str):
        return SliceIter(Ref(Cell(Arr([Int(b, "u8") for b in t.bytes()]))), len(t))
    raise Unsupported("iter over %r" % (t,))


_prev_next = I["<_ as Iterator>::next"]


@intr("<_ as Iterator>::next")
def _next2(ex, args, f):
    it = deref_all(ex, args[0])
    if isinstance(it, SliceIter):
        if it.i >= it.n:
            return NONE
        r = Ref(it.base.cell, it.base.proj + (("idx", it.i),))
        it.i += 1
        if getattr(it, "owned", False):
            return some(ex.read_ref(r))
        return some(r)
    return _prev_next(ex, args, f)


@intr("<_ as Iterator>::find")
def _find(ex, args, f):
    it = deref_all(ex, args[0])
    clo = deref_all(ex, args[1])
    if not isinstance(it, SliceIter):
        raise Unsupported("find on %r" % (it,))
    while it.i < it.n:
        r = Ref(it.base.cell, it.base.proj + (("idx", it.i),))
        it.i += 1
        hit = ex.call_closure(clo, [Ref(Cell(r))])
        if ex.decide(hit.e):
            return some(ex.read_ref(r) if getattr(it, "owned", False) and isinstance(r, Ref) else r)
    return NONE


@intr("<_ as Iterator>::any")
def _any(ex, args, f):
    it = deref_all(ex, args[0])
    clo = deref_all(ex, args[1])
    while it.i < it.n:
        r = Ref(it.base.cell, it.base.proj + (("idx", it.i),))
        it.i += 1
        hit = ex.call_closure(clo, [r])
        if ex.decide(hit.e):
            return Bool(True)
    return Bool(False)


# ---- integers ----------------------------------------------------------------------------------------------------
def _to_be(ex, args, f):
    v = deref_all(ex, args[0])
    w = v.e.size()
    return Arr([Int(z3.Extract(w - 1 - 8 * k, w - 8 - 8 * k, v.e), "u8") for k in range(w // 8)])


for _t in ("u8", "u16", "u32", "u64", "i32", "i64", "i16"):
    I["core::num::<impl %s>::to_be_bytes" % _t] = _to_be


def _from_be(ty):
    def g(ex, args, f):
        bs = as_bytes(ex, args[0])
        return Int(z3.Concat(*bs) if len(bs) > 1 else bs[0], ty)
    return g


for _t in ("u16", "u32", "u64", "i32"):
    I["core::num::<impl %s>::from_be_bytes" % _t] = _from_be(_t)


@intr("<_ as TryInto>::try_into", "<_ as TryFrom>::try_from")
def _try_into(ex, args, f):
    v = deref_all(ex, args[0])
    m = re.search(r"as (?:std::convert::)?Try(?:Into|From)<([a-z0-9]+)>", f)
    if isinstance(v, Int) and m and m.group(1) in ("u8", "u16", "u32", "u64", "usize", "i32", "i64"):
        ty = m.group(1)
        from symex import WIDTH
        w0, w1 = v.e.size(), WIDTH[ty]
        if w1 >= w0 and not (v.signed and not ty.startswith("i")):
            return ok(Int(z3.ZeroExt(w1 - w0, v.e) if w1 > w0 else v.e, ty))
        fits = z3.ULT(v.e, 1 << w1) if not v.signed else z3.And(v.e >= 0, v.e < (1 << min(w1, w0 - 1)))
        if ex.decide(fits):
            return ok(Int(z3.Extract(w1 - 1, 0, v.e) if w1 < w0 else z3.ZeroExt(w1 - w0, v.e), ty))
        return err(Opaque("TryFromIntError"))
    # blanket impl: <T as TryInto<U>>::try_into(x) = <U as TryFrom<T>>::try_from(x); <T as Into<U>> likewise: look for the crate's impl on U
    m2 = re.match(r"^<(.*) as (?:std::convert::)?TryInto<(.*)>>::try_into$", f.strip())
    if m2:
        from symex import base_name
        fn = ex.find_impl("try_from", "TryFrom", base_name(m2.group(2)))
        if fn is not None:
            return ex.call_fn(fn, [args[0]])
    raise Unsupported("try_into: " + f)


# ---- io::Write into byte buffers -------------------------------------------------------------------------------------
@intr("<_ as Write>::write_all", "<W as std::io::Write>::write_all", "<impl std::io::Write as std::io::Write>::write_all",
      "<impl io::Write as std::io::Write>::write_all")
def _write_all(ex, args, f):
    w = deref_all(ex, args[0])
    data = as_bytes(ex, args[1])
    if isinstance(w, VecV):
        w.items += [Int(b, "u8") for b in data]
        return ok()
    if hasattr(w, "write_all"):
        return w.write_all(ex, data)
    raise Unsupported("write_all into %r" % (w,))


@intr("<_ as Write>::write")
def _write(ex, args, f):
    w = deref_all(ex, args[0])
    data = as_bytes(ex, args[1])
    if isinstance(w, VecV):
        w.items += [Int(b, "u8") for b in data]
        return ok(usize(len(data)))
    if hasattr(w, "write"):
        return w.write(ex, data)
    raise Unsupported("write into %r" % (w,))


# ---- digests as uninterpreted functions ----------------------------------------------------------------------------------
DIGEST_LEN = {"md5": 16, "sha1": 20, "sha256": 32}
_UF = {}


def uf_digest(kind, data):
    n = len(data)
    out = []
    for i in range(DIGEST_LEN[kind]):
        key = (kind, n, i)
        if key not in _UF:
            _UF[key] = z3.Function("H_%s_%d_%d" % (kind, n, i), *([z3.BitVecSort(8)] * n + [z3.BitVecSort(8)])) if n else z3.BitVec("H_%s_0_%d" % (kind, i), 8)
        out.append(_UF[key](*data) if n else _UF[key])
    return out


class Hasher:
    def __init__(self, kind):
        self.kind = kind
        self.data = []

    def __repr__(self):
        return "Hasher(%s,%d)" % (self.kind, len(self.data))


class DigestVal:
    def __init__(self, kind, data):
        self.kind = kind
        self._b = uf_digest(kind, data)

    def bytes(self):
        return self._b

    def __repr__(self):
        return "Digest(%s)" % self.kind


def _kind(f):
    if "Md5" in f:
        return "md5"
    if "Sha1" in f:
        return "sha1"
    if "Sha256" in f:
        return "sha256"
    raise Unsupported("digest kind: " + f)


@intr("<_ as Default>::default", "<_ as Digest>::new")
def _hasher_new(ex, args, f):
    return Hasher(_kind(f))


@intr("<_ as Digest>::update")
def _hasher_update(ex, args, f):
    h = deref_all(ex, args[0])
    h.data += as_bytes(ex, args[1])
    return UNIT


@intr("<_ as Digest>::finalize")
def _hasher_finalize(ex, args, f):
    h = deref_all(ex, args[0])
    return DigestVal(h.kind, h.data)


@intr("<_ as Digest>::digest")
def _digest(ex, args, f):
    return DigestVal(_kind(f), as_bytes(ex, args[0]))


@intr("encode", "hex::encode")
def _hex_encode(ex, args, f):
    bs = as_bytes(ex, args[0])
    out = []
    for b in bs:
        for nib in (z3.LShR(b, 4), b & 15):
            out.append(z3.If(z3.ULT(nib, 10), nib + 48, nib + 87))
    return Str(out, owned=True)


# ---- equality between byte containers / strings of different static types ---------------------------------------------------
_prev_eq = I["<_ as PartialEq>::eq"]


def _eq_any(ex, a, b):
    a = deref_all(ex, a)
    b = deref_all(ex, b)
    try:
        if isinstance(a, (VecV, Arr, DigestVal)) or isinstance(b, (VecV, Arr, DigestVal)):
            x, y = as_bytes(ex, a), as_bytes(ex, b)
            if len(x) != len(y):
                return z3.BoolVal(False)
            return z3.And([p == q for p, q in zip(x, y)]) if x else z3.BoolVal(True)
    except Unsupported:
        pass
    if isinstance(a, (VecV, Arr)) and isinstance(b, (VecV, Arr)):
        if len(a.items) != len(b.items):
            return z3.BoolVal(False)
        return z3.And([_eq_any(ex, p, q) for p, q in zip(a.items, b.items)]) if a.items else z3.BoolVal(True)
    return eq_expr(ex, a, b)


@intr("<_ as PartialEq>::eq")
def _eq2(ex, args, f):
    return Bool(_eq_any(ex, args[0], args[1]))


@intr("<_ as PartialEq>::ne")
def _ne2(ex, args, f):
    return Bool(z3.Not(_eq_any(ex, args[0], args[1])))


# ---- strings that only carry messages ------------------------------------------------------------------------------------------
@intr("<_ as ToString>::to_string")
def _to_string(ex, args, f):
    v = deref_all(ex, args[0])
    if isinstance(v, Str):
        return v
    if isinstance(v, Adt) and v.ty == "Cow":
        return as_str(ex, v)
    return Opaque("string", v)


I["<_ as ToOwned>::to_owned"] = lambda ex, args, f: (lambda v: VecV(list(v.items)) if isinstance(v, (Arr, VecV)) else (as_str(ex, v) if isinstance(v, Adt) and v.ty == "Cow" else v))(deref_all(ex, args[0]))
I["<_ as Clone>::clone"] = I["<_ as ToOwned>::to_owned"]


@intr("<_ as From>::from")
def _from(ex, args, f):
    return args[0]


def _from_prim(width_from, meth):
    def g(ex, args, f):
        # provided methods of num_traits::FromPrimitive funnel into the derived from_u64 / from_i64
        m = re.match(r"^<(.*) as .*FromPrimitive>::", f.strip())
        from symex import base_name
        selfn = base_name(m.group(1)) if m else None
        fn = ex.find_impl(meth, "FromPrimitive", selfn)
        if fn is None:
            raise Unsupported("no derived %s for %s" % (meth, selfn))
        v = deref_all(ex, args[0])
        e = z3.ZeroExt(64 - v.e.size(), v.e) if meth == "from_u64" else z3.SignExt(64 - v.e.size(), v.e)
        return ex.call_fn(fn, [Int(e, "u64" if meth == "from_u64" else "i64")])
    return g


for _m in ("from_u8", "from_u16", "from_u32", "from_usize"):
    I["<_ as FromPrimitive>::" + _m] = _from_prim(0, "from_u64")
for _m in ("from_i8", "from_i16", "from_i32", "from_isize"):
    I["<_ as FromPrimitive>::" + _m] = _from_prim(0, "from_i64")
