"""Models for the parsing side: nom's fixed-size readers and take/take_till, integer ranges, scripted
readers (io::Read / BufRead), allocation requests with a proportionality budget.  Trusted base."""
import os
import re

import z3

from intrinsics import I, intr, deref_all, as_str, NONE
from intrinsics2 import as_bytes, items_of, ok, err
from symex import (Adt, Arr, Bool, Cell, Closure, FnItem, Int, Opaque, PathEnd, Ref, Str, Tup, UNIT, Unsupported, VecV, some, usize, WIDTH)

ALLOC_BUDGET = [1 << 16]     # bytes/items a single reservation may ask for; harnesses set it from the input length


def slice_of(ex, v):
    v = deref_all(ex, v)
    if isinstance(v, Str):
        return v
    if isinstance(v, (Arr, VecV)):
        return Str(as_bytes(ex, v))
    raise Unsupported("not a byte slice: %r" % (str(v)[:100],))


def nom_err(kind="Eof"):
    return err(Adt("Err", "Error", [Tup([Str([]), Adt("ErrorKind", kind)])]))


def _be(ty):
    n = WIDTH[ty] // 8

    def g(ex, args, f):
        s = slice_of(ex, args[0])
        if len(s) < n:
            return nom_err("Eof")
        bs = s.bytes()[:n]
        v = z3.Concat(*bs) if n > 1 else bs[0]
        return ok(Tup([s.sub(n), Int(v, ty)]))
    return g


for _t in ("u8", "u16", "u32", "u64", "i32", "i16", "i64"):
    I["nom::number::complete::be_" + _t] = _be(_t)
    I["be_" + _t] = _be(_t)


class NomTake:
    def __init__(self, n):
        self.n = n

    def call(self, ex, args):
        s = slice_of(ex, args[0])
        n = self.n.conc()
        if n is None:
            if not ex.decide(z3.ULE(self.n.e, len(s))):
                return nom_err("Eof")
            n = pick(ex, self.n, len(s))
        if n > len(s):
            return nom_err("Eof")
        return ok(Tup([s.sub(n), s.sub(0, n)]))


class NomTakeTill:
    def __init__(self, pred):
        self.pred = pred

    def call(self, ex, args):
        s = slice_of(ex, args[0])
        i = 0
        while i < len(s):
            r = ex.call_closure(self.pred, [Int(s.byte(i), "u8")])
            if ex.decide(r.e):
                break
            i += 1
        # complete::take_till: the whole input if the predicate never holds
        return ok(Tup([s.sub(i), s.sub(0, i)]))


@intr("nom::bytes::complete::take", "complete::take")
def _take(ex, args, f):
    return NomTake(deref_all(ex, args[0]))


@intr("nom::bytes::complete::take_till", "complete::take_till")
def _take_till(ex, args, f):
    return NomTakeTill(deref_all(ex, args[0]))


def pick(ex, iv, hi):
    """concretise a usize known to be <= hi by forking"""
    c = iv.conc()
    if c is not None:
        return c
    for k in range(hi + 1):
        if ex.decide(iv.e == k):
            return k
    raise Unsupported("could not concretise index")


# ---- ranges -------------------------------------------------------------------------------------------------
@intr("<_ as Iterator>::next")
def _next3(ex, args, f, _prev=I["<_ as Iterator>::next"]):
    r = args[0]
    it = deref_all(ex, r)
    if isinstance(it, Adt) and it.ty == "Range":
        start, end = it.fields
        lt = (start.e < end.e) if start.signed else z3.ULT(start.e, end.e)
        if not ex.decide(lt):
            return NONE
        ex._write(r.cell, list(r.proj) + [("field", 0)], Int(start.e + 1, start.ty))
        return some(start)
    return _prev(ex, args, f)


@intr("<_ as IntoIterator>::into_iter")
def _into_iter3(ex, args, f, _prev=I["<_ as IntoIterator>::into_iter"]):
    v = args[0]
    if isinstance(v, Adt) and v.ty == "Range":
        return v
    return _prev(ex, args, f)


# ---- allocation ------------------------------------------------------------------------------------------------
class LazyBuf:
    """vec![x; n] with a symbolic n: materialised when something needs its length"""

    def __init__(self, elem, n):
        self.elem = elem
        self.n = n


def check_budget(ex, n, what):
    if ex.decide(z3.UGT(n.e, ALLOC_BUDGET[0])):
        raise PathEnd("alloc", "%s of a size out of proportion to the input (budget %d)" % (what, ALLOC_BUDGET[0]))


@intr("std::vec::from_elem", "alloc::vec::from_elem")
def _from_elem(ex, args, f):
    n = deref_all(ex, args[1])
    c = n.conc()
    if c is not None:
        if c > ALLOC_BUDGET[0]:
            raise PathEnd("alloc", "allocation of %d elements" % c)
        return VecV([args[0]] * c)
    check_budget(ex, n, "allocation (vec![x; n])")
    # small requests (e.g. 0..7 padding bytes) are materialised at once by forking on the size
    if not ex.decide(z3.UGT(n.e, 16)):
        k = pick(ex, n, 16)
        return VecV([args[0]] * k)
    return LazyBuf(args[0], n)


@intr("Vec::reserve_exact", "Vec::reserve", "Vec::<T>::reserve_exact", "Vec::<T>::reserve")
def _reserve(ex, args, f):
    n = deref_all(ex, args[1])
    check_budget(ex, n, "reservation (Vec::reserve)")
    return UNIT


@intr("<_ as DerefMut>::deref_mut")
def _deref_mut(ex, args, f):
    return args[0]


# ---- readers -----------------------------------------------------------------------------------------------------
class Reader:
    """io::Read + BufRead over a fixed byte list; K = max bytes handed out per read()/fill_buf() (0 = everything)"""

    def __init__(self, data, k=0):
        self.data = list(data)
        self.pos = 0
        self.k = k
        self.filled = 0

    def remaining(self):
        return len(self.data) - self.pos


@intr("<_ as Read>::read_exact", "<impl io::BufRead as std::io::Read>::read_exact", "<impl std::io::BufRead as std::io::Read>::read_exact")
def _read_exact(ex, args, f):
    rd = deref_all(ex, args[0])
    bufref = args[1]
    buf = deref_all(ex, bufref)
    if not isinstance(rd, Reader):
        raise Unsupported("read_exact on %r" % (rd,))
    if isinstance(buf, LazyBuf):
        if not ex.decide(z3.ULE(buf.n.e, rd.remaining())):
            rd.pos = len(rd.data)
            return err(Opaque("io::Error(UnexpectedEof)"))
        n = pick(ex, buf.n, rd.remaining())
        new = VecV([Int(b, "u8") for b in rd.data[rd.pos:rd.pos + n]])
        rd.pos += n
        _store(ex, bufref, new)
        return ok()
    n = (buf.hi - buf.lo) if type(buf).__name__ == "SliceMut" else len(items_of(ex, buf))
    if n > rd.remaining():
        rd.pos = len(rd.data)
        return err(Opaque("io::Error(UnexpectedEof)"))
    vals = [Int(b, "u8") for b in rd.data[rd.pos:rd.pos + n]]
    rd.pos += n
    if type(buf).__name__ == "SliceMut":
        cur = list(items_of(ex, buf.ref))
        cur[buf.lo:buf.hi] = vals
        tgt = deref_all(ex, buf.ref)
        if isinstance(tgt, VecV):
            tgt.items[:] = cur
        else:
            _store(ex, buf.ref, Arr(cur))
    elif isinstance(buf, VecV):
        buf.items[:] = vals
    else:
        _store(ex, bufref, Arr(vals))
    return ok()


def _store(ex, ref, val):
    """write val into the place the (possibly nested) reference designates"""
    r = ref
    while isinstance(r, Ref):
        t = ex.read_ref(r)
        if isinstance(t, Ref):
            r = t
        else:
            break
    ex._write(r.cell, list(r.proj), val)


@intr("<_ as Read>::read_to_end")
def _read_to_end(ex, args, f):
    rd = deref_all(ex, args[0])
    v = deref_all(ex, args[1])
    n = rd.remaining()
    v.items += [Int(b, "u8") for b in rd.data[rd.pos:]]
    rd.pos = len(rd.data)
    return ok(usize(n))


@intr("<_ as BufRead>::fill_buf")
def _fill_buf(ex, args, f):
    rd = deref_all(ex, args[0])
    n = rd.remaining() if rd.k == 0 else min(rd.k, rd.remaining())
    rd.filled = n
    return ok(Str(rd.data[rd.pos:rd.pos + n]))


@intr("<_ as BufRead>::consume")
def _consume(ex, args, f):
    rd = deref_all(ex, args[0])
    n = pick(ex, deref_all(ex, args[1]), 64)
    # the BufRead contract: amt must be <= the length of the last fill_buf; a larger amount only skips what is buffered
    rd.pos += min(n, rd.filled)
    rd.filled = 0
    return UNIT


# ---- slices --------------------------------------------------------------------------------------------------------
@intr("<_ as Index>::index", "core::str::traits::<impl Index<I> for str>::index")
def _index3(ex, args, f):
    base = deref_all(ex, args[0])
    r = deref_all(ex, args[1])
    is_str = isinstance(base, Str)
    s = base if is_str else None
    if isinstance(r, Int) and isinstance(base, (Arr, VecV)):
        # v[i] through the Index trait (element access): a reference into the container
        from intrinsics2 import container_ref
        if not ex.decide(z3.ULT(r.e, len(base.items))):
            raise PathEnd("panic", "index out of bounds")
        k = pick(ex, r, len(base.items) - 1)
        cref, _ = container_ref(ex, args[0])
        return Ref(cref.cell, cref.proj + (("idx", k),))
    if not is_str:
        if isinstance(base, (Arr, VecV)):
            s = Str(as_bytes(ex, base))
        elif isinstance(base, LazyBuf):
            raise Unsupported("index into unmaterialised buffer")
        else:
            raise Unsupported("index on %r" % (str(base)[:80],))
    n = len(s)
    if (isinstance(r, Adt) and r.ty == "RangeFull") or (isinstance(r, Opaque) and "RangeFull" in r.tag):
        return s
    if isinstance(r, Adt) and r.ty in ("RangeTo", "RangeFrom", "Range"):
        lo = r.fields[0] if r.ty != "RangeTo" else usize(0)
        hi = r.fields[-1] if r.ty != "RangeFrom" else usize(n)
        if ex.decide(z3.Or(z3.UGT(hi.e, n), z3.UGT(lo.e, hi.e))):
            raise PathEnd("panic", "slice index out of range")
        a = pick(ex, lo, n)
        b = pick(ex, hi, n)
        if is_str:
            # str slicing panics when a cut falls inside a multi-byte character (decided for literal bytes; symbolic text is ASCII by assumption)
            bs = s.bytes()
            for cut in (a, b):
                if 0 < cut < n:
                    c = z3.simplify(bs[cut]) if z3.is_expr(bs[cut]) else bs[cut]
                    cv = c if isinstance(c, int) else (c.as_long() if z3.is_bv_value(c) else None)
                    if cv is not None and 0x80 <= cv <= 0xBF:
                        raise PathEnd("panic", "byte index %d is not a char boundary" % cut)
        return s.sub(a, b)
    raise Unsupported("index with %r" % (r,))


@intr("core::slice::<impl [T]>::get")
def _get3(ex, args, f):
    base = deref_all(ex, args[0])
    r = deref_all(ex, args[1])
    if isinstance(r, Adt) and r.ty in ("RangeTo", "RangeFrom", "Range"):
        s = Str(as_bytes(ex, base)) if not isinstance(base, Str) else base
        n = len(s)
        lo = r.fields[0] if r.ty != "RangeTo" else usize(0)
        hi = r.fields[-1] if r.ty != "RangeFrom" else usize(n)
        if ex.decide(z3.Or(z3.UGT(hi.e, n), z3.UGT(lo.e, hi.e))):
            return NONE
        return some(s.sub(pick(ex, lo, n), pick(ex, hi, n)))
    items = items_of(ex, base)
    iv = r
    if isinstance(iv, Int):
        if not ex.decide(z3.ULT(iv.e, len(items))):
            return NONE
        k = pick(ex, iv, len(items) - 1)
        return some(Ref(Cell(items[k])))
    raise Unsupported("slice::get with %r" % (r,))


@intr("core::slice::<impl [T]>::copy_from_slice", "core::slice::<impl [T]>::clone_from_slice")
def _copy_from_slice(ex, args, f):
    dst = args[0]
    src = items_of(ex, args[1])
    cur = items_of(ex, dst)
    if len(cur) != len(src):
        raise PathEnd("panic", "copy_from_slice: length mismatch")
    _store(ex, dst, Arr(list(src)))
    return UNIT


@intr("<_ as TryInto>::try_into")
def _try_into3(ex, args, f, _prev=I["<_ as TryInto>::try_into"]):
    m = re.search(r"TryInto<\[u8; (\d+)\]>", f)
    if m:
        bs = items_of(ex, args[0])
        if len(bs) != int(m.group(1)):
            return err(Opaque("TryFromSliceError"))
        return ok(Arr(list(bs)))
    return _prev(ex, args, f)


# ---- strings built from bytes ----------------------------------------------------------------------------------------
@intr("String::from_utf8_lossy")
def _from_utf8_lossy(ex, args, f):
    s = slice_of(ex, args[0])
    for b in s.bytes():
        if ex.decide(z3.UGE(b, 0x80)):
            raise PathEnd("skip", "non-ASCII byte in string data (outside the bound A2)")
    return Adt("Cow", "Borrowed", [s])


@intr("String::push_str")
def _push_str(ex, args, f):
    r = args[0]
    cur = deref_all(ex, r)
    add = as_str(ex, args[1])
    _store(ex, r, Str(cur.bytes() + add.bytes(), owned=True))
    return UNIT


@intr("String::new")
def _string_new(ex, args, f):
    return Str([], owned=True)


@intr("String::from_utf8")
def _from_utf8(ex, args, f):
    v = deref_all(ex, args[0])
    bs = as_bytes(ex, v)
    conc = [z3.simplify(b) if z3.is_expr(b) else b for b in bs]
    if all(isinstance(b, int) or z3.is_bv_value(b) for b in conc):
        # concrete bytes: the real UTF-8 validity decision
        raw = bytes(b if isinstance(b, int) else b.as_long() for b in conc)
        try:
            raw.decode("utf-8")
        except UnicodeDecodeError:
            return err(Opaque("FromUtf8Error"))
        return ok(Str(bs, owned=True))
    for b in bs:
        if ex.decide(z3.UGE(b, 0x80)):
            raise Unsupported("symbolic non-ASCII byte in String::from_utf8 (outside the bound)")
    return ok(Str(bs, owned=True))


I["<_ as From>::from"] = lambda ex, args, f: (lambda v: VecV([Int(b, "u8") for b in v.bytes()]) if (isinstance(v, Str) and "Vec<u8>" in f) else args[0])(deref_all(ex, args[0]))


class TakeReader:
    def __init__(self, rd, limit):
        self.rd = rd
        self.limit = limit


@intr("<_ as Read>::by_ref", "<impl io::BufRead as std::io::Read>::by_ref", "<impl std::io::BufRead as std::io::Read>::by_ref")
def _by_ref(ex, args, f):
    return args[0]


@intr("<_ as Read>::take")
def _take_rd(ex, args, f):
    return TakeReader(deref_all(ex, args[0]), deref_all(ex, args[1]))


@intr("<_ as Read>::read_to_end")
def _read_to_end3(ex, args, f, _prev=I["<_ as Read>::read_to_end"]):
    rd = deref_all(ex, args[0])
    if isinstance(rd, TakeReader):
        inner = rd.rd
        v = deref_all(ex, args[1])
        rem = inner.remaining()
        if ex.decide(z3.UGE(rd.limit.e, rem)):
            n = rem
        else:
            n = pick(ex, rd.limit, rem)
        v.items += [Int(b, "u8") for b in inner.data[inner.pos:inner.pos + n]]
        inner.pos += n
        return ok(usize(n))
    return _prev(ex, args, f)


@intr("std::io::Error::from", "<std::io::Error as From<std::io::ErrorKind>>::from", "<_ as From>::from")
def _from3(ex, args, f, _prev=I["<_ as From>::from"]):
    if "io::Error" in f and "ErrorKind" in f:
        return Opaque("io::Error", args[0])
    m = re.match(r"^<([iu](?:8|16|32|64|128|size)) as (?:std::convert::)?From<([iu](?:8|16|32|64|size)|bool|char)>>::from", f.strip())
    v = deref_all(ex, args[0]) if args else None
    if m and isinstance(v, (Int, Bool)):
        return ex.cast(v, m.group(1), "IntToInt")
    return _prev(ex, args, f)


@intr("<_ as Ord>::min", "std::cmp::min", "core::cmp::min")
def _min(ex, args, f):
    a, b = deref_all(ex, args[0]), deref_all(ex, args[1])
    lt = (a.e < b.e) if a.signed else z3.ULT(a.e, b.e)
    return Int(z3.If(lt, a.e, b.e), a.ty)


@intr("<_ as Ord>::max", "std::cmp::max", "core::cmp::max")
def _max(ex, args, f):
    a, b = deref_all(ex, args[0]), deref_all(ex, args[1])
    lt = (a.e < b.e) if a.signed else z3.ULT(a.e, b.e)
    return Int(z3.If(lt, b.e, a.e), a.ty)


# ---- log crate: the environment decides the level; the record itself is discarded ----------------------------------------
LEVELS = ["Off", "Error", "Warn", "Info", "Debug", "Trace"]


@intr("max_level", "log::max_level")
def _max_level(ex, args, f):
    lv = z3.BitVec("env_log_level", 8)
    ex.solver.add(z3.ULE(lv, 5))
    for k in range(6):
        if ex.decide(lv == k):
            return Adt("LevelFilter", LEVELS[k])
    raise Unsupported("log level")


def _lvl(ex, v):
    v = deref_all(ex, v)
    if isinstance(v, Adt) and v.variant in LEVELS:
        return LEVELS.index(v.variant)
    if isinstance(v, Opaque) and "STATIC_MAX_LEVEL" in v.tag:
        return 5
    raise Unsupported("log level value %r" % (v,))


@intr("<_ as PartialOrd>::le")
def _ple(ex, args, f):
    if "Level" in f:
        return Bool(_lvl(ex, args[0]) <= _lvl(ex, args[1]))
    raise Unsupported("PartialOrd::le on " + f)


@intr("log::__private_api::log", "log::__private_api::loc", "log::__private_api::enabled")
def _log_noop(ex, args, f):
    return UNIT


@intr("core::fmt::rt::Argument::new_debug", "core::fmt::rt::Argument::new_upper_hex",
      "core::fmt::rt::Argument::<'_>::new_debug")
def _new_debug(ex, args, f):
    return Opaque("fmtarg-debug", args[0])


@intr("Option::unwrap_or")
def _unwrap_or3(ex, args, f):
    return args[0].fields[0] if args[0].variant == "Some" else args[1]


# ---- str::parse::<integer> ---------------------------------------------------------------------------------------------------
@intr("core::str::<impl str>::parse")
def _parse_int(ex, args, f):
    m = re.search(r"parse::<([iu](?:8|16|32|64|128|size))>", f)
    if not m:
        raise Unsupported("str::parse for " + f)
    ty = m.group(1)
    w = WIDTH[ty]
    s = as_str(ex, args[0])
    bs = s.bytes()
    if not bs:
        return err(Opaque("ParseIntError(Empty)"))
    i = 0
    neg = False
    if ex.decide(bs[0] == ord("+")):
        i = 1
    elif ty.startswith("i") and ex.decide(bs[0] == ord("-")):
        i = 1
        neg = True
    if i == len(bs):
        return err(Opaque("ParseIntError(InvalidDigit)"))
    acc = z3.BitVecVal(0, w + 8)
    lim = (1 << w) - 1 if not ty.startswith("i") else ((1 << (w - 1)) if neg else (1 << (w - 1)) - 1)
    for b in bs[i:]:
        if not ex.decide(z3.And(z3.UGE(b, 0x30), z3.ULE(b, 0x39))):
            return err(Opaque("ParseIntError(InvalidDigit)"))
        acc = acc * 10 + z3.ZeroExt(w, b - 0x30)
        if ex.decide(z3.UGT(acc, lim)):
            return err(Opaque("ParseIntError(Overflow)"))
    v = z3.Extract(w - 1, 0, acc)
    return ok(Int(-v if neg else v, ty))


@intr("Result::unwrap_or", "Option::unwrap_or")
def _unwrap_or4(ex, args, f):
    return args[0].fields[0] if args[0].variant in ("Some", "Ok") else args[1]


# ---- building side: sort_by, iterator adaptors, vec![x] via Box, Vec::append --------------------------------------------------
@intr("std::slice::<impl [T]>::sort_by", "core::slice::<impl [T]>::sort_by", "std::slice::<impl [T]>::sort_by_key")
def _sort_by(ex, args, f):
    v = deref_all(ex, args[0])
    clo = deref_all(ex, args[1])
    items = v.items
    by_key = "sort_by_key" in f or "sort_by_cached_key" in f
    # stable insertion sort driven by the real comparator closure (sort_by) or by the key closure and the keys' order (sort_by_key)
    for i in range(1, len(items)):
        j = i
        while j > 0:
            if by_key:
                ka = ex.call_closure(clo, [Ref(Cell(items[j - 1]))])
                kb = ex.call_closure(clo, [Ref(Cell(items[j]))])
                lt, eq = _ord_terms(ex, kb, ka)          # swap only when the later key is strictly smaller
                if not ex.decide(lt):
                    break
                items[j - 1], items[j] = items[j], items[j - 1]
                j -= 1
                continue
            o = ex.call_closure(clo, [Ref(Cell(items[j - 1])), Ref(Cell(items[j]))])
            if o.variant != "Greater":
                break
            items[j - 1], items[j] = items[j], items[j - 1]
            j -= 1
    return UNIT


class MapIter:
    def __init__(self, inner, clo, flat=False):
        self.inner = inner
        self.clo = clo
        self.flat = flat
        self.buf = []


@intr("<_ as Iterator>::map")
def _map(ex, args, f):
    return MapIter(deref_all(ex, args[0]), deref_all(ex, args[1]))


@intr("<_ as Iterator>::flat_map")
def _flat_map(ex, args, f):
    return MapIter(deref_all(ex, args[0]), deref_all(ex, args[1]), flat=True)


@intr("<_ as Iterator>::next")
def _next4(ex, args, f, _prev=I["<_ as Iterator>::next"]):
    it = deref_all(ex, args[0])
    if isinstance(it, MapIter):
        while True:
            if it.flat and it.buf:
                return some(it.buf.pop(0))
            nx = I["<_ as Iterator>::next"](ex, [Ref(Cell(it.inner))], f)
            if nx.variant == "None":
                return NONE
            r = ex.call_closure(it.clo, [nx.fields[0]])
            if not it.flat:
                return some(r)
            it.buf = list(items_of(ex, r))
    return _prev(ex, args, f)


@intr("<_ as IntoIterator>::into_iter")
def _into_iter4(ex, args, f, _prev=I["<_ as IntoIterator>::into_iter"]):
    v = deref_all(ex, args[0])
    if isinstance(v, MapIter):
        return v
    return _prev(ex, args, f)


@intr("Vec::append", "Vec::<T>::append")
def _vec_append(ex, args, f):
    a, b = deref_all(ex, args[0]), deref_all(ex, args[1])
    a.items += b.items
    b.items = []
    return UNIT


@intr("Box::new_uninit")
def _box_new_uninit(ex, args, f):
    cell = Cell(Adt("MaybeUninit", "MaybeUninit", [UNIT, Adt("ManuallyDrop", "ManuallyDrop", [Adt("MaybeDangling", "MaybeDangling", [None])])]))
    return Adt("Box", "Box", [Adt("Unique", "Unique", [Ref(cell)])])


@intr("std::boxed::box_assume_init_into_vec_unsafe", "alloc::boxed::box_assume_init_into_vec_unsafe")
def _box_into_vec(ex, args, f):
    b = deref_all(ex, args[0])
    inner = ex.read_ref(b.fields[0].fields[0])
    arr = inner.fields[1].fields[0].fields[0]
    return VecV(list(arr.items))


@intr("Box::new")
def _box_new(ex, args, f):
    return Ref(Cell(args[0]))


class SliceMut:
    def __init__(self, ref, lo, hi):
        self.ref = ref
        self.lo = lo
        self.hi = hi


@intr("<_ as IndexMut>::index_mut")
def _index_mut(ex, args, f):
    base = deref_all(ex, args[0])
    r = deref_all(ex, args[1])
    n = len(items_of(ex, base))
    lo = r.fields[0] if r.ty != "RangeTo" else usize(0)
    hi = r.fields[-1] if r.ty != "RangeFrom" else usize(n)
    if ex.decide(z3.Or(z3.UGT(hi.e, n), z3.UGT(lo.e, hi.e))):
        raise PathEnd("panic", "slice index out of range")
    if isinstance(base, SliceMut):                  # a sub-slice of a sub-slice
        return SliceMut(base.ref, base.lo + pick(ex, lo, n), base.lo + pick(ex, hi, n))
    return SliceMut(args[0], pick(ex, lo, n), pick(ex, hi, n))


@intr("core::slice::<impl [T]>::clone_from_slice", "core::slice::<impl [T]>::copy_from_slice")
def _clone_from_slice(ex, args, f, _prev=I["core::slice::<impl [T]>::copy_from_slice"]):
    dst = deref_all(ex, args[0])
    if isinstance(dst, SliceMut):
        src = items_of(ex, args[1])
        if len(src) != dst.hi - dst.lo:
            raise PathEnd("panic", "clone_from_slice: length mismatch")
        cur = list(items_of(ex, dst.ref))
        cur[dst.lo:dst.hi] = src
        _store(ex, dst.ref, Arr(cur))
        return UNIT
    return _prev(ex, args, f)


# ---- text <-> numbers used by the cpio reader -----------------------------------------------------------------------------------
@intr("std::str::from_utf8", "core::str::from_utf8", "from_utf8")
def _str_from_utf8(ex, args, f):
    s = slice_of(ex, args[0])
    bs = s.bytes()
    if bs and ex.decide(z3.Or([z3.UGE(b, 0x80) for b in bs])):
        # not ASCII: either invalid UTF-8 or a multi-byte text; both are outside the ASCII bound -> modelled as the error case
        return err(Opaque("Utf8Error"))
    return ok(s)


def _hexval(b):
    return z3.If(z3.ULE(b, 0x39), b - 0x30, z3.If(z3.ULE(b, 0x46), b - 0x37, b - 0x57))


def _is_hex(b):
    return z3.Or(z3.And(z3.UGE(b, 0x30), z3.ULE(b, 0x39)), z3.And(z3.UGE(b, 0x41), z3.ULE(b, 0x46)), z3.And(z3.UGE(b, 0x61), z3.ULE(b, 0x66)))


@intr("core::num::<impl u32>::from_str_radix", "core::num::<impl u64>::from_str_radix", "core::num::<impl usize>::from_str_radix")
def _from_str_radix(ex, args, f):
    s = as_str(ex, args[0])
    radix = deref_all(ex, args[1]).conc()
    ty = re.search(r"<impl (u\d+|usize)>", f).group(1)
    w = WIDTH[ty]
    if radix != 16:
        raise Unsupported("from_str_radix with radix %r" % radix)
    bs = s.bytes()
    if not bs:
        return err(Opaque("ParseIntError"))
    if len(bs) * 4 > w + 4:
        raise Unsupported("from_str_radix on more digits than the type holds")

    def value(ds):
        val = z3.BitVecVal(0, w)
        for b in ds:
            val = (val << 4) | z3.ZeroExt(w - 8, _hexval(b))
        return val
    plain = z3.And([_is_hex(b) for b in bs]) if len(bs) * 4 <= w else z3.BoolVal(False)
    plus = z3.And([bs[0] == ord("+")] + [_is_hex(b) for b in bs[1:]]) if len(bs) > 1 else z3.BoolVal(False)
    # one decision for validity; the sign form is folded into the value term (no fork per field)
    if not ex.decide(z3.Or(plain, plus)):
        return err(Opaque("ParseIntError"))
    return ok(Int(z3.If(plain, value(bs[-(w // 4):]) if len(bs) * 4 > w else value(bs), value(bs[1:])), ty))


@intr("std::io::Error::new")
def _io_error_new(ex, args, f):
    return Opaque("io::Error", args[0])


@intr("core::slice::<impl [T]>::last")
def _last(ex, args, f):
    v = deref_all(ex, args[0])
    if isinstance(v, LazyBuf):
        raise Unsupported("last() on an unmaterialised buffer")
    it = items_of(ex, v)
    if not it:
        return NONE
    return some(Ref(Cell(it[-1])))


@intr("Vec::pop", "Vec::<T>::pop")
def _vec_pop(ex, args, f):
    v = deref_all(ex, args[0])
    if not v.items:
        return NONE
    return some(v.items.pop())


@intr("<_ as PartialEq>::eq")
def _eq5(ex, args, f, _prev=I["<_ as PartialEq>::eq"]):
    # Option<&T> == Option<&T>
    a, b = deref_all(ex, args[0]), deref_all(ex, args[1])
    if isinstance(a, Adt) and a.ty == "Option" and isinstance(b, Adt) and b.ty == "Option":
        if a.variant != b.variant:
            return Bool(False)
        if a.variant == "None":
            return Bool(True)
        return _prev(ex, [a.fields[0], b.fields[0]], f)
    return _prev(ex, args, f)


@intr("<_ as PartialEq>::ne")
def _ne5(ex, args, f):
    return Bool(z3.Not(_eq5(ex, args, f).e))


@intr("Vec::len", "Vec::<T>::len", "core::slice::<impl [T]>::len")
def _len_lazy(ex, args, f, _prev=I["Vec::len"]):
    v = deref_all(ex, args[0])
    if isinstance(v, LazyBuf):
        return Int(v.n.e, "usize")
    return _prev(ex, args, f)



# ---- scripted sinks (write side) and BufWriter -------------------------------------------------------------------------------------
class ScriptSink:
    """io::Write target: accepts K bytes per write call (0 = all), fails for good at call number fail_at (symbolic), one Interrupted at intr_at"""

    def __init__(self, k, fail_at, intr_at, zero_at=None):
        self.k = k
        self.fail_at = fail_at
        self.intr_at = intr_at
        self.zero_at = zero_at          # from this call on the sink is full: write() answers Ok(0) (a fixed-size buffer, a full device)
        self.full = False
        self.data = []
        self.calls = 0
        self.failed = False

    def write(self, ex, data):
        if not data:
            return ok(usize(0))
        self.calls += 1
        if self.zero_at is not None and (self.full or ex.decide(self.zero_at == self.calls)):
            self.full = True
            return ok(usize(0))
        if self.failed or ex.decide(self.fail_at == self.calls):
            self.failed = True
            return err(Opaque("io::Error(Other)"))
        if ex.decide(self.intr_at == self.calls):
            return err(Opaque("io::Error(Interrupted)"))
        n = len(data) if self.k == 0 else min(self.k, len(data))
        self.data += data[:n]
        return ok(usize(n))

    def write_all(self, ex, data):
        # std's default write_all over write()
        off = 0
        while off < len(data):
            r = self.write(ex, data[off:])
            if r.variant == "Err":
                if "Interrupted" in r.fields[0].tag:
                    continue
                return r
            if r.fields[0].conc() == 0:
                return err(Opaque("io::Error(WriteZero)"))       # std: "failed to write whole buffer"
            off += r.fields[0].conc()
        return ok()


class BufWriterV:
    """std::io::BufWriter with the default 8 KiB capacity: buffers small writes, flushes when full and ON DROP (errors ignored there)"""

    def __init__(self, inner):
        self.inner = inner
        self.buf = []
        self.cap = 8192
        self.panicked = False

    def flush_buf(self, ex):
        if self.buf:
            w = deref_all(ex, self.inner)
            r = I["<_ as Write>::write_all"](ex, [self.inner, Str(list(self.buf))], "")
            if r.variant == "Err":
                return r
            self.buf = []
        return ok()

    def write_all(self, ex, data):
        if len(self.buf) + len(data) > self.cap:
            r = self.flush_buf(ex)
            if r.variant == "Err":
                return r
        if len(data) >= self.cap:
            return I["<_ as Write>::write_all"](ex, [self.inner, Str(list(data))], "")
        self.buf += data
        return ok()

    def write(self, ex, data):
        r = self.write_all(ex, data)
        return ok(usize(len(data))) if r.variant == "Ok" else r

    def on_drop(self, ex):
        self.flush_buf(ex)     # result deliberately ignored, as in std


@intr("BufWriter::new", "std::io::BufWriter::new", "io::BufWriter::new")
def _bufwriter_new(ex, args, f):
    return BufWriterV(args[0])


@intr("<_ as Write>::flush")
def _flush(ex, args, f):
    w = deref_all(ex, args[0])
    if isinstance(w, BufWriterV):
        return w.flush_buf(ex)
    return ok()


# ---- zip / try_fold / paths -----------------------------------------------------------------------------------------------------------
class ZipIter:
    def __init__(self, a, b):
        self.a = a
        self.b = b


@intr("<_ as Iterator>::zip")
def _zip(ex, args, f):
    a = deref_all(ex, args[0])
    b = deref_all(ex, args[1])
    if isinstance(b, (VecV, Arr, Str)):       # zip takes IntoIterator: &[u8] / &Vec<T> / arrays
        b = I["<_ as IntoIterator>::into_iter"](ex, [args[1]], f)
    if isinstance(a, (VecV, Arr, Str)):
        a = I["<_ as IntoIterator>::into_iter"](ex, [args[0]], f)
    return ZipIter(a, b)


def _iter_next(ex, it, f):
    return I["<_ as Iterator>::next"](ex, [Ref(Cell(it))], f)


@intr("<_ as Iterator>::next")
def _next6(ex, args, f, _prev=I["<_ as Iterator>::next"]):
    it = deref_all(ex, args[0])
    if isinstance(it, ZipIter):
        x = _iter_next(ex, it.a, f)
        if x.variant == "None":
            return NONE
        y = _iter_next(ex, it.b, f)
        if y.variant == "None":
            return NONE
        yv = y.fields[0]
        if "IntoIter" in f or True:
            pass
        return some(Tup([x.fields[0], yv]))
    return _prev(ex, args, f)


@intr("<_ as Iterator>::try_fold")
def _try_fold(ex, args, f):
    it = deref_all(ex, args[0])
    acc = args[1]
    clo = deref_all(ex, args[2])
    owned_b = "vec::IntoIter" in f
    while True:
        nx = _iter_next(ex, it, f)
        if nx.variant == "None":
            return ok(acc)
        item = nx.fields[0]
        if owned_b and isinstance(item, Tup):
            # the second component comes from an owning iterator: by value
            item = Tup([item.items[0], deref_all(ex, item.items[1])])
        r = ex.call_closure(clo, [acc, item])
        if r.variant in ("Err", "None"):
            return r
        acc = r.fields[0]


class PathV:
    def __init__(self, bs):
        self.bs = list(bs)

    def __repr__(self):
        return "Path(%d)" % len(self.bs)


@intr("Path::new", "std::path::Path::new")
def _path_new(ex, args, f):
    return PathV(as_str(ex, args[0]).bytes())


@intr("Path::join", "std::path::Path::join")
def _path_join(ex, args, f):
    base = deref_all(ex, args[0])
    other = deref_all(ex, args[1])
    ob = other.bs if isinstance(other, PathV) else as_str(ex, other).bytes()
    if ob and ex.decide(ob[0] == ord("/")):
        return PathV(ob)             # an absolute right-hand side replaces the base
    bb = base.bs
    if bb and not ex.decide(bb[-1] == ord("/")):
        return PathV(bb + [z3.BitVecVal(ord("/"), 8)] + ob)
    return PathV(bb + ob)


@intr("Vec::clear", "Vec::<T>::clear", "String::clear")
def _vec_clear(ex, args, f):
    v = deref_all(ex, args[0])
    if isinstance(v, VecV):
        v.items = []
    else:
        _store(ex, args[0], Str([], owned=True))
    return UNIT


@intr("Vec::truncate", "Vec::<T>::truncate")
def _vec_truncate(ex, args, f):
    v = deref_all(ex, args[0])
    n = pick(ex, deref_all(ex, args[1]), max(len(v.items), 1) + 64)
    v.items = v.items[:n]
    return UNIT


# ---- std::path on Unix (ASCII): components, parent, file_name, strip_prefix -----------------------------------------------------
def path_components(ex, bs):
    """std::path::Components for a Unix path: list of (kind, start, end); kinds Root, Cur, Parent, Normal.
    '.' components are skipped except a leading one of a relative path; empty components are skipped."""
    n = len(bs)
    comps = []
    i = 0
    rooted = n > 0 and ex.decide(bs[0] == ord("/"))
    if rooted:
        comps.append(("Root", 0, 1))
    first = True
    while i < n:
        if ex.decide(bs[i] == ord("/")):
            i += 1
            continue
        j = i
        while j < n and not ex.decide(bs[j] == ord("/")):
            j += 1
        ln = j - i
        if ln == 1 and ex.decide(bs[i] == ord(".")):
            if first and not rooted:
                comps.append(("Cur", i, j))
        elif ln == 2 and ex.decide(z3.And(bs[i] == ord("."), bs[i + 1] == ord("."))):
            comps.append(("Parent", i, j))
        else:
            comps.append(("Normal", i, j))
        first = False
        i = j
    return comps


def _path_bytes(ex, v):
    v = deref_all(ex, v)
    if isinstance(v, PathV):
        return v.bs
    return as_str(ex, v).bytes()


@intr("<_ as From>::from")
def _from_path(ex, args, f, _prev=I["<_ as From>::from"]):
    if f.strip().startswith("<PathBuf as") or "as From<String>>" in f and "PathBuf" in f:
        return PathV(as_str(ex, args[0]).bytes())
    return _prev(ex, args, f)


@intr("<_ as Deref>::deref")
def _deref_path(ex, args, f, _prev=I["<_ as Deref>::deref"]):
    v = deref_all(ex, args[0])
    if isinstance(v, PathV):
        return v
    return _prev(ex, args, f)


@intr("Path::parent", "std::path::Path::parent")
def _path_parent(ex, args, f):
    bs = _path_bytes(ex, args[0])
    comps = path_components(ex, bs)
    if not comps or comps[-1][0] == "Root":
        return NONE
    end = comps[-2][2] if len(comps) >= 2 else 0
    return some(PathV(bs[:end]))


@intr("Path::file_name", "std::path::Path::file_name")
def _path_file_name(ex, args, f):
    bs = _path_bytes(ex, args[0])
    comps = path_components(ex, bs)
    if not comps or comps[-1][0] != "Normal":
        return NONE
    return some(PathV(bs[comps[-1][1]:comps[-1][2]]))


@intr("Path::strip_prefix", "std::path::Path::strip_prefix")
def _path_strip_prefix(ex, args, f):
    bs = _path_bytes(ex, args[0])
    pb = _path_bytes(ex, args[1])
    a = path_components(ex, bs)
    b = path_components(ex, pb)
    if len(b) > len(a):
        return err(Opaque("StripPrefixError"))
    for (ka, sa, ea), (kb, sb, eb) in zip(a, b):
        if ka != kb:
            return err(Opaque("StripPrefixError"))
        if ka == "Normal":
            if ea - sa != eb - sb or not ex.decide(z3.And([x == y for x, y in zip(bs[sa:ea], pb[sb:eb])])):
                return err(Opaque("StripPrefixError"))
    rest = a[len(b):]
    if not rest:
        return ok(PathV([]))
    return ok(PathV(bs[rest[0][1]:a[-1][2]]))


@intr("Path::to_string_lossy", "OsStr::to_string_lossy", "std::path::Path::to_string_lossy")
def _path_to_string_lossy(ex, args, f):
    return Adt("Cow", "Borrowed", [Str(_path_bytes(ex, args[0]))])


@intr("Path::to_str", "OsStr::to_str")
def _path_to_str(ex, args, f):
    return some(Str(_path_bytes(ex, args[0])))


# ---- BTreeMap / BTreeSet (ordered collections keyed by strings; order is not modelled, membership is) --------------------------------
class MapV:
    def __init__(self):
        self.keys = []
        self.vals = []


@intr("BTreeMap::new", "BTreeSet::new", "std::collections::BTreeMap::new", "std::collections::BTreeSet::new")
def _btree_new(ex, args, f):
    return MapV()


def _find_key(ex, m, key):
    from intrinsics2 import _eq_any
    for i, k in enumerate(m.keys):
        if ex.decide(_eq_any(ex, k, key)):
            return i
    return None


@intr("BTreeSet::insert", "BTreeSet::<T>::insert")
def _btreeset_insert(ex, args, f):
    m = deref_all(ex, args[0])
    if _find_key(ex, m, args[1]) is not None:
        return Bool(False)
    m.keys.append(args[1])
    m.vals.append(UNIT)
    return Bool(True)


class EntryV:
    def __init__(self, m, key):
        self.m = m
        self.key = key


@intr("BTreeMap::entry", "BTreeMap::<K, V>::entry", "HashMap::entry")
def _btreemap_entry(ex, args, f):
    m = deref_all(ex, args[0])
    ent = EntryV(m, args[1])
    # the enum the caller may match on: Entry::Vacant(VacantEntry) / Entry::Occupied(OccupiedEntry)
    return Adt("Entry", "Vacant" if _find_key(ex, m, args[1]) is None else "Occupied", [ent])


class SlotCell:
    """a cell that IS the i-th value of a map model: writes through a reference obtained from the map reach the map"""
    __slots__ = ("m", "i")

    def __init__(self, m, i):
        self.m = m
        self.i = i

    @property
    def v(self):
        return self.m.vals[self.i]

    @v.setter
    def v(self, val):
        self.m.vals[self.i] = val


def _entry_of(ex, v):
    v = deref_all(ex, v)
    return v.fields[0] if isinstance(v, Adt) and v.ty == "Entry" else v


@intr("VacantEntry::insert", "std::collections::btree_map::VacantEntry::insert", "VacantEntry::<'a, K, V>::insert")
def _vacant_insert(ex, args, f):
    e = _entry_of(ex, args[0])
    e.m.keys.append(e.key)
    e.m.vals.append(args[1])
    return Ref(SlotCell(e.m, len(e.m.vals) - 1))


@intr("OccupiedEntry::get_mut", "OccupiedEntry::get", "OccupiedEntry::into_mut", "std::collections::btree_map::OccupiedEntry::get_mut",
      "std::collections::btree_map::OccupiedEntry::get", "std::collections::btree_map::OccupiedEntry::into_mut")
def _occupied_get(ex, args, f):
    e = _entry_of(ex, args[0])
    return Ref(SlotCell(e.m, _find_key(ex, e.m, e.key)))


@intr("OccupiedEntry::insert", "std::collections::btree_map::OccupiedEntry::insert")
def _occupied_insert(ex, args, f):
    e = _entry_of(ex, args[0])
    i = _find_key(ex, e.m, e.key)
    old = e.m.vals[i]
    e.m.vals[i] = args[1]
    return old


@intr("std::collections::btree_map::Entry::or_insert", "Entry::or_insert")
def _entry_or_insert(ex, args, f):
    e = _entry_of(ex, args[0])
    i = _find_key(ex, e.m, e.key)
    if i is None:
        e.m.keys.append(e.key)
        e.m.vals.append(args[1])
        i = len(e.m.keys) - 1
    return Ref(SlotCell(e.m, i))


@intr("BTreeMap::insert", "BTreeMap::<K, V>::insert")
def _btreemap_insert(ex, args, f):
    m = deref_all(ex, args[0])
    i = _find_key(ex, m, args[1])
    if i is None:
        m.keys.append(args[1])
        m.vals.append(args[2])
        return NONE
    old = m.vals[i]
    m.vals[i] = args[2]
    return some(old)


# ---- itertools::multizip, FromIterator, bitflags ---------------------------------------------------------------------------------------
class MultiZip:
    def __init__(self, iters, owned):
        self.iters = iters
        self.owned = owned


@intr("multizip", "itertools::multizip")
def _multizip(ex, args, f):
    tup = deref_all(ex, args[0])
    iters, owned = [], []
    for it in tup.items:
        v = deref_all(ex, it)
        owned.append(isinstance(it, VecV))      # a Vec moved into the zip yields items by value
        iters.append(I["<_ as IntoIterator>::into_iter"](ex, [it], f))
    return MultiZip(iters, owned)


@intr("<_ as Iterator>::next")
def _next7(ex, args, f, _prev=I["<_ as Iterator>::next"]):
    it = deref_all(ex, args[0])
    if isinstance(it, MultiZip):
        out = []
        for sub, own in zip(it.iters, it.owned):
            x = _iter_next(ex, sub, f)
            if x.variant == "None":
                return NONE
            out.append(deref_all(ex, x.fields[0]) if own else x.fields[0])
        return some(Tup(out))
    return _prev(ex, args, f)


@intr("<_ as FromIterator>::from_iter", "<_ as Iterator>::collect")
def _from_iter(ex, args, f):
    it = deref_all(ex, args[0])
    out = []
    while True:
        x = _iter_next(ex, it, f)
        if x.variant == "None":
            break
        out.append(x.fields[0])
        if len(out) > 4096:
            raise Unsupported("collect: too many items")
    if re.search(r"::collect::<(?:std::result::)?Result<", f) or re.search(r"^<(?:std::result::)?Result<.* as (?:std::iter::)?FromIterator", f.strip()):
        # collecting Results: the first Err, else Ok(the values)
        vals = []
        for r in out:
            r = deref_all(ex, r)
            if r.variant == "Err":
                return r
            vals.append(r.fields[0])
        return ok(VecV(vals))
    return VecV(out)


class EnumIter:
    def __init__(self, inner):
        self.inner = inner
        self.i = 0


@intr("<_ as Iterator>::enumerate")
def _enumerate(ex, args, f):
    return EnumIter(deref_all(ex, args[0]))


@intr("<_ as Iterator>::next")
def _next8(ex, args, f, _prev=I["<_ as Iterator>::next"]):
    it = deref_all(ex, args[0])
    if isinstance(it, EnumIter):
        x = _iter_next(ex, it.inner, f)
        if x.variant == "None":
            return NONE
        it.i += 1
        return some(Tup([usize(it.i - 1), x.fields[0]]))
    return _prev(ex, args, f)


@intr("Vec::into_iter", "<Vec<T> as IntoIterator>::into_iter")
def _vec_into_iter(ex, args, f):
    return I["<_ as IntoIterator>::into_iter"](ex, args, f)


def _bits_retain(ex, args, f):
    m = re.search(r"<impl (?:constants::)?(\w+)>::from_bits_retain", f)
    return Adt(m.group(1) if m else "Flags", "bits", [deref_all(ex, args[0])])


_FLAG_MASKS = {}
_FLAG_VALUES = {}
_FLAG_WIDTH = {}


def flags_mask(name):
    """union of the named constants of a bitflags! type, evaluated from the repository's source"""
    if not _FLAG_MASKS:
        import glob
        from symex import REPO_ROOT
        for p in glob.glob(os.path.join(REPO_ROOT[0], "src", "**", "*.rs"), recursive=True):
            txt = open(p, errors="replace").read()
            for m in re.finditer(r"pub struct (\w+): u(?:8|16|32|64) \{(.*?)\n    \}", txt, re.S):
                vals = {}
                for c in re.finditer(r"const (\w+)\s*=\s*([^;]+);", m.group(2)):
                    e = re.sub(r"Self::(\w+)\.bits\(\)", lambda mm: str(vals[mm.group(1)]), c.group(2))
                    e = re.sub(r"_?u(?:8|16|32|64)\b", "", e)
                    if not re.fullmatch(r"[\s0-9xXa-fA-F_|<()&+]*", e):
                        raise Unsupported("bitflags constant %s::%s = %s" % (m.group(1), c.group(1), c.group(2)))
                    vals[c.group(1)] = eval(e.replace("_", ""))
                mask = 0
                for v in vals.values():
                    mask |= v
                _FLAG_MASKS[m.group(1)] = mask
                _FLAG_VALUES[m.group(1)] = vals
                _FLAG_WIDTH[m.group(1)] = re.search(r"pub struct %s: (u\d+)" % m.group(1), txt).group(1)
    if name not in _FLAG_MASKS:
        raise Unsupported("no bitflags! definition found for %s" % name)
    return _FLAG_MASKS[name]


def _bits_truncate(ex, args, f):
    m = re.search(r"<impl (?:constants::)?(\w+)>::from_bits_truncate", f)
    x = deref_all(ex, args[0])
    return Adt(m.group(1), "bits", [Int(x.e & flags_mask(m.group(1)), x.ty)])


def _bits_checked(ex, args, f):
    m = re.search(r"<impl (?:constants::)?(\w+)>::from_bits\b", f)
    x = deref_all(ex, args[0])
    if ex.decide((x.e & ~z3.BitVecVal(flags_mask(m.group(1)), x.e.size())) != 0):
        return NONE
    return some(Adt(m.group(1), "bits", [x]))


for _fl in ("DependencyFlags", "FileFlags", "ScriptletFlags", "FileVerifyFlags"):
    for _pre in ("constants::_::<impl constants::%s>::", "constants::_::<impl %s>::"):
        I[(_pre % _fl) + "from_bits_retain"] = _bits_retain
        I[(_pre % _fl) + "from_bits_truncate"] = _bits_truncate
        I[(_pre % _fl) + "from_bits"] = _bits_checked


@intr("core::slice::<impl [T]>::binary_search_by_key", "core::slice::<impl [T]>::binary_search_by", "core::slice::<impl [T]>::binary_search")
def _binary_search(ex, args, f):
    """std's binary search over a slice with concrete length; the comparison results are decided by forking"""
    items = items_of(ex, args[0])
    r0 = args[0]
    base, _ = (r0, None)
    from intrinsics2 import container_ref
    cref, cont = container_ref(ex, r0)

    def cmp_at(i):
        el = Ref(cref.cell, cref.proj + (("idx", i),))
        if f.rstrip().endswith("binary_search_by_key") or "binary_search_by_key" in f:
            key = deref_all(ex, args[1])
            k = ex.call_closure(deref_all(ex, args[2]), [el])
            lt = (k.e < key.e) if k.signed else z3.ULT(k.e, key.e)
            if ex.decide(lt):
                return "Less"
            return "Equal" if ex.decide(k.e == key.e) else "Greater"
        if "binary_search_by" in f:
            return ex.call_closure(deref_all(ex, args[1]), [el]).variant
        key = deref_all(ex, args[1])
        v = deref_all(ex, el)
        lt = (v.e < key.e) if v.signed else z3.ULT(v.e, key.e)
        if ex.decide(lt):
            return "Less"
        return "Equal" if ex.decide(v.e == key.e) else "Greater"
    # the algorithm of core::slice::binary_search_by (size halving)
    size = len(items)
    if size == 0:
        return err(usize(0))
    base_i = 0
    while size > 1:
        half = size // 2
        mid = base_i + half
        c = cmp_at(mid)
        base_i = base_i if c == "Greater" else mid
        size -= half
    c = cmp_at(base_i)
    if c == "Equal":
        return ok(usize(base_i))
    return err(usize(base_i + (1 if c == "Less" else 0)))


# ---- file system boundary (C12) -------------------------------------------------------------------------------------------------
# Every call is recorded.  The model keeps the one piece of state containment depends on: which paths below the (freshly created, hence
# empty) target are symbolic links made by this extraction.  Calls succeed or fail arbitrarily; `exists` answers arbitrarily;
# `symlink_metadata` answers from the model (everything below a fresh target was put there by this run).
class FsLog:
    def __init__(self, target=b"/t"):
        self.ops = []          # (operation, path bytes, extra)
        self.links = []        # live symbolic links: resolved component lists
        self.target = [[z3.BitVecVal(c, 8) for c in comp] for comp in bytes(target).split(b"/") if comp]
        self.violations = []   # (operation, path bytes, reason)
        self.nq = 0
        self.known = []        # (resolved components, exists) for paths this run created or removed itself

    def rec(self, op, ex, p, extra=None):
        self.ops.append((op, list(_path_bytes(ex, p)), extra))

    @staticmethod
    def same_comp(ex, a, b):
        return len(a) == len(b) and ex.decide(z3.And([x == y for x, y in zip(a, b)] + [z3.BoolVal(True)]))

    def same(self, ex, A, B):
        return len(A) == len(B) and all(self.same_comp(ex, a, b) for a, b in zip(A, B))

    def walk(self, ex, p):
        """kernel-style resolution of an absolute path, component by component, against the model's links:
        returns (resolved components, leads through a live link, final component is a live link, relative)"""
        p = list(p)
        comps = path_components(ex, p)
        if not comps or comps[0][0] != "Root":
            return [], False, False, True
        stack, through = [], False
        last = len(comps) - 1
        for i, (k, s, e) in enumerate(comps):
            if k == "Normal":
                stack.append(p[s:e])
                if i != last and any(self.same(ex, stack, l) for l in self.links):
                    through = True
            elif k == "Parent" and stack:
                stack.pop()
        final = any(self.same(ex, stack, l) for l in self.links)
        return stack, through, final, False

    def classify(self, ex, p):
        """'inside' (strictly below the target), 'target', 'ancestor' (an existing directory above the target) or 'outside'"""
        stack, through, final, rel = self.walk(ex, p)
        t = self.target
        if rel:
            where = "outside"
        elif len(stack) >= len(t) and self.same(ex, stack[:len(t)], t):
            where = "target" if len(stack) == len(t) else "inside"
        elif len(stack) < len(t) and self.same(ex, stack, t[:len(stack)]):
            where = "ancestor"
        else:
            where = "outside"
        return where, stack, through, final

    def check(self, ex, op, p, follows_final):
        """containment of one mutating call.  Returns where the path lies so that the caller can make calls on the (existing) target
        directory and its ancestors behave like calls on existing directories."""
        where, stack, through, final = self.classify(ex, p)
        if through:
            self.violations.append((op, list(p), "path leads through a symbolic link created by an earlier entry"))
        elif where == "outside":
            self.violations.append((op, list(p), "path names something outside the target directory"))
        elif where == "ancestor" and op == "set_permissions":
            self.violations.append((op, list(p), "permissions of a directory above the target are changed"))
        elif follows_final and final:
            self.violations.append((op, list(p), "call follows a symbolic link created by an earlier entry"))
        return where, stack


FS = [None]


def _fs():
    if FS[0] is None:
        raise Unsupported("file system call without a harness-installed FsLog")
    return FS[0]


class FileV:
    def __init__(self, path):
        self.path = path

    def write_all(self, ex, data):
        if FS[0] is not None:
            FS[0].ops.append(("write", list(_path_bytes(ex, self.path)), list(data)))
        return ok()

    def write(self, ex, data):
        if FS[0] is not None:
            FS[0].ops.append(("write", list(_path_bytes(ex, self.path)), list(data)))
        return ok(usize(len(data)))


# calls that cannot succeed on an existing directory (the target itself, freshly created, and everything above it)
_FAILS_ON_DIR = ("remove_file", "create_file", "symlink", "create_dir")


def _fs_call(ex, op, path_arg, follows_final):
    fs = _fs()
    fs.rec(op, ex, path_arg)
    p = list(_path_bytes(ex, path_arg))
    first = op == "create_dir" and len(fs.ops) == 1           # extract's own creation of the target
    where, stack = ("target", fs.target) if first else fs.check(ex, op, p, follows_final)
    if not first and where in ("target", "ancestor") and op in _FAILS_ON_DIR:
        return False, stack
    okv = z3.Bool("fs_%s_%d_ok" % (op, len(fs.ops)))
    return bool(ex.decide(okv)), stack


def _fs_unit(op, follows_final):
    def g(ex, args, f):
        fs = _fs()
        good, stack = _fs_call(ex, op, args[0], follows_final)
        if op == "set_permissions" and len(args) > 1:
            pm = deref_all(ex, args[1])
            fs.ops[-1] = (fs.ops[-1][0], fs.ops[-1][1], getattr(pm, "payload", None))
        fs.ops[-1] = fs.ops[-1] + (good,)
        if not good:
            return err(Opaque("io::Error(fs)"))
        if op == "remove_file":
            fs.links = [l for l in fs.links if not fs.same(ex, stack, l)]
        if op in ("remove_file", "remove_dir_all"):
            fs.known.insert(0, (stack, False))
        elif op in ("create_dir", "create_dir_all"):
            fs.known.insert(0, (stack, True))
        return ok()
    return g


for _n, _ff in (("create_dir", False), ("create_dir_all", True), ("remove_file", False), ("remove_dir_all", False), ("set_permissions", True)):
    I[_n] = _fs_unit(_n, _ff)
    I["std::fs::" + _n] = _fs_unit(_n, _ff)
    I["fs::" + _n] = _fs_unit(_n, _ff)


@intr("std::fs::File::create", "File::create", "fs::File::create")
def _file_create(ex, args, f):
    good, stack = _fs_call(ex, "create_file", args[0], True)
    if good:
        _fs().known.insert(0, (stack, True))
    return ok(FileV(args[0])) if good else err(Opaque("io::Error(fs)"))


@intr("symlink", "std::os::unix::fs::symlink")
def _symlink(ex, args, f):
    fs = _fs()
    good, stack = _fs_call(ex, "symlink", args[1], False)
    fs.ops[-1] = (fs.ops[-1][0], fs.ops[-1][1], list(_path_bytes(ex, args[0])))
    if not good:
        return err(Opaque("io::Error(fs)"))
    if not any(fs.same(ex, stack, l) for l in fs.links):
        fs.links.append(stack)
    return ok()


@intr("Path::exists", "std::path::Path::exists")
def _path_exists(ex, args, f):
    fs = _fs()
    fs.nq += 1
    # a path this run created (or removed) itself is known; exists() follows a final symbolic link, whose target may or may not be there
    where, stack, through, final = fs.classify(ex, list(_path_bytes(ex, args[0])))
    if not final and not through:
        if where in ("target", "ancestor"):
            return Bool(z3.BoolVal(True))
        for st, state in fs.known:
            if fs.same(ex, stack, st):
                return Bool(z3.BoolVal(state))
    return Bool(z3.Bool("fs_exists_%d_%d" % (len(fs.ops), fs.nq)))


class MetaV:
    def __init__(self, is_link):
        self.is_link = is_link


@intr("Path::symlink_metadata", "std::path::Path::symlink_metadata")
def _symlink_metadata(ex, args, f):
    fs = _fs()
    p = list(_path_bytes(ex, args[0]))
    where, stack, through, final = fs.classify(ex, p)
    if final:
        return ok(MetaV(True))
    if where in ("target", "ancestor"):
        return ok(MetaV(False))
    fs.nq += 1
    # not a link made by this run: it may exist (as something else) or not
    return ok(MetaV(False)) if ex.decide(z3.Bool("fs_lstat_%d_%d" % (len(fs.ops), fs.nq))) else err(Opaque("io::Error(fs)"))


@intr("std::fs::Metadata::file_type", "Metadata::file_type")
def _md_file_type(ex, args, f):
    return deref_all(ex, args[0])


@intr("FileType::is_symlink", "std::fs::FileType::is_symlink", "Metadata::is_symlink")
def _ft_is_symlink(ex, args, f):
    return Bool(z3.BoolVal(deref_all(ex, args[0]).is_link))


# ---- std::path::Components / PathBuf building --------------------------------------------------------------------------------------
@intr("Path::components", "std::path::Path::components")
def _components(ex, args, f):
    bs = _path_bytes(ex, args[0])
    out = []
    for (k, s, e) in path_components(ex, bs):
        if k == "Normal":
            out.append(Adt("Component", "Normal", [PathV(bs[s:e])]))
        else:
            out.append(Adt("Component", {"Root": "RootDir", "Cur": "CurDir", "Parent": "ParentDir"}[k]))
    return ValIter(out)


@intr("Path::to_path_buf", "std::path::Path::to_path_buf")
def _to_path_buf(ex, args, f):
    return PathV(list(_path_bytes(ex, args[0])))


@intr("PathBuf::push")
def _pathbuf_push(ex, args, f):
    base = deref_all(ex, args[0])
    joined = _path_join(ex, [base, args[1]], f)
    base.bs = list(joined.bs)
    return UNIT


@intr("Path::display", "std::path::Path::display")
def _path_display(ex, args, f):
    return PathV(list(_path_bytes(ex, args[0])))


@intr("<_ as ToString>::to_string")
def _to_string_path(ex, args, f, _prev=I.get("<_ as ToString>::to_string")):
    v = deref_all(ex, args[0])
    if isinstance(v, PathV):
        return Str(list(v.bs), owned=True)
    if _prev is None:
        raise Unsupported("no model for call: %s" % f)
    return _prev(ex, args, f)


@intr("<_ as PermissionsExt>::from_mode")
def _perm_from_mode(ex, args, f):
    return Opaque("Permissions", args[0])


@intr("<_ as AsRef>::as_ref")
def _as_ref_path(ex, args, f, _prev=I["<_ as AsRef>::as_ref"]):
    v = deref_all(ex, args[0])
    if isinstance(v, PathV):
        return v
    if "AsRef<Path>" in f and isinstance(v, Str):
        return PathV(v.bytes())
    return _prev(ex, args, f)


class ValIter:
    """iterator that yields the given values (by value)"""

    def __init__(self, vals):
        self.vals = list(vals)


@intr("<_ as Iterator>::next")
def _next9(ex, args, f, _prev=I["<_ as Iterator>::next"]):
    it = deref_all(ex, args[0])
    if isinstance(it, ValIter):
        return some(it.vals.pop(0)) if it.vals else NONE
    return _prev(ex, args, f)


@intr("<_ as IntoIterator>::into_iter")
def _into_iter9(ex, args, f, _prev=I["<_ as IntoIterator>::into_iter"]):
    v = deref_all(ex, args[0])
    if isinstance(v, ValIter):
        return v
    return _prev(ex, args, f)


I["Arguments::from_str_nonconst"] = I["Arguments::from_str"]
I["Arguments::<'_>::from_str_nonconst"] = I["Arguments::from_str"]


# ---- compression encoders behind FFI (C17): constructor contracts only ------------------------------------------------------------------
# The encoders are C libraries (zlib/miniz, liblzma, libbz2, libzstd).  Only what their Rust constructors do with the level is modelled,
# read from the pinned crate sources:
#   flate2 1.1.10  Compression::new(l) stores l; GzEncoder::new -> Deflate::make: debug_assert!(l <= 10) (panics in builds with debug assertions)
#   liblzma 0.4.8  XzEncoder::new(w, l): Stream::new_easy_encoder(l, ..).unwrap(): lzma_easy_encoder rejects (l & 0x1f) > 9 or flag bits other than PRESET_EXTREME (1 << 31)
#   bzip2 0.5.2    Compression::new(l) stores l; BzEncoder::new -> Compress::new: assert_eq!(BZ2_bzCompressInit(.., l, ..), 0): BZ_PARAM_ERROR unless 1 <= l <= 9
#   zstd 0.13.3    Encoder::new(w, l) -> io::Result (ZSTD clamps the level): never panics; may return an error
class LevelV:
    def __init__(self, lib, level):
        self.lib = lib
        self.level = level


@intr("flate2::Compression::new")
def _flate2_level(ex, args, f):
    return LevelV("flate2", deref_all(ex, args[0]))


@intr("bzip2::Compression::new")
def _bzip2_level(ex, args, f):
    return LevelV("bzip2", deref_all(ex, args[0]))


def encoder_panics(lib, l):
    """the condition (over a 32-bit level) under which the encoder constructor panics"""
    if lib == "flate2":
        return z3.UGT(l, 10)
    if lib == "liblzma":
        return z3.Or(z3.UGT(l & 0x1f, 9), (l & 0x7fffffe0) != 0)
    if lib == "bzip2":
        return z3.Or(z3.ULT(l, 1), z3.UGT(l, 9))
    raise KeyError(lib)


@intr("flate2::write::GzEncoder::new")
def _gz_new(ex, args, f):
    if ex.decide(encoder_panics("flate2", deref_all(ex, args[1]).level.e)):
        raise PathEnd("panic", "flate2 GzEncoder::new: debug_assert!(level <= 10)")
    return EncV("gzip", deref_all(ex, args[1]).level.e)


@intr("liblzma::write::XzEncoder::new")
def _xz_new(ex, args, f):
    if ex.decide(encoder_panics("liblzma", deref_all(ex, args[1]).e)):
        raise PathEnd("panic", "liblzma XzEncoder::new: new_easy_encoder(level).unwrap() on an unsupported preset")
    return EncV("xz", deref_all(ex, args[1]).e)


@intr("bzip2::write::BzEncoder::new")
def _bz_new(ex, args, f):
    if ex.decide(encoder_panics("bzip2", deref_all(ex, args[1]).level.e)):
        raise PathEnd("panic", "bzip2 BzEncoder::new: assert_eq!(BZ2_bzCompressInit(level), 0)")
    return EncV("bzip2", deref_all(ex, args[1]).level.e)


@intr("zstd::Encoder::new", "zstd::stream::Encoder::new")
def _zstd_new(ex, args, f):
    fsq = getattr(ex, "_zstd_n", 0) + 1
    ex._zstd_n = fsq
    return ok(EncV("zstd", deref_all(ex, args[1]).e)) if ex.decide(z3.Bool("zstd_new_ok_%d" % fsq)) else err(Opaque("io::Error(zstd)"))


@intr("std::ops::RangeInclusive::new", "RangeInclusive::new")
def _range_incl_new(ex, args, f):
    return Adt("RangeInclusive", "RangeInclusive", [deref_all(ex, args[0]), deref_all(ex, args[1])])


@intr("std::ops::RangeInclusive::contains", "RangeInclusive::contains")
def _range_incl_contains(ex, args, f):
    r = deref_all(ex, args[0])
    x = deref_all(ex, args[1])
    lo, hi = r.fields[0], r.fields[1]
    if x.signed:
        return Bool(z3.And(lo.e <= x.e, x.e <= hi.e))
    return Bool(z3.And(z3.ULE(lo.e, x.e), z3.ULE(x.e, hi.e)))


# ---- Iterator::all / any / fold over any modelled iterator (zip, map, ...): driven through the iterator's own next() ---------------------
def _generic_iter(it):
    from intrinsics2 import SliceIter
    return not isinstance(it, SliceIter)


@intr("<_ as Iterator>::all")
def _all_generic(ex, args, f, _prev=I.get("<_ as Iterator>::all")):
    it = deref_all(ex, args[0])
    clo = deref_all(ex, args[1])
    while True:
        nx = _iter_next(ex, it, f)
        if nx.variant == "None":
            return Bool(True)
        hit = ex.call_closure(clo, [nx.fields[0]])
        if not ex.decide(hit.e):
            return Bool(False)


@intr("<_ as Iterator>::any")
def _any_generic(ex, args, f, _prev=I["<_ as Iterator>::any"]):
    it = deref_all(ex, args[0])
    if not _generic_iter(it):
        return _prev(ex, args, f)
    clo = deref_all(ex, args[1])
    while True:
        nx = _iter_next(ex, it, f)
        if nx.variant == "None":
            return Bool(False)
        hit = ex.call_closure(clo, [nx.fields[0]])
        if ex.decide(hit.e):
            return Bool(True)


@intr("<_ as Iterator>::fold")
def _fold_generic(ex, args, f, _prev=I.get("<_ as Iterator>::fold")):
    it = deref_all(ex, args[0])
    acc = args[1]
    clo = deref_all(ex, args[2])
    while True:
        nx = _iter_next(ex, it, f)
        if nx.variant == "None":
            return acc
        acc = ex.call_closure(clo, [acc, nx.fields[0]])


# ---- operator traits on references to integers (`&a ^ &b`, `a | &b`, ...) ----------------------------------------------------------------
def _binop_trait(op):
    def g(ex, args, f):
        a = deref_all(ex, args[0])
        b = deref_all(ex, args[1])
        if not (isinstance(a, Int) and isinstance(b, Int)):
            raise Unsupported("operator trait %s on %r, %r" % (f, a, b))
        return Int(op(a.e, b.e), a.ty)
    return g


for _tr, _m, _op in (("BitXor", "bitxor", lambda x, y: x ^ y), ("BitOr", "bitor", lambda x, y: x | y), ("BitAnd", "bitand", lambda x, y: x & y)):
    I["<_ as %s>::%s" % (_tr, _m)] = _binop_trait(_op)


@intr("Option::is_some_and")
def _is_some_and(ex, args, f):
    o = deref_all(ex, args[0])
    if o.variant == "None":
        return Bool(False)
    return ex.call_closure(deref_all(ex, args[1]), [o.fields[0]])


@intr("Vec::with_capacity", "Vec::<T>::with_capacity")
def _with_capacity_budget(ex, args, f):
    # Vec::with_capacity(n) is an allocation request of n elements: checked against the budget like reserve / vec![x; n]
    if args:
        n = deref_all(ex, args[0])
        if isinstance(n, Int):
            if n.conc() is None or n.conc() > ALLOC_BUDGET[0]:
                check_budget(ex, n, "allocation (Vec::with_capacity)")
    return VecV([])


@intr("<_ as Read>::read_to_end")
def _read_to_end4(ex, args, f, _prev=I["<_ as Read>::read_to_end"]):
    """crate types that implement Read themselves (payload::Reader): std's default read_to_end = read() into a probe buffer until Ok(0)"""
    rd = deref_all(ex, args[0])
    if isinstance(rd, Adt):
        fn = ex.find_impl("read", "Read", rd.ty)
        if fn is None:
            raise Unsupported("read_to_end on %s without a Read impl in the crate" % rd.ty)
        v = deref_all(ex, args[1])
        total = 0
        for _ in range(256):
            cell = Cell(Arr([Int(0, "u8") for _ in range(32)]))
            from intrinsics2 import container_ref
            r = ex.call_fn(fn, [container_ref(ex, args[0])[0], Ref(cell)])
            if r.variant != "Ok":
                return r
            n = pick(ex, r.fields[0], 32)
            if n == 0:
                return ok(usize(total))
            v.items += list(cell.v.items[:n])
            total += n
        raise Unsupported("read_to_end: more than 256 probe reads")
    return _prev(ex, args, f)


@intr("<_ as Read>::read")
def _read_model(ex, args, f, _prev=I.get("<_ as Read>::read")):
    """Read::read of the model reader into a (sub)slice: hands out up to K bytes (K = 0: as many as fit)"""
    rd = deref_all(ex, args[0])
    if not isinstance(rd, Reader):
        if _prev is None:
            raise Unsupported("Read::read on %r" % (rd,))
        return _prev(ex, args, f)
    dst = deref_all(ex, args[1])
    if isinstance(dst, SliceMut):
        room = dst.hi - dst.lo
    else:
        room = len(items_of(ex, dst))
    n = min(room, rd.remaining()) if rd.k == 0 else min(room, rd.remaining(), rd.k)
    vals = [Int(b, "u8") for b in rd.data[rd.pos:rd.pos + n]]
    rd.pos += n
    if isinstance(dst, SliceMut):
        cur = list(items_of(ex, dst.ref))
        cur[dst.lo:dst.lo + n] = vals
        _store(ex, dst.ref, Arr(cur))
    else:
        cur = list(items_of(ex, dst))
        cur[:n] = vals
        if isinstance(dst, VecV):
            dst.items[:] = cur
        else:
            _store(ex, args[1], Arr(cur))
    return ok(usize(n))


@intr("BTreeMap::get", "BTreeMap::<K, V>::get", "HashMap::get")
def _btreemap_get(ex, args, f):
    m = deref_all(ex, args[0])
    i = _find_key(ex, m, deref_all(ex, args[1]))
    if i is None:
        return NONE
    return some(Ref(Cell(m.vals[i])))


@intr("std::str::<impl str>::replace", "str::replace")
def _str_replace(ex, args, f):
    """str::replace with a literal (concrete) pattern: left-to-right, non-overlapping, each candidate position decided by the solver"""
    s = as_str(ex, args[0]).bytes()
    pat = as_str(ex, args[1]).bytes()
    to = as_str(ex, args[2]).bytes()
    if not pat:
        raise Unsupported("str::replace with an empty pattern")
    out = []
    i = 0
    n, m = len(s), len(pat)
    while i < n:
        if i + m <= n and ex.decide(z3.And([a == b for a, b in zip(s[i:i + m], pat)])):
            out += list(to)
            i += m
        else:
            out.append(s[i])
            i += 1
    return Str(out, owned=True)


@intr("<_ as Default>::default")
def _default_generic(ex, args, f, _prev=I["<_ as Default>::default"]):
    m = re.match(r"^<(.*) as (?:std::default::)?Default>::default$", f.strip())
    t = m.group(1) if m else ""
    if t.startswith("Option<"):
        return NONE
    if t.startswith("Vec<"):
        return VecV([])
    if t == "String" or t.startswith("Cow<"):
        return Str([], owned=True)
    if t.startswith("BTreeMap<") or t.startswith("BTreeSet<"):
        return MapV()
    if t.startswith("HashSet<") or t.startswith("HashMap<"):
        return HashV()
    if t in WIDTH:
        return Int(0, t)
    if t == "bool":
        return Bool(False)
    return _prev(ex, args, f)


# ---- HashSet / HashMap: membership as for the ordered maps; ITERATION ORDER IS ARBITRARY (RandomState): the solver picks the permutation ----
class HashV(MapV):
    pass


@intr("HashSet::new", "HashSet::<T>::new", "std::collections::HashSet::new", "HashMap::new")
def _hashset_new(ex, args, f):
    return HashV()


@intr("HashSet::insert", "HashSet::<T, S>::insert", "HashSet::<T>::insert")
def _hashset_insert(ex, args, f):
    return _btreeset_insert(ex, args, f)


# ---- iteration over the collection models ------------------------------------------------------------------------------------------------
def _bytes_lt(ex, a, b):
    """lexicographic a < b on byte strings (String's Ord), decided by the solver position by position"""
    a = as_str(ex, a).bytes()
    b = as_str(ex, b).bytes()
    for x, y in zip(a, b):
        if ex.decide(x != y):
            return bool(ex.decide(z3.ULT(x, y)))
    return len(a) < len(b)


def _ordered_indices(ex, m):
    """BTreeMap/BTreeSet: ascending key order"""
    idx = []
    for i in range(len(m.keys)):
        pos = len(idx)
        for j, k in enumerate(idx):
            if _bytes_lt(ex, m.keys[i], m.keys[k]):
                pos = j
                break
        idx.insert(pos, i)
    return idx


def _permuted_indices(ex, m):
    """HashSet/HashMap: the order RandomState happens to give - any permutation, picked by the solver (one decision per position)"""
    m.perm_id = getattr(m, "perm_id", None) or ("hs%d" % id(m))
    ex._perm_n = getattr(ex, "_perm_n", 0) + 1
    rest = list(range(len(m.keys)))
    out = []
    while rest:
        pick_i = 0
        for c in range(len(rest) - 1):
            if ex.decide(z3.Bool("hash_order_%d_%d_%d" % (ex._perm_n, len(out), c))):
                pick_i = c
                break
            pick_i = c + 1
        out.append(rest.pop(pick_i))
    return out


def _map_order(ex, m):
    return _permuted_indices(ex, m) if isinstance(m, HashV) else _ordered_indices(ex, m)


@intr("BTreeMap::iter", "BTreeMap::<K, V>::iter", "HashMap::iter")
def _map_iter(ex, args, f):
    m = deref_all(ex, args[0])
    return ValIter([Tup([Ref(Cell(m.keys[i])), Ref(Cell(m.vals[i]))]) for i in _map_order(ex, m)])


@intr("BTreeSet::iter", "BTreeSet::<T>::iter", "HashSet::iter", "HashSet::<T, S>::iter")
def _set_iter(ex, args, f):
    m = deref_all(ex, args[0])
    return ValIter([Ref(Cell(m.keys[i])) for i in _map_order(ex, m)])


@intr("<_ as IntoIterator>::into_iter")
def _into_iter_maps(ex, args, f, _prev=I["<_ as IntoIterator>::into_iter"]):
    v = deref_all(ex, args[0])
    if isinstance(v, (EnumIter, ZipIter, MultiZip, ValIter, MapIter)) or type(v).__name__ in ("MapAdapter", "FlatMapIter", "FilterIter"):
        return v                       # IntoIterator for an iterator is the identity
    if isinstance(v, MapV):
        by_ref = f.strip().startswith("<&")
        is_set = "Set<" in f
        order = _map_order(ex, v)
        if is_set:
            return ValIter([(Ref(Cell(v.keys[i])) if by_ref else v.keys[i]) for i in order])
        return ValIter([Tup([Ref(Cell(v.keys[i])) if by_ref else v.keys[i], Ref(Cell(v.vals[i])) if by_ref else v.vals[i]]) for i in order])
    return _prev(ex, args, f)


@intr("BTreeMap::len", "BTreeSet::len", "HashSet::len", "HashMap::len", "BTreeMap::<K, V>::len")
def _map_len(ex, args, f):
    return usize(len(deref_all(ex, args[0]).keys))


@intr("BTreeMap::is_empty", "BTreeSet::is_empty", "HashSet::is_empty", "HashMap::is_empty")
def _map_is_empty(ex, args, f):
    return Bool(len(deref_all(ex, args[0]).keys) == 0)


@intr("<_ as Iterator>::position")
def _position(ex, args, f):
    it = deref_all(ex, args[0])
    clo = deref_all(ex, args[1])
    i = 0
    while True:
        nx = _iter_next(ex, it, f)
        if nx.variant == "None":
            return NONE
        hit = ex.call_closure(clo, [nx.fields[0]])
        if ex.decide(hit.e):
            return some(usize(i))
        i += 1


@intr("<_ as Into>::into")
def _into_generic(ex, args, f, _prev=I["<_ as Into>::into"]):
    """<A as Into<B>>::into: integer widening, or the crate's `impl From<A> for B`, else the previous model (identity / Cow)"""
    m = re.match(r"^<(.*) as (?:std::convert::)?Into<(.*)>>::into$", f.strip())
    if m:
        src, dst = m.group(1).strip(), m.group(2).strip()
        v = deref_all(ex, args[0])
        if dst in WIDTH and isinstance(v, Int) and src in WIDTH:
            w0, w1 = v.e.size(), WIDTH[dst]
            if w1 > w0:
                return Int(z3.SignExt(w1 - w0, v.e) if v.signed else z3.ZeroExt(w1 - w0, v.e), dst)
            if w1 == w0:
                return Int(v.e, dst)
        from symex import base_name
        fn = None
        for cand in ex.by_method.get("from", []):
            from symex import impl_info
            info = impl_info(cand.name)
            if info and info[1] == base_name(dst) and (info[0] or "") == "From" and cand.params and base_name(cand.params[0][1]) == base_name(src):
                fn = cand if fn is None else fn
        if fn is not None:
            return ex.call_fn(fn, [args[0]])
    return _prev(ex, args, f)


@intr("<_ as Extend>::extend")
def _extend(ex, args, f):
    """Vec::extend(iterable): items by value (for `Extend<&u8>` the bytes are copied)"""
    v = deref_all(ex, args[0])
    src = deref_all(ex, args[1])
    if isinstance(src, (Arr, VecV, Str)):
        v.items += list(items_of(ex, src))
        return UNIT
    it = I["<_ as IntoIterator>::into_iter"](ex, [args[1]], f)
    while True:
        nx = _iter_next(ex, it, f)
        if nx.variant == "None":
            return UNIT
        x = nx.fields[0]
        v.items.append(deref_all(ex, x) if "Extend<&" in f else x)
        if len(v.items) > ITEM_BUDGET_REF[0]:
            raise PathEnd("alloc", "extend: too many items")


from intrinsics2 import ITEM_BUDGET as ITEM_BUDGET_REF  # noqa: E402


def _write_all_default(ex, args, f, _prev):
    """std's default Write::write_all over a crate type that implements Write::write itself"""
    w = deref_all(ex, args[0])
    if isinstance(w, Adt):
        fn = ex.find_impl("write", "Write", w.ty)
        if fn is None:
            raise Unsupported("write_all on %s without a Write impl in the crate" % w.ty)
        data = as_bytes(ex, args[1])
        pos = 0
        for _ in range(4096):
            if pos >= len(data):
                return ok()
            from intrinsics2 import container_ref
            r = ex.call_fn(fn, [container_ref(ex, args[0])[0], Str(data[pos:])])
            if r.variant != "Ok":
                er = r.fields[0]
                if getattr(er, "tag", "") == "io::Error(Interrupted)":
                    continue
                return r
            n = pick(ex, r.fields[0], len(data) - pos)
            if n == 0:
                return err(Opaque("io::Error(WriteZero)"))
            pos += n
        raise Unsupported("write_all: more than 4096 write calls")
    return _prev(ex, args, f)


for _k in ("<_ as Write>::write_all", "<W as std::io::Write>::write_all", "<impl std::io::Write as std::io::Write>::write_all", "<impl io::Write as std::io::Write>::write_all"):
    I[_k] = (lambda prev: (lambda ex, args, f: _write_all_default(ex, args, f, prev)))(I[_k])


def _flags_const_hook(ex, name):
    """`constants::DependencyFlags::RPMLIB` and friends: associated constants generated by bitflags!"""
    m = re.fullmatch(r"(?:\w+::)*(\w+)::([A-Z][A-Z0-9_]*)", name.strip())
    if not m:
        return None
    try:
        flags_mask(m.group(1))
    except Unsupported:
        return None
    vals = _FLAG_VALUES.get(m.group(1))
    if vals is None or m.group(2) not in vals:
        return None
    return Adt(m.group(1), "bits", [Int(vals[m.group(2)], _FLAG_WIDTH[m.group(1)])])


from symex import NAMED_CONST_HOOKS  # noqa: E402
NAMED_CONST_HOOKS.append(_flags_const_hook)


def _flags_binop(op):
    def g(ex, args, f, _prev):
        a = deref_all(ex, args[0])
        b = deref_all(ex, args[1])
        if isinstance(a, Adt) and a.variant == "bits" and isinstance(b, Adt) and b.variant == "bits":
            return Adt(a.ty, "bits", [Int(op(a.fields[0].e, b.fields[0].e), a.fields[0].ty)])
        return _prev(ex, args, f)
    return g


for _tr, _m, _op in (("BitXor", "bitxor", lambda x, y: x ^ y), ("BitOr", "bitor", lambda x, y: x | y), ("BitAnd", "bitand", lambda x, y: x & y)):
    _key = "<_ as %s>::%s" % (_tr, _m)
    I[_key] = (lambda g, prev: (lambda ex, args, f: g(ex, args, f, prev)))(_flags_binop(_op), I[_key])


def _flags_bits(ex, args, f):
    return deref_all(ex, args[0]).fields[0]


for _fl in ("DependencyFlags", "FileFlags", "ScriptletFlags", "FileVerifyFlags"):
    for _pre in ("constants::_::<impl constants::%s>::", "constants::_::<impl %s>::"):
        I.setdefault((_pre % _fl) + "bits", _flags_bits)


@intr("Option::unwrap_or_else")
def _opt_unwrap_or_else(ex, args, f):
    o = deref_all(ex, args[0])
    if o.variant == "Some":
        return o.fields[0]
    return ex.call_closure(deref_all(ex, args[1]), [])


@intr("Option::unwrap_or_default", "Result::unwrap_or_default")
def _opt_unwrap_or_default(ex, args, f):
    o = deref_all(ex, args[0])
    if o.variant in ("Some", "Ok"):
        return o.fields[0]
    m = re.match(r"^(?:Option|Result)::<([^,>]*)", f.strip())
    return I["<_ as Default>::default"](ex, [], "<%s as Default>::default" % (m.group(1) if m else ""))


def _ord_terms(ex, a, b):
    """(a < b, a == b) as z3 terms for integers and for derive(PartialOrd) structs made of integers (lexicographic by field)"""
    a, b = deref_all(ex, a), deref_all(ex, b)
    if isinstance(a, Int) and isinstance(b, Int):
        return ((a.e < b.e) if a.signed else z3.ULT(a.e, b.e)), a.e == b.e
    if isinstance(a, Adt) and isinstance(b, Adt) and a.variant == b.variant and len(a.fields) == len(b.fields) and a.fields:
        lt, eq = z3.BoolVal(False), z3.BoolVal(True)
        for x, y in zip(a.fields, b.fields):
            l, e_ = _ord_terms(ex, x, y)
            lt = z3.Or(lt, z3.And(eq, l))
            eq = z3.And(eq, e_)
        return lt, eq
    raise Unsupported("ordering of %r and %r" % (a, b))


def _mk_ord(which):
    def g(ex, args, f):
        lt, eq = _ord_terms(ex, args[0], args[1])
        return Bool({"lt": lt, "le": z3.Or(lt, eq), "gt": z3.Not(z3.Or(lt, eq)), "ge": z3.Not(lt)}[which])
    return g


for _w in ("lt", "le", "gt", "ge"):
    I.setdefault("<_ as PartialOrd>::" + _w, _mk_ord(_w))


@intr("<_ as ToString>::to_string")
def _to_string_display(ex, args, f, _prev=I["<_ as ToString>::to_string"]):
    """to_string through the crate's own Display impl (run from MIR into a scratch formatter); integers in decimal"""
    v = deref_all(ex, args[0])
    if isinstance(v, Int) and v.ty != "char":
        from intrinsics import render_int
        return Str(render_int(ex, v, "d"), owned=True)
    if isinstance(v, Adt) and v.ty not in ("Cow", "String", "Option", "Result"):
        fn = ex.find_impl("fmt", "Display", v.ty)
        if fn is not None:
            from intrinsics import Formatter
            fm = Formatter()
            ex.call_fn(fn, [Ref(Cell(v)), Ref(Cell(fm))])
            return Str(list(fm.out), owned=True)
    return _prev(ex, args, f)


# ---- reading a source file (PackageBuilder::with_file): the file system hands back whatever the harness installed ---------------------------
class SrcFile(Reader):
    """an opened source file: content bytes, st_mode (u32), modification time in seconds (u64)"""

    def __init__(self, content, mode, mtime_secs):
        Reader.__init__(self, list(content))
        self.mode = mode
        self.mtime_secs = mtime_secs


SRC_FILE = [None]      # what File::open returns next (set by the harness); None = open fails


@intr("std::fs::File::open", "File::open", "fs::File::open")
def _file_open(ex, args, f):
    if SRC_FILE[0] is None:
        return err(Opaque("io::Error(NotFound)"))
    c, m, t = SRC_FILE[0]
    return ok(SrcFile(c, m, t))


@intr("std::fs::File::metadata", "File::metadata")
def _file_metadata(ex, args, f):
    fl = deref_all(ex, args[0])
    return ok(Adt("SrcMetadata", "SrcMetadata", [Int(fl.mode, "u32"), Int(fl.mtime_secs, "u64")]))


@intr("std::fs::Metadata::permissions", "Metadata::permissions")
def _md_permissions(ex, args, f):
    return Opaque("Permissions", deref_all(ex, args[0]).fields[0])


@intr("<_ as PermissionsExt>::mode")
def _perm_mode(ex, args, f):
    return deref_all(ex, args[0]).payload


@intr("std::fs::Metadata::modified", "Metadata::modified")
def _md_modified(ex, args, f):
    return ok(Adt("SystemTimeV", "SystemTimeV", [deref_all(ex, args[0]).fields[1]]))


@intr("<_ as TryInto>::try_into")
def _systemtime_try_into(ex, args, f, _prev=I["<_ as TryInto>::try_into"]):
    v = deref_all(ex, args[0])
    tm = re.search(r"as (?:std::convert::)?TryInto<(?:\w+::)*(\w+)>>::try_into$", f.strip())
    if isinstance(v, Adt) and tm and v.ty == tm.group(1):
        return ok(v)                                   # reflexive: TryFrom<T> for T is infallible
    if isinstance(v, Adt) and v.ty == "SystemTimeV":
        # the crate's TryFrom<SystemTime> for Timestamp: whole seconds since the epoch, Overflow beyond u32 (decided separately under C20)
        secs = v.fields[0]
        if ex.decide(z3.UGT(secs.e, 0xffffffff)):
            return err(Adt("TimestampError", "Overflow"))
        return ok(Adt("Timestamp", "Timestamp", [Int(z3.Extract(31, 0, secs.e), "u32")]))
    return _prev(ex, args, f)


@intr("Vec::resize", "Vec::<T>::resize")
def _vec_resize(ex, args, f):
    """Vec::resize(n, x): an allocation request of n elements when growing (checked against the budget), then n concrete elements"""
    v = deref_all(ex, args[0])
    n = deref_all(ex, args[1])
    cur = len(v.items)
    if n.conc() is None:
        check_budget(ex, n, "allocation (Vec::resize)")
        if ex.decide(z3.UGT(n.e, 16)):
            # within the budget but large and symbolic: materialising every size up to the budget would fork thousands of times; counted as outside the bound
            raise PathEnd("skip", "Vec::resize to a symbolic size between 17 and the allocation budget")
        k = pick(ex, n, 16)
    else:
        k = n.conc()
        if k > ALLOC_BUDGET[0]:
            raise PathEnd("alloc", "Vec::resize to %d elements" % k)
    if k <= cur:
        v.items = v.items[:k]
    else:
        v.items = v.items + [args[2]] * (k - cur)
    return UNIT


def _read_exact_default(ex, args, f, _prev):
    """std's default Read::read_exact over a crate type that implements Read::read itself: read() until the buffer is full; Ok(0) before that is UnexpectedEof"""
    rd = deref_all(ex, args[0])
    if isinstance(rd, Adt):
        from intrinsics2 import container_ref
        fn = ex.find_impl("read", "Read", rd.ty)
        if fn is None:
            raise Unsupported("read_exact on %s without a Read impl in the crate" % rd.ty)
        dst = deref_all(ex, args[1])
        if isinstance(dst, SliceMut):
            base, lo, hi = dst.ref, dst.lo, dst.hi
        else:
            base, lo, hi = args[1], 0, len(items_of(ex, dst))
        pos = lo
        for _ in range(4096):
            if pos >= hi:
                return ok()
            sub = SliceMut(base, pos, hi)
            r = ex.call_fn(fn, [container_ref(ex, args[0])[0], Ref(Cell(sub))])
            if r.variant != "Ok":
                er = r.fields[0]
                if getattr(er, "tag", "") == "io::Error(Interrupted)":
                    continue
                return r
            n = pick(ex, r.fields[0], hi - pos)
            if n == 0:
                return err(Opaque("io::Error(UnexpectedEof)"))
            pos += n
        raise Unsupported("read_exact: more than 4096 read calls")
    return _prev(ex, args, f)


for _k in ("<_ as Read>::read_exact", "<impl io::BufRead as std::io::Read>::read_exact", "<impl std::io::BufRead as std::io::Read>::read_exact"):
    I[_k] = (lambda prev: (lambda ex, args, f: _read_exact_default(ex, args, f, prev)))(I[_k])


class SinkV:
    """std::io::sink(): accepts and discards everything"""

    def write_all(self, ex, data):
        return ok()

    def write(self, ex, data):
        return ok(usize(len(data)))


@intr("std::io::sink", "sink", "io::sink")
def _io_sink(ex, args, f):
    return SinkV()


@intr("std::io::copy", "io::copy", "copy")
def _io_copy(ex, args, f):
    """io::copy(reader, writer) for the reader models: everything that is left (up to a Take limit) goes to the writer"""
    rd = deref_all(ex, args[0])
    w = deref_all(ex, args[1])
    if isinstance(rd, TakeReader):
        inner = deref_all(ex, rd.rd)
        rem = inner.remaining()
        n = rem if ex.decide(z3.UGE(rd.limit.e, rem)) else pick(ex, rd.limit, rem)
    elif isinstance(rd, Reader):
        inner, n = rd, rd.remaining()
    else:
        raise Unsupported("io::copy from %r" % (rd,))
    data = inner.data[inner.pos:inner.pos + n]
    inner.pos += n
    if isinstance(w, VecV):
        w.items += [Int(b, "u8") for b in data]
    elif hasattr(w, "write_all"):
        r = w.write_all(ex, data)
        if r.variant != "Ok":
            return r
    else:
        raise Unsupported("io::copy into %r" % (w,))
    return ok(Int(n, "u64"))


@intr("Path::is_dir", "std::path::Path::is_dir")
def _path_is_dir(ex, args, f):
    """is_dir() follows symbolic links: for a path that is (or leads through) a link made by this extraction the answer is arbitrary (the target may be a
    directory outside); the target and its ancestors are directories; below the fresh target only what this run created as a directory is one"""
    fs = _fs()
    p = list(_path_bytes(ex, args[0]))
    where, stack, through, final = fs.classify(ex, p)
    if through or final or where == "outside":
        fs.nq += 1
        return Bool(z3.Bool("fs_isdir_%d_%d" % (len(fs.ops), fs.nq)))
    if where in ("target", "ancestor"):
        return Bool(True)
    for op in fs.ops:
        if op[0] in ("create_dir_all", "create_dir") and (len(op) < 4 or op[3]):
            st2 = fs.walk(ex, op[1])[0]
            # create_dir_all makes every missing ancestor too
            if len(st2) >= len(stack) and fs.same(ex, st2[:len(stack)], stack) and (op[0] == "create_dir_all" or len(st2) == len(stack)):
                return Bool(True)
    return Bool(False)


# ---- more of the bitflags!-generated API ---------------------------------------------------------------------------------------------------
def _flags_name(f):
    m = re.search(r"<impl (?:constants::)?(\w+)>::", f)
    return m.group(1) if m else "Flags"


def _flags_empty(ex, args, f):
    nm = _flags_name(f)
    flags_mask(nm)
    return Adt(nm, "bits", [Int(0, _FLAG_WIDTH[nm])])


def _flags_all(ex, args, f):
    nm = _flags_name(f)
    return Adt(nm, "bits", [Int(flags_mask(nm), _FLAG_WIDTH[nm])])


def _flags_insert(ex, args, f):
    cur = deref_all(ex, args[0])
    other = deref_all(ex, args[1])
    _store(ex, args[0], Adt(cur.ty, "bits", [Int(cur.fields[0].e | other.fields[0].e, cur.fields[0].ty)]))
    return UNIT


def _flags_remove(ex, args, f):
    cur = deref_all(ex, args[0])
    other = deref_all(ex, args[1])
    _store(ex, args[0], Adt(cur.ty, "bits", [Int(cur.fields[0].e & ~other.fields[0].e, cur.fields[0].ty)]))
    return UNIT


def _flags_contains(ex, args, f):
    a, b = deref_all(ex, args[0]), deref_all(ex, args[1])
    return Bool((a.fields[0].e & b.fields[0].e) == b.fields[0].e)


def _flags_is_empty(ex, args, f):
    return Bool(deref_all(ex, args[0]).fields[0].e == 0)


def _flags_union(ex, args, f):
    a, b = deref_all(ex, args[0]), deref_all(ex, args[1])
    return Adt(a.ty, "bits", [Int(a.fields[0].e | b.fields[0].e, a.fields[0].ty)])


for _fl in ("DependencyFlags", "FileFlags", "ScriptletFlags", "FileVerifyFlags"):
    for _pre in ("constants::_::<impl constants::%s>::", "constants::_::<impl %s>::"):
        for _mn, _fn in (("empty", _flags_empty), ("all", _flags_all), ("insert", _flags_insert), ("remove", _flags_remove), ("contains", _flags_contains),
                         ("is_empty", _flags_is_empty), ("union", _flags_union)):
            I.setdefault((_pre % _fl) + _mn, _fn)


@intr("<_ as Iterator>::count")
def _iter_count(ex, args, f):
    """count() of an iterator model: consume it (for str::chars under the ASCII bound this is the byte length)"""
    it = deref_all(ex, args[0])
    n = 0
    while True:
        nx = _iter_next(ex, it, f)
        if nx.variant == "None":
            return usize(n)
        n += 1
        if n > 100000:
            raise Unsupported("count: iterator does not end")


# ---- compression as an uninterpreted function ------------------------------------------------------------------------------------------------
# The encoders/decoders are C libraries.  Model: an encoder collects what it is given; finish() returns COMPRESSED_LEN bytes, each an uninterpreted
# function (per algorithm and input length) of the level and of every input byte in order; the matching decoder is its inverse on exactly those
# outputs (registry below) and is not modelled on anything else.  Nothing about sizes or formats is claimed.
COMPRESSED_LEN = 6
ENCODERS = []          # every encoder finished on the current path: (kind, level term, input bytes, output bytes)
_ZUF = {}


class EncV:
    def __init__(self, kind, level):
        self.kind = kind
        self.level = level
        self.buf = []

    def write_all(self, ex, data):
        self.buf += list(data)
        return ok()

    def write(self, ex, data):
        self.buf += list(data)
        return ok(usize(len(data)))


def _compress_uf(kind, level, data):
    n = len(data)
    out = []
    lv = level if level.size() == 32 else z3.ZeroExt(32 - level.size(), level)
    for i in range(COMPRESSED_LEN):
        key = (kind, n, i)
        if key not in _ZUF:
            _ZUF[key] = z3.Function("Z_%s_%d_%d" % (kind, n, i), *([z3.BitVecSort(32)] + [z3.BitVecSort(8)] * n + [z3.BitVecSort(8)]))
        out.append(_ZUF[key](lv, *data))
    return out


@intr("flate2::write::GzEncoder::finish", "liblzma::write::XzEncoder::finish", "bzip2::write::BzEncoder::finish", "zstd::Encoder::finish", "zstd::stream::Encoder::finish")
def _enc_finish(ex, args, f):
    enc = deref_all(ex, args[0])
    out = _compress_uf(enc.kind, enc.level, enc.buf)
    ENCODERS.append((enc.kind, enc.level, list(enc.buf), out))
    return ok(VecV([Int(b, "u8") for b in out]))


@intr("<_ as Write>::flush")
def _flush_enc(ex, args, f, _prev=I.get("<_ as Write>::flush")):
    w = deref_all(ex, args[0])
    if isinstance(w, (EncV, VecV)):
        return ok()
    if _prev is None:
        raise Unsupported("flush on %r" % (w,))
    return _prev(ex, args, f)


def _decoder_new(kind):
    def g(ex, args, f):
        rd = deref_all(ex, args[0])
        data = rd.data[rd.pos:]
        for (k, lv, inp, out) in ENCODERS:
            if k == kind and len(out) == len(data) and all(a.eq(b) for a, b in zip(out, data)):
                r = Reader(inp)
                return ok(r) if "zstd" in f else r
        raise Unsupported("decompression of bytes that are not the output of the modelled %s encoder" % kind)
    return g


I["flate2::bufread::GzDecoder::new"] = _decoder_new("gzip")
I["liblzma::bufread::XzDecoder::new"] = _decoder_new("xz")
I["bzip2::bufread::BzDecoder::new"] = _decoder_new("bzip2")
I["zstd::Decoder::new"] = _decoder_new("zstd")
I["zstd::stream::Decoder::new"] = _decoder_new("zstd")
I["zstd::stream::read::Decoder::new"] = _decoder_new("zstd")


@intr("decode", "hex::decode")
def _hex_decode(ex, args, f):
    """hex::decode: an odd length or a character outside [0-9a-fA-F] is an error; both letter cases are accepted"""
    bs = as_bytes(ex, args[0])
    if len(bs) % 2:
        return err(Opaque("FromHexError::OddLength"))
    out = []
    for i in range(0, len(bs), 2):
        pair = []
        for c in (bs[i], bs[i + 1]):
            isd = z3.And(z3.UGE(c, 0x30), z3.ULE(c, 0x39))
            isl = z3.And(z3.UGE(c, 0x61), z3.ULE(c, 0x66))
            isu = z3.And(z3.UGE(c, 0x41), z3.ULE(c, 0x46))
            if not ex.decide(z3.Or(isd, isl, isu)):
                return err(Opaque("FromHexError::InvalidHexCharacter"))
            pair.append(z3.If(isd, c - 0x30, z3.If(isl, c - 0x57, c - 0x37)))
        out.append(Int((pair[0] << 4) | pair[1], "u8"))
    return ok(VecV(out))


# ---- Vec::drain(..), collecting into maps, into_values ---------------------------------------------------------------------------------
@intr("Vec::drain", "Vec::<T>::drain")
def _vec_drain(ex, args, f):
    if "RangeFull" not in f:
        raise Unsupported("Vec::drain over a partial range")
    v = deref_all(ex, args[0])
    items = list(v.items)
    del v.items[:]
    return ValIter(items)


@intr("<_ as FromIterator>::from_iter", "<_ as Iterator>::collect")
def _from_iter_maps(ex, args, f, _prev=I["<_ as Iterator>::collect"]):
    m = re.search(r"::collect::<(?:std::collections::)?(HashMap|BTreeMap|HashSet|BTreeSet)<", f) or re.search(r"^<(?:std::collections::)?(HashMap|BTreeMap|HashSet|BTreeSet)<.* as (?:std::iter::)?FromIterator", f.strip())
    if not m:
        return _prev(ex, args, f)
    it = deref_all(ex, args[0])
    out = HashV() if m.group(1).startswith("Hash") else MapV()
    n = 0
    while True:
        x = _iter_next(ex, it, f)
        if x.variant == "None":
            break
        item = deref_all(ex, x.fields[0]) if m.group(1).endswith("Map") else x.fields[0]
        key, val = (item.items[0], item.items[1]) if m.group(1).endswith("Map") else (item, UNIT)
        i = _find_key(ex, out, key)
        if i is None:
            out.keys.append(key)
            out.vals.append(val)
        else:
            out.vals[i] = val                 # a later item with an equal key replaces the value, the key stays
        n += 1
        if n > 4096:
            raise Unsupported("collect: too many items")
    return out


@intr("HashMap::into_values", "HashMap::<K, V, S>::into_values", "HashMap::<K, V>::into_values", "BTreeMap::into_values", "BTreeMap::<K, V>::into_values",
      "HashMap::values", "HashMap::<K, V, S>::values", "BTreeMap::values", "BTreeMap::<K, V>::values")
def _map_into_values(ex, args, f):
    m = deref_all(ex, args[0])
    by_ref = "into_values" not in f
    return ValIter([(Ref(Cell(m.vals[i])) if by_ref else m.vals[i]) for i in _map_order(ex, m)])


@intr("Option::as_deref", "Option::<T>::as_deref", "Option::as_deref_mut")
def _opt_as_deref(ex, args, f):
    o = deref_all(ex, args[0])
    if o.variant == "None":
        return NONE
    return some(Ref(Cell(o.fields[0])))


@intr("GenericArray::as_slice", "GenericArray::<T, N>::as_slice")
def _ga_as_slice(ex, args, f):
    return I["Vec::as_slice"](ex, args, f)


@intr("Vec::dedup_by", "Vec::<T>::dedup_by", "Vec::dedup_by_key", "Vec::dedup")
def _vec_dedup_by(ex, args, f):
    """std semantics: walk the vector, drop an element when same_bucket(&mut it, &mut previous kept element) answers true"""
    v = deref_all(ex, args[0])
    if "dedup_by_key" in f or len(args) < 2:
        raise Unsupported("Vec::dedup / dedup_by_key")
    clo = deref_all(ex, args[1])
    kept = []
    for it in v.items:
        if kept:
            r = ex.call_closure(clo, [Ref(Cell(it)), Ref(Cell(kept[-1]))])
            c = r.e if hasattr(r, "e") else r
            if ex.decide(c if z3.is_bool(c) else c != 0):
                continue
        kept.append(it)
    v.items[:] = kept
    return UNIT


@intr("Vec::remove", "Vec::<T>::remove")
def _vec_remove(ex, args, f):
    v = deref_all(ex, args[0])
    idx = deref_all(ex, args[1])
    n = len(v.items)
    if ex.decide(z3.UGE(idx.e, n)):
        raise PathEnd("panic", "Vec::remove: index out of bounds")
    i = pick(ex, idx, n)
    return v.items.pop(i)


# ---- std::fs::OpenOptions (+ OpenOptionsExt::mode): a creating open is the recording stub's create_file; the mode given at open is masked by the
# process umask (environment) and only applies to a file that did not exist, so it does not count as "the permission bits were set"
class OpenOptsV:
    def __init__(self):
        self.flags = {}
        self.mode = None


@intr("OpenOptions::new", "std::fs::OpenOptions::new", "fs::OpenOptions::new", "File::options", "std::fs::File::options")
def _oo_new(ex, args, f):
    return OpenOptsV()


def _oo_flag(name):
    def g(ex, args, f):
        o = deref_all(ex, args[0])
        v = deref_all(ex, args[1])
        o.flags[name] = bool(ex.decide(v.e)) if hasattr(v, "e") else bool(v)
        return args[0]
    return g


for _fl in ("read", "write", "append", "truncate", "create", "create_new"):
    for _pre in ("OpenOptions::", "std::fs::OpenOptions::", "fs::OpenOptions::"):
        I[_pre + _fl] = _oo_flag(_fl)


@intr("<_ as OpenOptionsExt>::mode", "<std::fs::OpenOptions as OpenOptionsExt>::mode", "<fs::OpenOptions as OpenOptionsExt>::mode",
      "<std::fs::OpenOptions as std::os::unix::fs::OpenOptionsExt>::mode", "<OpenOptions as OpenOptionsExt>::mode")
def _oo_mode(ex, args, f):
    o = deref_all(ex, args[0])
    o.mode = deref_all(ex, args[1])
    return args[0]


@intr("OpenOptions::open", "std::fs::OpenOptions::open", "fs::OpenOptions::open")
def _oo_open(ex, args, f):
    o = deref_all(ex, args[0])
    if not (o.flags.get("write") or o.flags.get("append")) or not (o.flags.get("create") or o.flags.get("create_new")):
        raise Unsupported("OpenOptions::open without write+create")
    fs = _fs()
    good, stack = _fs_call(ex, "create_file", args[1], not o.flags.get("create_new"))
    fs.ops[-1] = (fs.ops[-1][0], fs.ops[-1][1], ("mode at open", o.mode))
    if good:
        fs.known.insert(0, (stack, True))
    return ok(FileV(args[1])) if good else err(Opaque("io::Error(fs)"))


# ---- gather writes: IoSlice, Write::write_vectored (std's default: the first non-empty buffer goes to write()), io::Error::kind ------------
@intr("IoSlice::new", "std::io::IoSlice::new", "io::IoSlice::new", "IoSlice::<'a>::new")
def _ioslice_new(ex, args, f):
    return args[0]


@intr("<_ as Write>::write_vectored")
def _write_vectored(ex, args, f):
    w = deref_all(ex, args[0])
    bufs = [as_bytes(ex, b) for b in items_of(ex, args[1])]
    if isinstance(w, VecV):
        n = 0
        for b in bufs:                                  # Vec<u8> takes every buffer
            w.items += [Int(x, "u8") for x in b]
            n += len(b)
        return ok(usize(n))
    if hasattr(w, "write"):
        for b in bufs:
            if b:
                return w.write(ex, b)
        return w.write(ex, [])
    raise Unsupported("write_vectored into %r" % (w,))


@intr("std::io::Error::kind", "io::Error::kind", "Error::kind")
def _io_error_kind(ex, args, f):
    er = deref_all(ex, args[0])
    tagname = getattr(er, "tag", "") or ""
    m = re.search(r"io::Error\((\w+)\)", tagname)
    if m:
        return Adt("ErrorKind", {"fs": "Other"}.get(m.group(1), m.group(1)))
    if isinstance(er, Adt) and er.fields and isinstance(deref_all(ex, er.fields[0]), Tup):
        return deref_all(ex, er.fields[0]).items[1]
    raise Unsupported("io::Error::kind of %r" % (er,))


@intr("<std::io::ErrorKind as PartialEq>::eq", "<io::ErrorKind as PartialEq>::eq", "<ErrorKind as PartialEq>::eq")
def _errkind_eq(ex, args, f):
    a, b = deref_all(ex, args[0]), deref_all(ex, args[1])
    return Bool(z3.BoolVal(a.variant == b.variant))
