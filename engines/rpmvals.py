"""Constructors for values of the crate's own types as the MIR interpreter represents them (field order = declaration order)."""
import z3

from symex import Adt, Arr, Int, Opaque, Str, VecV, crate_enum_discr


def u8s(bs):
    return [Int(b, "u8") if not isinstance(b, Int) else b for b in bs]


def byte_vec(bs):
    """Vec<u8> from python ints / z3 terms"""
    return VecV([Int(z3.BitVecVal(b, 8) if isinstance(b, int) else b, "u8") for b in bs])


def string(bs):
    return Str([z3.BitVecVal(b, 8) if isinstance(b, int) else b for b in bs], owned=True)


def sigtag(name):
    return crate_enum_discr("IndexSignatureTag")[name]


def tag(name):
    return crate_enum_discr("IndexTag")[name]


def index_header(n, size):
    return Adt("IndexHeader", "IndexHeader", [Arr(u8s([z3.BitVecVal(x, 8) for x in (0x8e, 0xad, 0xe8)])), Int(1, "u8"),
                                              n if isinstance(n, Int) else Int(n, "u32"), size if isinstance(size, Int) else Int(size, "u32")])


DATA_VARIANTS = ["Null", "Char", "Int8", "Int16", "Int32", "Int64", "StringTag", "Bin", "StringArray", "I18NString"]


def index_data(variant, payload=None):
    if variant == "Null":
        return Adt("IndexData", "Null", [])
    return Adt("IndexData", variant, [payload])


def index_entry(tagv, data, offset=0, num_items=None):
    if num_items is None:
        if data.variant == "Null":
            n = 0
        elif data.variant == "StringTag":
            n = 1
        else:
            p = data.fields[0]
            n = len(p.items) if isinstance(p, VecV) else len(p)
        num_items = n
    return Adt("IndexEntry", "IndexEntry", [tagv if isinstance(tagv, Int) else Int(tagv, "u32"), data,
                                            offset if isinstance(offset, Int) else Int(offset & 0xffffffff, "i32"),
                                            num_items if isinstance(num_items, Int) else Int(num_items, "u32"), Opaque("PhantomData")])


def header(entries, store, n=None, size=None):
    n = len(entries) if n is None else n
    size = len(store) if size is None else size
    return Adt("Header", "Header", [index_header(n, size), VecV(entries), byte_vec(store)])


def lead(name=b"x"):
    nm = list(name[:65]) + [0] * (66 - min(65, len(name)))
    return Adt("Lead", "Lead", [Arr(u8s([z3.BitVecVal(x, 8) for x in (0xed, 0xab, 0xee, 0xdb)])), Int(3, "u8"), Int(0, "u8"), Int(0, "u16"), Int(0, "u16"),
                                Arr(u8s([z3.BitVecVal(x, 8) for x in nm])), Int(1, "u16"), Int(5, "u16"), Arr(u8s([z3.BitVecVal(0, 8)] * 16))])


def metadata(sig, hdr, ld=None):
    return Adt("PackageMetadata", "PackageMetadata", [ld or lead(), sig, hdr])


def package(sig, hdr, content):
    return Adt("Package", "Package", [metadata(sig, hdr), byte_vec(content)])
