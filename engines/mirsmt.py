"""Driver-side glue for the MIR -> SMT engine (imported by /verif/check with the system python;
the engine itself runs under python3-vt because it needs the z3 bindings)."""
import glob
import json
import os
import shutil
import subprocess
import time
from concurrent.futures import ThreadPoolExecutor

HERE = os.path.dirname(os.path.abspath(__file__))
VERIF = os.path.dirname(HERE)
CACHE = os.path.join(VERIF, "cache")


def _env():
    env = dict(os.environ)
    env["CARGO_NET_OFFLINE"] = "true"
    env.pop("RUSTFLAGS", None)
    return env


def dump_mir(repo, workdir):
    """MIR of the library as compiled from the current working tree of `repo` (regenerated on every run)."""
    tdir = os.path.join(CACHE, "mir" if os.path.realpath(repo) == "/repo" else "mir_alt" + os.environ.get("VERIF_ALT_TAG", ""))
    os.makedirs(tdir, exist_ok=True)
    # force rustc to run again even if cargo considers the crate fresh
    for d in glob.glob(os.path.join(tdir, "debug", ".fingerprint", "rpm-*")):
        shutil.rmtree(d, ignore_errors=True)
    out = os.path.join(workdir, "rpm.mir")
    env = _env()
    env["CARGO_TARGET_DIR"] = tdir
    # default features (signature-pgp, gzip, zstd, xz) plus bzip2, so that the signing/verifying code and every compressor arm are part of the dump
    cmd = ["cargo", "+nightly", "rustc", "--offline", "--lib", "--features", "bzip2-compression", "--", "-Zunpretty=mir",
           "-C", "debug-assertions=off", "-C", "overflow-checks=on"]
    with open(out, "w") as fo, open(out + ".err", "w") as fe:
        p = subprocess.run(cmd, cwd=repo, env=env, stdout=fo, stderr=fe, timeout=1800)
    if p.returncode != 0 or os.path.getsize(out) < 1000:
        return None, open(out + ".err", errors="replace").read()[-3000:]
    return out, ""


def build_native(workdir, repo="/repo"):
    env = _env()
    src = os.path.join(VERIF, "native")
    tdir = os.path.join(CACHE, "native")
    if os.path.realpath(repo) != "/repo":
        # checks pointed at another checkout (VERIF_REPO): same helper, path dependency rewritten
        src = os.path.join(workdir, "native")
        shutil.rmtree(src, ignore_errors=True)
        shutil.copytree(os.path.join(VERIF, "native"), src)
        ct = open(os.path.join(src, "Cargo.toml")).read().replace('path = "/repo"', 'path = "%s"' % repo)
        open(os.path.join(src, "Cargo.toml"), "w").write(ct)
        tdir = os.path.join(CACHE, "native_alt" + os.environ.get("VERIF_ALT_TAG", ""))
    env["CARGO_TARGET_DIR"] = tdir
    try:
        shutil.copy(os.path.join(repo, "Cargo.lock"), os.path.join(src, "Cargo.lock"))
    except OSError:
        pass
    p = subprocess.run(["cargo", "build", "--offline"], cwd=src, env=env, stdout=subprocess.PIPE,
                       stderr=subprocess.STDOUT, timeout=1800)
    binp = os.path.join(tdir, "debug", "rpm-native-replay")
    if p.returncode != 0 or not os.path.exists(binp):
        return None, p.stdout.decode(errors="replace")[-3000:]
    if "native_alt" in os.path.basename(tdir):
        # keep a private copy: another run may rebuild the shared alt target dir
        priv = os.path.join(workdir, "rpm-native-replay")
        shutil.copy(binp, priv)
        binp = priv
    return binp, ""


def setup(log):
    os.makedirs(os.path.join(CACHE, "runs", "setup"), exist_ok=True)
    m, e1 = dump_mir("/repo", os.path.join(CACHE, "runs", "setup"))
    b, e2 = build_native(os.path.join(CACHE, "runs", "setup"))
    if m is None:
        log("[setup] MIR dump failed:\n" + e1)
    if b is None:
        log("[setup] native replay helper failed to build:\n" + e2)
    return 0 if (m and b) else 1


def run_many(hs, repo, workdir, tier, seed, jobs, replay_dir):
    t0 = time.time()
    mirp, err = dump_mir(repo, workdir)
    binp, err2 = (None, "") if mirp is None else build_native(workdir, repo)
    results = {}
    if mirp is None or binp is None:
        for h in hs:
            results[h["name"]] = {"verdict": "BUILD_FAILED", "failed": [], "covers": [], "error": (err or err2)[-1500:]}
        return results, (err or err2)

    def one(h):
        out = os.path.join(workdir, "mirsmt_%s.json" % h["name"])
        cmd = ["python3-vt", os.path.join(HERE, "mirsmt_main.py"), "--harness", h["name"], "--mir", mirp, "--native", binp,
               "--out", out, "--seed", str(seed), "--replay-dir", replay_dir, "--repo", repo]
        try:
            subprocess.run(cmd, stdout=subprocess.PIPE, stderr=subprocess.STDOUT, timeout=h.get("timeout", 600))
        except subprocess.TimeoutExpired:
            return h["name"], {"verdict": "TIMEOUT", "failed": [], "covers": [], "wall_s": h.get("timeout", 600)}
        if not os.path.exists(out):
            return h["name"], {"verdict": "ERROR:no result", "failed": [], "covers": []}
        r = json.load(open(out))
        res = {
            "verdict": r["verdict"] if r["verdict"] in ("SUCCESS", "FAILED", "UNSUPPORTED") else "ERROR:" + r.get("error", "")[:200],
            "wall_s": r.get("wall_s"), "n_checks": r.get("paths", 0), "solver_s": r.get("solver_s", 0),
            "stats": {"paths": r.get("paths"), "decisions": r.get("decisions"), "solver_calls": r.get("solver_calls"),
                      "runtime_solver_s": r.get("solver_s")},
            "failed": [{"description": f["description"], "function": f.get("function", ""), "location": "",
                        "witness": {k: v for k, v in f.items() if k not in ("description", "function")}} for f in r.get("failed", [])],
            "covers": r.get("covers", []),
            "functions": r.get("functions", []),
            "extra": {"intrinsics": r.get("intrinsics"), "bounds": r.get("bounds"), "validated_against_native": r.get("validated_against_native"),
                      "max_depth": r.get("max_depth"), "error": r.get("error")},
            "replay": r.get("replay"),
        }
        if r["verdict"] == "UNSUPPORTED":
            res["extra"]["error"] = r.get("error")
        missing = [c["description"] for c in res["covers"] if c["status"] != "Satisfied" and c["description"] not in h.get("covers_unsat_ok", [])]
        res["covers_missing"] = missing
        if res["verdict"] == "SUCCESS" and missing:
            res["verdict"] = "VACUOUS"
        return h["name"], res

    with ThreadPoolExecutor(max_workers=max(1, jobs)) as pool:
        for name, res in pool.map(one, sorted(hs, key=lambda h: -h.get("timeout", 600))):
            results[name] = res
    return results, ""
