#!/bin/bash
# usage: verify_seed.sh <seed-dir> : confirm in a scratch worktree that (a) the existing suite passes with the patch,
# (b) the demonstration fails with the patch, (c) passes without it. Prints a one-line verdict; details in /tmp/verify_<name>.log
D=$1; N=$(basename $(dirname $D))_$(basename $D); W=/tmp/seedverify; L=/tmp/verify_$N.log
if [ ! -d $W ]; then git -C /repo worktree add -q --detach $W HEAD || exit 9; fi
cd $W || exit 9
git checkout -q --detach $(git -C /repo rev-parse HEAD) 2>/dev/null; git checkout -q -- . ; git clean -fdq src tests
demo=$(ls $D/*.rs | head -1); dn=$(basename $demo .rs)
export CARGO_NET_OFFLINE=true CARGO_TARGET_DIR=/tmp/seedverify_target
: > $L; mkdir -p $W/target
git apply "$D/patch.diff" >> $L 2>&1 || { echo "$N: patch does not apply to HEAD"; exit 9; }
cargo test --workspace --no-fail-fast --offline >> $L 2>&1; suite_rc=$?
suite_fail=$(grep -c "^test .* FAILED" $L)
cp $demo tests/$dn.rs
cargo test --offline --test $dn > $L.demo_with 2>&1; with_rc=$?
git checkout -q -- src
cargo test --offline --test $dn > $L.demo_without 2>&1; without_rc=$?
rm -f tests/$dn.rs; git checkout -q -- . ; git clean -fdq src tests
echo "$N: suite_with_patch rc=$suite_rc failed_tests=$suite_fail ; demo_with_patch rc=$with_rc (expect !=0) ; demo_without_patch rc=$without_rc (expect 0)"
