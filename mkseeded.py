#!/usr/bin/env python3
"""Collect the seeded changes produced by the sub-agents into /verif/seeded/<id>/ (patch.diff, demonstration, notes, meta.json)
and write /verif/seeded/RESULTS.md from the verification and detection logs.

  python3 mkseeded.py            (reads /tmp/seed_*/SEED_*/, /tmp/verify_all*.log, /tmp/seedtest_*.out)
"""
import glob
import json
import os
import re
import shutil

HERE = os.path.dirname(os.path.abspath(__file__))
OUT = os.path.join(HERE, "seeded")


def first_para(notes):
    txt = re.sub(r"^#.*$", "", notes, flags=re.M).strip()
    return " ".join(txt.split("\n\n")[0].split())[:700]


def main():
    os.makedirs(OUT, exist_ok=True)
    verify = {}
    for lf in glob.glob("/tmp/verify_all*.log") + glob.glob(os.path.join(HERE, "seeded_verify_round*.log")):
        for l in open(lf):
            m = re.match(r"(seed_\w+_SEED_\d+): suite_with_patch rc=(\d+) failed_tests=(\d+) ; demo_with_patch rc=(\d+).*demo_without_patch rc=(\d+)", l)
            if m:
                verify[m.group(1)] = dict(suite_rc=int(m.group(2)), suite_failed=int(m.group(3)), demo_with_rc=int(m.group(4)), demo_without_rc=int(m.group(5)))
    rows = []
    for d in sorted(glob.glob("/tmp/seed_C*/SEED_*")):
        pid = re.search(r"seed_(C\d+)", d).group(1)
        n = re.search(r"SEED_(\d+)", d).group(1)
        name = "seed_%s_SEED_%s" % (pid, n)
        if not os.path.exists(os.path.join(d, "patch.diff")):
            continue
        v = verify.get(name)
        confirmed = bool(v and v["suite_rc"] == 0 and v["demo_with_rc"] != 0 and v["demo_without_rc"] == 0)
        sid = "%s_%s" % (pid, n)
        dst = os.path.join(OUT, sid)
        det = None
        outf = "/tmp/seedtest_%s.out" % name
        detail = ""
        if os.path.exists(outf):
            txt = open(outf, errors="replace").read()
            mm = re.search(r"^SUMMARY .*$", txt, re.M)
            viol = re.findall(r"^VIOLATION .*$", txt, re.M)
            hv = re.findall(r"^   harness=(\S+) check=\"([^\"]*)\"", txt, re.M)
            inc = re.findall(r"^INCONCLUSIVE .*harness=(\S+) verdict=(\S+)", txt, re.M)
            det = "caught" if viol else ("inconclusive" if (inc or "BROKEN" in txt or "BUILD-FAILED" in txt) else "missed")
            detail = "; ".join("%s: %s" % x for x in hv[:3]) or "; ".join("%s %s" % x for x in inc[:4])
        if not confirmed:
            rows.append((sid, pid, "NOT KEPT (could not be confirmed: %s)" % v, "", ""))
            continue
        os.makedirs(dst, exist_ok=True)
        for f in os.listdir(d):
            shutil.copy(os.path.join(d, f), os.path.join(dst, f))
        notes = open(os.path.join(d, "notes.md"), errors="replace").read() if os.path.exists(os.path.join(d, "notes.md")) else ""
        meta = {
            "property": pid,
            "produced_by": "independent sub-agent given only the property text and a scratch worktree of /repo",
            "needs_to_manifest": first_para(notes),
            "confirmed_here": {
                "how": "/verif/verify_seed.sh %s in a scratch worktree at /repo HEAD: existing suite with the patch, demonstration with and without the patch" % d,
                "suite_with_patch_exit": v["suite_rc"], "suite_failed_tests": v["suite_failed"],
                "demonstration_with_patch_exit": v["demo_with_rc"], "demonstration_without_patch_exit": v["demo_without_rc"],
            },
            "check_run": "VERIF_REPO=<scratch worktree with the patch> ./check %s --tier quick   (via /verif/seedtest.sh)" % pid,
            "check_result": det, "check_detail": detail,
        }
        json.dump(meta, open(os.path.join(dst, "meta.json"), "w"), indent=1)
        rows.append((sid, pid, det or "not run", detail, first_para(notes)[:160]))
    with open(os.path.join(OUT, "RESULTS.md"), "w") as f:
        f.write("# Seeded changes: which check catches which change\n\n")
        f.write("Every change below keeps the existing suite green and was confirmed with its demonstration (fails with the patch, passes without).\n"
                "`caught` = the property's quick check exits 1 with a VIOLATION line on the patched tree (counterexample replayed natively); "
                "`inconclusive` = the check exits 2 (the changed code could not be encoded or a harness did not finish: not a pass, not a detection); `missed` = exit 0.\n\n")
        f.write("| seed | property | result | failing harness / check | what the change needs |\n|---|---|---|---|---|\n")
        for r in rows:
            f.write("| %s | %s | %s | %s | %s |\n" % tuple(str(x).replace("|", "/") for x in r))
    print(open(os.path.join(OUT, "RESULTS.md")).read()[-3000:])


if __name__ == "__main__":
    main()
