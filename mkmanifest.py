#!/usr/bin/env python3
"""Regenerates MANIFEST.json from plan.py (run after editing the plan): python3 mkmanifest.py"""
import json
import os
import subprocess
import sys

HERE = os.path.dirname(os.path.abspath(__file__))
sys.path.insert(0, HERE)
import plan as PLAN  # noqa: E402

T_KANI = ("bounded model checking of the compiled crate (Kani 0.68 -> CBMC 6.11 -> CaDiCaL): harness inputs are symbolic, "
          "each harness is one solver verdict over all values within its bounds, counterexamples are replayed natively before being reported")
T_MIR = ("symbolic execution of the function's MIR (dumped from /repo by the nightly compiler on every run) into SMT (z3, bit-vectors), "
         "std string primitives modelled as listed intrinsics; counterexamples replayed against the compiled crate")


def hook_commits():
    try:
        out = subprocess.run(["git", "-C", "/repo", "log", "--format=%h %s"], stdout=subprocess.PIPE, text=True).stdout
        return [l.split()[0] for l in out.splitlines() if "verif hook" in l]
    except Exception:
        return []


def main():
    checks = []
    served = []
    for pid in sorted(PLAN.PROPERTIES):
        p = PLAN.PROPERTIES[pid]
        engines = sorted({h.get("engine", "kani") for h in p["harnesses"]})
        tech = p.get("technique") or (T_KANI if engines == ["kani"] else (T_MIR if engines == ["mirsmt"] else T_KANI + "; plus " + T_MIR))
        checks.append({
            "property_id": pid,
            "quick_cmd": "./check %s --tier quick" % pid,
            "thorough_cmd": "./check %s --tier thorough" % pid,
            "evidence_file": "/verif/evidence/%s.json" % pid,
            "replay_cmd_template": "./check %s --replay {path}" % pid,
            "engine": "+".join(engines),
            "level_claimed": {"category": "model_checking", "text": p["claim"], "design_ref": p.get("design_ref", "DESIGN.md §5 " + pid)},
            "level_note": p["note"],
            "technique": tech,
        })
        served.append(pid)
    m = {
        "version": 1,
        "setup_cmd": "./check --setup",
        "hooks": {
            "guard": "cfg(kani)",
            "enable": "the Kani compiler sets --cfg kani; harness modules are mounted by `#[cfg(kani)] #[path = \"/verif/harness/<mount>.rs\"] mod verif_kani;` "
                      "appended to src/lib.rs, src/rpm/headers/header.rs, src/rpm/payload.rs, src/version.rs, src/rpm/filecaps.rs (plus a check-cfg lint entry in Cargo.toml); "
                      "the MIR engine needs no hook",
            "baseline_off_cmd": "cd /repo && cargo test --workspace --no-fail-fast --offline",
            "source_commits": hook_commits(),
            "add_only": True,
        },
        "engines": [
            {"name": "kani", "path": "/verif/check", "serves_properties": [c["property_id"] for c in checks if "kani" in c["engine"]],
             "kind_free_text": "bounded model checker for Rust (Kani 0.68 / CBMC 6.11 / CaDiCaL); harnesses in /verif/harness, plan in /verif/plan.py"},
            {"name": "mirsmt", "path": "/verif/engines/mirsmt.py", "serves_properties": [c["property_id"] for c in checks if "mirsmt" in c["engine"]],
             "kind_free_text": "own symbolic executor: rustc -Zunpretty=mir dump of /repo -> bounded symbolic execution -> z3 (QF_BV); used where Kani cannot reach (str-heavy code)"},
        ],
        "checks": checks,
        "notes": "exit 0: held on everything explored (KNOWN-FINDING lines possible); exit 1: reproduced, unlisted violation (VIOLATION line); exit 2: inconclusive/broken - never a pass. See DESIGN.md.",
        "not_applicable": [{"property_id": k, "reason": v} for k, v in sorted(PLAN.NOT_APPLICABLE.items()) if k not in PLAN.PROPERTIES],
    }
    m["engines"] = [e for e in m["engines"] if e["serves_properties"]]
    json.dump(m, open(os.path.join(HERE, "MANIFEST.json"), "w"), indent=1)
    print("MANIFEST.json: %d checks, %d not applicable" % (len(checks), len(m["not_applicable"])))


if __name__ == "__main__":
    main()
